//! The operation alphabet on the public `kismet_cache::Cache` API, executed on
//! the calling (participant) thread, with everything observable recorded.
use crate::world::{self, Val};
use kismet_cache::{Cache, CacheBuilder, CacheHit, CacheHitAction, Key};
use serde_json::{json, Value};
use std::fs::File;
use std::io::{ErrorKind, Read, Seek, Write};
use std::os::unix::io::AsRawFd;
use std::path::{Path, PathBuf};
use std::sync::{Arc, Mutex};

#[derive(Clone, Copy, Debug, PartialEq, Eq, Hash, PartialOrd, Ord)]
pub enum Front {
    Plain,
    Sharded(usize),
}

impl Front {
    pub fn label(&self) -> String {
        match self {
            Front::Plain => "plain".into(),
            Front::Sharded(n) => format!("sharded{}", n),
        }
    }
}

#[derive(Clone, Copy, Debug, PartialEq, Eq, Hash)]
pub enum Checker {
    None,
    /// byte equality, logging the inodes of every invocation
    Counting,
    /// the library's own byte_equality_checker
    ByteEq,
    Panicking,
}

#[derive(Clone, Debug)]
pub struct StackCfg {
    pub writer: Option<(Front, usize)>,
    pub readers: Vec<Front>,
    pub checker: Checker,
    pub auto_sync: bool,
}

impl StackCfg {
    pub fn plain(capacity: usize) -> StackCfg {
        StackCfg {
            writer: Some((Front::Plain, capacity)),
            readers: vec![],
            checker: Checker::None,
            auto_sync: true,
        }
    }
    pub fn label(&self) -> String {
        format!(
            "w={} r=[{}] chk={:?}{}",
            match &self.writer {
                Some((f, c)) => format!("{}:{}", f.label(), c),
                None => "none".into(),
            },
            self.readers
                .iter()
                .map(|f| f.label())
                .collect::<Vec<_>>()
                .join(","),
            self.checker,
            if self.auto_sync { "" } else { " nosync" }
        )
    }
}

#[derive(Clone, Debug)]
pub struct Dirs {
    pub write: PathBuf,
    pub reads: Vec<PathBuf>,
    /// where the application keeps the files it hands to set/put by path
    pub app_tmp: PathBuf,
}

impl Dirs {
    pub fn under(root: &Path, nreaders: usize) -> Dirs {
        let d = Dirs {
            write: root.join("w"),
            reads: (0..nreaders).map(|i| root.join(format!("r{}", i))).collect(),
            app_tmp: root.join("app_tmp"),
        };
        crate::shim::passthrough(|| {
            std::fs::create_dir_all(&d.app_tmp).unwrap();
        });
        d
    }
}

pub type CheckLog = Arc<Mutex<Vec<(u64, u64)>>>;

thread_local! {
    /// how the CacheBuilder is obtained and driven: 0 CacheBuilder::new(), 1 CacheBuilder::default(), 2 a builder
    /// that already produced another cache and was reset by take(), 3 a checker set and then cleared / overridden,
    /// 4 the options given in the opposite order
    pub static BUILDER_STYLE: std::cell::Cell<u8> = const { std::cell::Cell::new(0) };
    /// by-path set/put sources: false = a NamedTempFile (mode 0600), true = a file made with File::create
    /// (mode 0666 & !umask, as an ordinary application would)
    pub static PLAIN_FILE_SOURCE: std::cell::Cell<bool> = const { std::cell::Cell::new(false) };
    /// (with PLAIN_FILE_SOURCE) the application keeps a second hard link to the file it hands over (it linked its
    /// build output next to the cache instead of copying it)
    pub static SOURCE_EXTRA_LINK: std::cell::Cell<bool> = const { std::cell::Cell::new(false) };
    /// by-path set/put sources: permission bits the application gives the file before handing it over (0 = leave as created)
    pub static SOURCE_MODE: std::cell::Cell<u32> = const { std::cell::Cell::new(0) };
}

pub fn build(cfg: &StackCfg, dirs: &Dirs, log: Option<CheckLog>) -> Cache {
    let style = BUILDER_STYLE.with(|s| s.get());
    let mut b = match style {
        1 => CacheBuilder::default(),
        2 => {
            let mut b = CacheBuilder::new();
            b.plain_writer(dirs.app_tmp.join("unused-first-cache"), 10).auto_sync(true);
            let _first = b.take().build();
            b
        }
        _ => CacheBuilder::new(),
    };
    let set_checker = |b: &mut CacheBuilder, log: Option<CheckLog>| match cfg.checker {
        Checker::None => {}
        Checker::ByteEq => {
            b.byte_equality_checker();
        }
        Checker::Panicking => {
            b.panicking_byte_equality_checker();
        }
        Checker::Counting => {
            let log = log.unwrap_or_default();
            b.consistency_checker(move |x: &mut File, y: &mut File| {
                let ix = world::fstat(x.as_raw_fd()).map(|m| m.ino).unwrap_or(0);
                let iy = world::fstat(y.as_raw_fd()).map(|m| m.ino).unwrap_or(0);
                log.lock().unwrap().push((ix, iy));
                // an application's own checker: it reads both files to the end, compares, and leaves the two
                // descriptors wherever it stopped (nothing says a checker has to rewind what it was lent)
                use std::io::Read;
                let (mut a, mut b) = (Vec::new(), Vec::new());
                x.read_to_end(&mut a)?;
                y.read_to_end(&mut b)?;
                if a == b {
                    Ok(())
                } else {
                    Err(std::io::Error::new(ErrorKind::Other, "application checker: copies differ"))
                }
            });
        }
    };
    // style 3: another checker was configured first and then cleared (or overridden by the real one);
    // style 4: the options are given in the opposite order (checker and auto-sync before any directory, readers
    // before the writer)
    if style == 3 {
        b.panicking_byte_equality_checker();
        if cfg.checker == Checker::None {
            b.clear_consistency_checker();
        }
    }
    let add_writer = |b: &mut CacheBuilder| {
        if let Some((front, cap)) = &cfg.writer {
            match front {
                Front::Plain => b.plain_writer(&dirs.write, *cap),
                Front::Sharded(n) => b.sharded_writer(&dirs.write, *n, *cap),
            };
        }
    };
    let add_readers = |b: &mut CacheBuilder| {
        for (i, r) in cfg.readers.iter().enumerate() {
            match r {
                Front::Plain => b.plain_reader(&dirs.reads[i]),
                Front::Sharded(n) => b.sharded_reader(&dirs.reads[i], *n),
            };
        }
    };
    if style == 4 {
        set_checker(&mut b, log);
        if !cfg.auto_sync {
            b.auto_sync(false);
        }
        add_readers(&mut b);
        add_writer(&mut b);
    } else {
        add_writer(&mut b);
        add_readers(&mut b);
        // auto-sync is on by default: only ever switch it off explicitly
        if !cfg.auto_sync {
            b.auto_sync(false);
        }
        set_checker(&mut b, log);
    }
    b.take().build()
}

#[derive(Clone, Debug, PartialEq, Eq, Hash)]
pub struct K {
    pub name: String,
    pub h1: u64,
    pub h2: u64,
}

impl K {
    pub fn new(name: &str, h1: u64, h2: u64) -> K {
        K {
            name: name.to_string(),
            h1,
            h2,
        }
    }
    pub fn key(&self) -> Key<'_> {
        Key::new(&self.name, self.h1, self.h2)
    }
}

#[derive(Clone, Copy, Debug, PartialEq, Eq, Hash)]
pub enum Act {
    Accept,
    Promote,
    Replace,
}

#[derive(Clone, Copy, Debug, PartialEq, Eq, Hash)]
pub enum Pop {
    Value(Val),
    NotFound,
    OtherErr,
    /// fails with the raw OS error ESTALE (an error the callback propagated from its own I/O): an error like any other
    StaleErr,
    /// writes the first chunk of the value, then fails with NotFound
    PartialNotFound(Val),
    /// writes the first chunk of the value, then fails with another error
    PartialErr(Val),
}

#[derive(Clone, Debug, PartialEq, Eq, Hash)]
pub enum Op {
    /// get, then read the returned handle to the end
    Get(K),
    /// get and drop the handle unread
    GetNoRead(K),
    Touch(K),
    Set(K, Val),
    Put(K, Val),
    SetTemp(K, Val),
    PutTemp(K, Val),
    Ensure(K, Pop),
    Gou(K, Act, Pop),
}

impl Op {
    pub fn label(&self) -> String {
        match self {
            Op::Get(k) => format!("get({})", k.name),
            Op::GetNoRead(k) => format!("get_noread({})", k.name),
            Op::Touch(k) => format!("touch({})", k.name),
            Op::Set(k, v) => format!("set({},{})", k.name, v.label()),
            Op::Put(k, v) => format!("put({},{})", k.name, v.label()),
            Op::SetTemp(k, v) => format!("set_temp_file({},{})", k.name, v.label()),
            Op::PutTemp(k, v) => format!("put_temp_file({},{})", k.name, v.label()),
            Op::Ensure(k, p) => format!("ensure({},{})", k.name, pop_label(p)),
            Op::Gou(k, a, p) => format!("get_or_update({},{:?},{})", k.name, a, pop_label(p)),
        }
    }
    pub fn key(&self) -> &K {
        match self {
            Op::Get(k)
            | Op::GetNoRead(k)
            | Op::Touch(k)
            | Op::Set(k, _)
            | Op::Put(k, _)
            | Op::SetTemp(k, _)
            | Op::PutTemp(k, _)
            | Op::Ensure(k, _)
            | Op::Gou(k, _, _) => k,
        }
    }
    pub fn is_write(&self) -> bool {
        !matches!(self, Op::Get(_) | Op::GetNoRead(_) | Op::Touch(_))
    }
    pub fn value(&self) -> Option<Val> {
        match self {
            Op::Set(_, v) | Op::Put(_, v) | Op::SetTemp(_, v) | Op::PutTemp(_, v) => Some(*v),
            Op::Ensure(_, Pop::Value(v)) | Op::Gou(_, _, Pop::Value(v)) => Some(*v),
            _ => None,
        }
    }
}

fn pop_label(p: &Pop) -> String {
    match p {
        Pop::Value(v) => v.label(),
        Pop::NotFound => "NotFound".into(),
        Pop::OtherErr => "Err".into(),
        Pop::StaleErr => "ESTALE".into(),
        Pop::PartialNotFound(v) => format!("{}-cut-NotFound", v.label()),
        Pop::PartialErr(v) => format!("{}-cut-Err", v.label()),
    }
}

#[derive(Clone, Debug, PartialEq, Eq)]
pub enum Res {
    /// a handle was returned; these are the bytes read from it
    Hit(Vec<u8>),
    /// a handle was returned and dropped unread
    HitUnread,
    Miss,
    Bool(bool),
    Unit,
    Err(ErrorKind, Option<i32>, String),
    Panic(String),
}

impl Res {
    pub fn label(&self) -> String {
        match self {
            Res::Hit(b) => format!("hit:{}", world::describe_bytes(b)),
            Res::HitUnread => "hit".into(),
            Res::Miss => "miss".into(),
            Res::Bool(b) => format!("{}", b),
            Res::Unit => "ok".into(),
            Res::Err(k, os, _) => format!("err:{:?}/{:?}", k, os),
            Res::Panic(m) => format!("panic:{}", m.chars().take(60).collect::<String>()),
        }
    }
    pub fn is_err(&self) -> bool {
        matches!(self, Res::Err(..))
    }
    pub fn is_panic(&self) -> bool {
        matches!(self, Res::Panic(_))
    }
}

#[derive(Clone, Debug, Default)]
pub struct HandleInfo {
    pub accmode: i32,
    pub offset: i64,
    pub ino: u64,
}

#[derive(Clone, Debug)]
pub struct Outcome {
    pub res: Res,
    /// (hit was primary, bytes the judge read from the file it was given)
    pub judge: Vec<(bool, Vec<u8>)>,
    pub populate_calls: u32,
    /// what populate received as the old file: None = no old file
    pub populate_old: Vec<Option<Vec<u8>>>,
    pub handle: Option<HandleInfo>,
    /// source path handed to set/put by path, if any
    pub source: Option<PathBuf>,
}

impl Outcome {
    pub fn to_json(&self) -> Value {
        json!({
            "res": self.res.label(),
            "judge": self.judge.iter().map(|(p, b)| json!([p, world::describe_bytes(b)])).collect::<Vec<_>>(),
            "populate_calls": self.populate_calls,
        })
    }
}

fn io_res<T>(r: std::io::Result<T>, f: impl FnOnce(T) -> Res) -> Res {
    match r {
        Ok(x) => f(x),
        Err(e) => Res::Err(e.kind(), e.raw_os_error(), e.to_string()),
    }
}

fn write_val(f: &mut File, v: Val) -> std::io::Result<()> {
    for c in v.chunks() {
        f.write_all(&c)?;
    }
    Ok(())
}

pub fn inspect_handle(f: &File) -> HandleInfo {
    crate::shim::passthrough(|| {
        let fd = f.as_raw_fd();
        let fl = unsafe { libc::syscall(libc::SYS_fcntl, fd, libc::F_GETFL) } as i32;
        let off = unsafe { libc::syscall(libc::SYS_lseek, fd, 0, libc::SEEK_CUR) };
        HandleInfo {
            accmode: fl & libc::O_ACCMODE,
            offset: off,
            ino: world::fstat(fd).map(|m| m.ino).unwrap_or(0),
        }
    })
}

fn read_handle(mut f: File, read: bool, handle: &mut Option<HandleInfo>) -> Res {
    *handle = Some(inspect_handle(&f));
    if !read {
        return Res::HitUnread;
    }
    let mut buf = Vec::new();
    match f.read_to_end(&mut buf) {
        Ok(_) => Res::Hit(buf),
        Err(e) => Res::Err(e.kind(), e.raw_os_error(), format!("reading returned handle: {}", e)),
    }
}

/// Some(offset): the application stages its sources and temp-file objects in the write cache's own `.kismet_temp` (the
/// documented workflow) and they carry a modification time `offset` nanoseconds away from the clock (a file copied with
/// its timestamps preserved, or written by a host whose clock runs ahead).  Process-wide: participant threads see it.
static STAGED_SOURCE_NS: std::sync::atomic::AtomicI64 = std::sync::atomic::AtomicI64::new(i64::MIN);

pub fn set_staged_source(offset_ns: Option<i64>) {
    STAGED_SOURCE_NS.store(offset_ns.unwrap_or(i64::MIN), std::sync::atomic::Ordering::SeqCst);
}

fn staged_source() -> Option<i64> {
    match STAGED_SOURCE_NS.load(std::sync::atomic::Ordering::SeqCst) {
        i64::MIN => None,
        v => Some(v),
    }
}

/// Creates the application's own source file for a by-path set/put.
fn make_source(dirs: &Dirs, v: Val) -> std::io::Result<tempfile::NamedTempFile> {
    if let Some(off) = staged_source() {
        let dir = dirs.write.join(".kismet_temp");
        crate::shim::passthrough(|| std::fs::create_dir_all(&dir))?;
        let mut t = tempfile::NamedTempFile::new_in(&dir)?;
        write_val(t.as_file_mut(), v)?;
        let m = crate::shim::clock_peek_ns() as i128 + off as i128;
        let p = t.path().to_owned();
        crate::shim::passthrough(|| world::set_times(&p, m, m));
        return Ok(t);
    }
    let mut t = tempfile::NamedTempFile::new_in(&dirs.app_tmp)?;
    write_val(t.as_file_mut(), v)?;
    Ok(t)
}

/// Where temp-file objects for set_temp_file/put_temp_file are created.
fn make_temp_object(dirs: &Dirs, v: Val) -> std::io::Result<tempfile::NamedTempFile> {
    make_source(dirs, v)
}

pub struct ExecOpts {
    pub judge_reads: bool,
}

impl Default for ExecOpts {
    fn default() -> Self {
        ExecOpts { judge_reads: true }
    }
}

/// Executes one operation on the current thread; never unwinds.
pub fn exec(cache: &Cache, dirs: &Dirs, op: &Op, opts: &ExecOpts) -> Outcome {
    let mut out = Outcome {
        res: Res::Unit,
        judge: vec![],
        populate_calls: 0,
        populate_old: vec![],
        handle: None,
        source: None,
    };
    let r = std::panic::catch_unwind(std::panic::AssertUnwindSafe(|| exec_inner(cache, dirs, op, opts, &mut out)));
    match r {
        Ok(res) => out.res = res,
        Err(p) => {
            let msg = if let Some(s) = p.downcast_ref::<&str>() {
                s.to_string()
            } else if let Some(s) = p.downcast_ref::<String>() {
                s.clone()
            } else {
                world::take_panic().unwrap_or_else(|| "panic".into())
            };
            out.res = Res::Panic(msg);
        }
    }
    out
}

fn exec_inner(cache: &Cache, dirs: &Dirs, op: &Op, opts: &ExecOpts, out: &mut Outcome) -> Res {
    match op {
        Op::Get(k) | Op::GetNoRead(k) => {
            let read = matches!(op, Op::Get(_));
            match cache.get(k.key()) {
                Ok(Some(f)) => read_handle(f, read, &mut out.handle),
                Ok(None) => Res::Miss,
                Err(e) => Res::Err(e.kind(), e.raw_os_error(), e.to_string()),
            }
        }
        Op::Touch(k) => io_res(cache.touch(k.key()), Res::Bool),
        Op::Set(k, v) | Op::Put(k, v) if PLAIN_FILE_SOURCE.with(|p| p.get()) => {
            // an ordinary application file: File::create (0666 & !umask), written, closed, handed over by path
            let path = dirs.app_tmp.join(format!("plain-source-{}", k.name.len()));
            let made = (|| -> std::io::Result<()> {
                let mut f = File::create(&path)?;
                write_val(&mut f, *v)
            })();
            if let Err(e) = made {
                return Res::Err(e.kind(), e.raw_os_error(), format!("app source: {}", e));
            }
            out.source = Some(path.clone());
            let keep = dirs.app_tmp.join(format!("kept-link-{}", k.name.len()));
            if SOURCE_EXTRA_LINK.with(|l| l.get()) {
                crate::shim::passthrough(|| {
                    let _ = std::fs::remove_file(&keep);
                    std::fs::hard_link(&path, &keep).unwrap();
                });
            }
            let r = if matches!(op, Op::Set(..)) { cache.set(k.key(), &path) } else { cache.put(k.key(), &path) };
            crate::shim::passthrough(|| {
                let _ = std::fs::remove_file(&keep);
            });
            let _ = std::fs::remove_file(&path);
            io_res(r, |_| Res::Unit)
        }
        Op::Set(k, v) | Op::Put(k, v) => {
            let src = match make_source(dirs, *v) {
                Ok(s) => s,
                Err(e) => return Res::Err(e.kind(), e.raw_os_error(), format!("app temp: {}", e)),
            };
            out.source = Some(src.path().to_owned());
            let mode = SOURCE_MODE.with(|m| m.get());
            if mode != 0 {
                // the application's own doing, before the call: not part of the operation
                use std::os::unix::fs::PermissionsExt;
                let p = src.path().to_owned();
                crate::shim::passthrough(|| std::fs::set_permissions(&p, std::fs::Permissions::from_mode(mode)).unwrap());
            }
            let r = if matches!(op, Op::Set(..)) {
                cache.set(k.key(), src.path())
            } else {
                cache.put(k.key(), src.path())
            };
            // the application's temp-file guard removes the source if it is still there
            drop(src);
            io_res(r, |_| Res::Unit)
        }
        Op::SetTemp(k, v) | Op::PutTemp(k, v) => {
            let src = match make_temp_object(dirs, *v) {
                Ok(s) => s,
                Err(e) => return Res::Err(e.kind(), e.raw_os_error(), format!("app temp: {}", e)),
            };
            out.source = Some(src.path().to_owned());
            let r = if matches!(op, Op::SetTemp(..)) {
                cache.set_temp_file(k.key(), src)
            } else {
                cache.put_temp_file(k.key(), src)
            };
            io_res(r, |_| Res::Unit)
        }
        Op::Ensure(k, pop) => {
            let pop = *pop;
            let calls = &mut out.populate_calls;
            let r = cache.ensure(k.key(), |dst| {
                *calls += 1;
                populate(dst, pop)
            });
            match r {
                Ok(f) => read_handle(f, true, &mut out.handle),
                Err(e) => Res::Err(e.kind(), e.raw_os_error(), e.to_string()),
            }
        }
        Op::Gou(k, act, pop) => {
            let pop = *pop;
            let act = *act;
            let judge_log = &mut out.judge;
            let calls = &mut out.populate_calls;
            let olds = &mut out.populate_old;
            let judge_reads = opts.judge_reads;
            let r = cache.get_or_update(
                k.key(),
                |hit| {
                    let (primary, file) = match hit {
                        CacheHit::Primary(f) => (true, f),
                        CacheHit::Secondary(f) => (false, f),
                    };
                    let mut buf = Vec::new();
                    if judge_reads {
                        let _ = file.read_to_end(&mut buf);
                    }
                    judge_log.push((primary, buf));
                    match act {
                        Act::Accept => CacheHitAction::Accept,
                        Act::Promote => CacheHitAction::Promote,
                        Act::Replace => CacheHitAction::Replace,
                    }
                },
                |dst, old| {
                    *calls += 1;
                    olds.push(old.map(|mut f| {
                        let mut b = Vec::new();
                        let _ = f.seek(std::io::SeekFrom::Start(0));
                        let _ = f.read_to_end(&mut b);
                        b
                    }));
                    populate(dst, pop)
                },
            );
            match r {
                Ok(f) => read_handle(f, true, &mut out.handle),
                Err(e) => Res::Err(e.kind(), e.raw_os_error(), e.to_string()),
            }
        }
    }
}

fn populate(dst: &mut File, pop: Pop) -> std::io::Result<()> {
    match pop {
        Pop::Value(v) => write_val(dst, v),
        Pop::NotFound => Err(std::io::Error::new(ErrorKind::NotFound, "populate: not found")),
        Pop::OtherErr => Err(std::io::Error::new(ErrorKind::Other, "populate: failed")),
        Pop::StaleErr => Err(std::io::Error::from_raw_os_error(libc::ESTALE)),
        Pop::PartialNotFound(v) | Pop::PartialErr(v) => {
            if let Some(c) = v.chunks().first() {
                dst.write_all(c)?;
            }
            let kind = if matches!(pop, Pop::PartialNotFound(_)) { ErrorKind::NotFound } else { ErrorKind::Other };
            Err(std::io::Error::new(kind, "populate: failed half-way"))
        }
    }
}

// ---------------------------------------------------------------------------
// Shard placement, reimplemented independently of sharded.rs (from lib.rs's
// documentation and multiplicative_hash's contract): constants from SHA-256
// of two fixed strings; mix = h * odd_multiplier + addend; shard = (n * mix) >> 64.

pub fn sha256(data: &[u8]) -> [u8; 32] {
    const K: [u32; 64] = [
        0x428a2f98, 0x71374491, 0xb5c0fbcf, 0xe9b5dba5, 0x3956c25b, 0x59f111f1, 0x923f82a4, 0xab1c5ed5, 0xd807aa98,
        0x12835b01, 0x243185be, 0x550c7dc3, 0x72be5d74, 0x80deb1fe, 0x9bdc06a7, 0xc19bf174, 0xe49b69c1, 0xefbe4786,
        0x0fc19dc6, 0x240ca1cc, 0x2de92c6f, 0x4a7484aa, 0x5cb0a9dc, 0x76f988da, 0x983e5152, 0xa831c66d, 0xb00327c8,
        0xbf597fc7, 0xc6e00bf3, 0xd5a79147, 0x06ca6351, 0x14292967, 0x27b70a85, 0x2e1b2138, 0x4d2c6dfc, 0x53380d13,
        0x650a7354, 0x766a0abb, 0x81c2c92e, 0x92722c85, 0xa2bfe8a1, 0xa81a664b, 0xc24b8b70, 0xc76c51a3, 0xd192e819,
        0xd6990624, 0xf40e3585, 0x106aa070, 0x19a4c116, 0x1e376c08, 0x2748774c, 0x34b0bcb5, 0x391c0cb3, 0x4ed8aa4a,
        0x5b9cca4f, 0x682e6ff3, 0x748f82ee, 0x78a5636f, 0x84c87814, 0x8cc70208, 0x90befffa, 0xa4506ceb, 0xbef9a3f7,
        0xc67178f2,
    ];
    let mut h: [u32; 8] = [
        0x6a09e667, 0xbb67ae85, 0x3c6ef372, 0xa54ff53a, 0x510e527f, 0x9b05688c, 0x1f83d9ab, 0x5be0cd19,
    ];
    let mut msg = data.to_vec();
    let bitlen = (data.len() as u64) * 8;
    msg.push(0x80);
    while msg.len() % 64 != 56 {
        msg.push(0);
    }
    msg.extend_from_slice(&bitlen.to_be_bytes());
    for block in msg.chunks(64) {
        let mut w = [0u32; 64];
        for i in 0..16 {
            w[i] = u32::from_be_bytes([block[4 * i], block[4 * i + 1], block[4 * i + 2], block[4 * i + 3]]);
        }
        for i in 16..64 {
            let s0 = w[i - 15].rotate_right(7) ^ w[i - 15].rotate_right(18) ^ (w[i - 15] >> 3);
            let s1 = w[i - 2].rotate_right(17) ^ w[i - 2].rotate_right(19) ^ (w[i - 2] >> 10);
            w[i] = w[i - 16].wrapping_add(s0).wrapping_add(w[i - 7]).wrapping_add(s1);
        }
        let mut a = h;
        for i in 0..64 {
            let s1 = a[4].rotate_right(6) ^ a[4].rotate_right(11) ^ a[4].rotate_right(25);
            let ch = (a[4] & a[5]) ^ (!a[4] & a[6]);
            let t1 = a[7].wrapping_add(s1).wrapping_add(ch).wrapping_add(K[i]).wrapping_add(w[i]);
            let s0 = a[0].rotate_right(2) ^ a[0].rotate_right(13) ^ a[0].rotate_right(22);
            let maj = (a[0] & a[1]) ^ (a[0] & a[2]) ^ (a[1] & a[2]);
            let t2 = s0.wrapping_add(maj);
            a[7] = a[6];
            a[6] = a[5];
            a[5] = a[4];
            a[4] = a[3].wrapping_add(t1);
            a[3] = a[2];
            a[2] = a[1];
            a[1] = a[0];
            a[0] = t1.wrapping_add(t2);
        }
        for i in 0..8 {
            h[i] = h[i].wrapping_add(a[i]);
        }
    }
    let mut out = [0u8; 32];
    for i in 0..8 {
        out[4 * i..4 * i + 4].copy_from_slice(&h[i].to_be_bytes());
    }
    out
}

#[derive(Clone, Copy, Debug)]
pub struct Mixer {
    pub mul: u64,
    pub add: u64,
}

impl Mixer {
    pub fn keyed(s: &[u8]) -> Mixer {
        let h = sha256(s);
        let mut m = [0u8; 8];
        let mut a = [0u8; 8];
        m.copy_from_slice(&h[0..8]);
        a.copy_from_slice(&h[8..16]);
        Mixer {
            mul: u64::from_le_bytes(m) | 1,
            add: u64::from_le_bytes(a),
        }
    }
    pub fn mix(&self, x: u64) -> u64 {
        x.wrapping_mul(self.mul).wrapping_add(self.add)
    }
    /// x such that mix(x) == y (the multiplier is odd, hence invertible mod 2^64).
    pub fn unmix(&self, y: u64) -> u64 {
        let mut inv: u64 = 1;
        for _ in 0..7 {
            inv = inv.wrapping_mul(2u64.wrapping_sub(self.mul.wrapping_mul(inv)));
        }
        y.wrapping_sub(self.add).wrapping_mul(inv)
    }
}

pub fn primary_mixer() -> Mixer {
    Mixer::keyed(b"kismet: primary shard mixer")
}
pub fn secondary_mixer() -> Mixer {
    Mixer::keyed(b"kismet: secondary shard mixer")
}

/// The documented placement: (primary shard, secondary shard), distinct.
pub fn expected_shards(h1: u64, h2: u64, num_shards: usize) -> (usize, usize) {
    let n = num_shards.max(2) as u128;
    let s1 = ((n * primary_mixer().mix(h1) as u128) >> 64) as usize;
    let mut s2 = ((n * secondary_mixer().mix(h2) as u128) >> 64) as usize;
    if s2 == s1 {
        s2 += 1;
        if s2 as u128 >= n {
            s2 = 0;
        }
    }
    (s1, s2)
}

pub fn shard_dir_name(id: usize) -> String {
    format!(".kismet_{:04x}", id)
}

/// A hash whose primary image falls in shard `s` of `n` (any point of it).
pub fn hash_for_primary(s: usize, n: usize) -> u64 {
    let n = n.max(2) as u128;
    // smallest mixed value y with (n*y)>>64 == s is ceil(s*2^64/n)
    let y = ((s as u128) << 64).div_ceil(n) as u64;
    primary_mixer().unmix(y.wrapping_add(12345))
}
pub fn hash_for_secondary(s: usize, n: usize) -> u64 {
    let n = n.max(2) as u128;
    let y = ((s as u128) << 64).div_ceil(n) as u64;
    secondary_mixer().unmix(y.wrapping_add(12345))
}

/// A key whose (primary, secondary) shards are exactly (s1, s2) out of n.
pub fn key_for_shards(name: &str, s1: usize, s2: usize, n: usize) -> K {
    let k = K::new(name, hash_for_primary(s1, n), hash_for_secondary(s2, n));
    debug_assert_eq!(expected_shards(k.h1, k.h2, n), (s1, s2));
    k
}

/// The directories where `k` may live under a cache rooted at `root`.
pub fn candidate_dirs(root: &Path, front: Front, k: &K) -> Vec<PathBuf> {
    match front {
        Front::Plain => vec![root.to_path_buf()],
        Front::Sharded(n) => {
            let (a, b) = expected_shards(k.h1, k.h2, n);
            vec![root.join(shard_dir_name(a)), root.join(shard_dir_name(b))]
        }
    }
}
