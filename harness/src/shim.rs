//! fsx: the filesystem-call shim.
//!
//! The harness binary defines the libc entry points itself; std, filetime,
//! tempfile and kismet are statically linked into the same executable, so
//! their calls bind here.  The real work is done with raw system calls
//! (`libc::syscall`, which is deliberately *not* interposed), except for
//! directory streams, which go to glibc through `dlsym(RTLD_NEXT)`.
//!
//! On a *participant* thread every call is described, offered to the
//! installed controller (which may schedule another participant, kill the
//! process, or inject a failure), executed, and recorded.  On any other
//! thread the call passes straight through.
#![allow(clippy::missing_safety_doc)]

use libc::{c_char, c_int, c_long, c_uint, c_void, mode_t, off_t, size_t, ssize_t};
use std::cell::Cell;
use std::collections::HashMap;
use std::ffi::CStr;
use std::sync::atomic::{AtomicBool, AtomicI64, AtomicU64, AtomicUsize, Ordering::SeqCst};
use std::sync::{Arc, Mutex, RwLock};

#[derive(Clone, Copy, Debug, PartialEq, Eq, Hash, PartialOrd, Ord)]
pub enum Kind {
    Open,
    Stat,
    Rename,
    Link,
    Symlink,
    Unlink,
    Rmdir,
    Mkdir,
    Chmod,
    Fchmod,
    Truncate,
    Utimens,
    Opendir,
    Readdir,
    Closedir,
    Read,
    Write,
    CopyRange,
    Fsync,
    Close,
    Lseek,
    Dup,
    Fcntl,
    Lock,
    Clock,
    OpBegin,
    Estimate,
    Other,
}

impl Kind {
    pub fn name(self) -> &'static str {
        match self {
            Kind::Open => "open",
            Kind::Stat => "stat",
            Kind::Rename => "rename",
            Kind::Link => "link",
            Kind::Symlink => "symlink",
            Kind::Unlink => "unlink",
            Kind::Rmdir => "rmdir",
            Kind::Mkdir => "mkdir",
            Kind::Chmod => "chmod",
            Kind::Fchmod => "fchmod",
            Kind::Truncate => "truncate",
            Kind::Utimens => "utimens",
            Kind::Opendir => "opendir",
            Kind::Readdir => "readdir",
            Kind::Closedir => "closedir",
            Kind::Read => "read",
            Kind::Write => "write",
            Kind::CopyRange => "copy_file_range",
            Kind::Fsync => "fsync",
            Kind::Close => "close",
            Kind::Lseek => "lseek",
            Kind::Dup => "dup",
            Kind::Fcntl => "fcntl",
            Kind::Lock => "lock",
            Kind::Clock => "clock_gettime",
            Kind::OpBegin => "op_begin",
            Kind::Estimate => "load_estimate",
            Kind::Other => "other",
        }
    }
}

/// One intercepted call: described before it runs, completed afterwards.
#[derive(Clone, Debug)]
pub struct Ev {
    pub seq: u64,
    pub tid: i32,
    pub op: u32,
    pub kind: Kind,
    pub func: &'static str,
    pub path: Option<String>,
    pub path2: Option<String>,
    pub fd: i32,
    pub fd2: i32,
    /// (dev, ino) of the object acted upon: the fd's inode, or what the path
    /// named just before the call (0 if nothing); for creating calls, the
    /// inode after the call.
    pub ino: u64,
    /// inode displaced at the destination of a rename/link (0 if none).
    pub ino2: u64,
    pub flags: i64,
    pub arg: i64,
    pub ret: i64,
    pub errno: i32,
    pub injected: bool,
    /// the call really took effect although it was made to report failure (Action::FailAfter)
    pub effect_done: bool,
    pub sets_atime: bool,
    pub sets_mtime: bool,
    /// true for kernel-behaviour emulation issued by the shim itself.
    pub emulation: bool,
}

impl Ev {
    fn new(kind: Kind, func: &'static str) -> Ev {
        Ev {
            seq: 0,
            tid: -1,
            op: 0,
            kind,
            func,
            path: None,
            path2: None,
            fd: -1,
            fd2: -1,
            ino: 0,
            ino2: 0,
            flags: 0,
            arg: 0,
            ret: 0,
            errno: 0,
            injected: false,
            effect_done: false,
            sets_atime: false,
            sets_mtime: false,
            emulation: false,
        }
    }

    pub fn ok(&self) -> bool {
        self.ret >= 0
    }

    pub fn brief(&self) -> String {
        let mut s = format!("t{}#{} {}", self.tid, self.op, self.func);
        if let Some(p) = &self.path {
            s.push(' ');
            s.push_str(p);
        }
        if let Some(p) = &self.path2 {
            s.push_str(" -> ");
            s.push_str(p);
        }
        if self.fd >= 0 && self.path.is_none() {
            s.push_str(&format!(" fd{}", self.fd));
        }
        if self.ret < 0 {
            s.push_str(&format!(
                " = -1 errno {}{}",
                self.errno,
                if self.injected { " (injected)" } else { "" }
            ));
        }
        s
    }
}

#[derive(Clone, Copy, Debug, PartialEq, Eq)]
pub enum Action {
    Proceed,
    /// Do not execute; return -1 with this errno.
    Fail(i32),
    /// Execute, then report failure with this errno.
    FailAfter(i32),
    /// write/copy: transfer only half of the bytes.
    Short,
    /// close of a file written through this descriptor: the deferred write-back fails, i.e. the second half of
    /// the data never reaches the file (it is cut to half its size), the descriptor is released and close reports
    /// this errno (what NFS, quotas and full disks do to a writer that did not fsync)
    LoseTail(i32),
    /// The process dies here, instead of executing the call.
    Die,
}

pub trait Controller: Send + Sync {
    fn before(&self, _ev: &Ev) -> Action {
        Action::Proceed
    }
    fn after(&self, _ev: &Ev) {}
}

// ---------------------------------------------------------------------------
// Per-thread and global state

/// Participants of an abandoned execution (a runaway loop, a hang) become "zombies": every
/// intercepted call of theirs fails with EIO after a short sleep and leaves no trace.
static GENERATION: AtomicU64 = AtomicU64::new(1);

thread_local! {
    static MY_GEN: Cell<u64> = const { Cell::new(0) };
    static TID: Cell<i32> = const { Cell::new(-1) };
    static IN_SHIM: Cell<bool> = const { Cell::new(false) };
    static OP: Cell<u32> = const { Cell::new(0) };
}

static CONTROLLER: RwLock<Option<Arc<dyn Controller>>> = RwLock::new(None);
static TRACE: Mutex<Vec<Ev>> = Mutex::new(Vec::new());
static TRACING: AtomicBool = AtomicBool::new(true);
static SEQ: AtomicU64 = AtomicU64::new(0);

#[derive(Clone, Debug)]
pub struct FdInfo {
    pub path: String,
    pub ino: u64,
    pub is_dir: bool,
    pub tid: i32,
    pub write: bool,
}
static FDS: Mutex<Option<HashMap<i32, FdInfo>>> = Mutex::new(None);
static PEAK_FDS: AtomicUsize = AtomicUsize::new(0);

struct DirBuf {
    entries: Vec<libc::dirent64>,
    pos: usize,
    loaded: bool,
    path: String,
    calls: i64,
    tid: i32,
}
static DIRS: Mutex<Option<HashMap<usize, DirBuf>>> = Mutex::new(None);

// Environment configuration (owned nondeterminism).
pub const ATIME_NOATIME: usize = 0;
pub const ATIME_RELATIME: usize = 1;
pub const ATIME_STRICT: usize = 2;
static ATIME_POLICY: AtomicUsize = AtomicUsize::new(ATIME_RELATIME);
static GRANULARITY_NS: AtomicI64 = AtomicI64::new(1);
static CLOCK_VIRTUAL: AtomicBool = AtomicBool::new(false);
static CLOCK_BASE_NS: AtomicI64 = AtomicI64::new(0);
static CLOCK_STEP_NS: AtomicI64 = AtomicI64::new(1_000_000);
static CLOCK_TICKS: AtomicI64 = AtomicI64::new(0);
static CLOCK_JUMP_NS: AtomicI64 = AtomicI64::new(0);
pub const ORDER_NATIVE: usize = 0;
pub const ORDER_REVERSED: usize = 1;
pub const ORDER_SORTED: usize = 2;
pub const ORDER_SORTED_REV: usize = 3;
static READDIR_ORDER: AtomicUsize = AtomicUsize::new(ORDER_SORTED);
/// directory listings report no entry type (d_type = DT_UNKNOWN, as XFS without ftype, some NFS/FUSE/overlay setups do)
static DTYPE_UNKNOWN: AtomicBool = AtomicBool::new(false);
pub fn set_dtype_unknown(on: bool) {
    DTYPE_UNKNOWN.store(on, SeqCst);
}
static NOATIME_PREFIX: Mutex<Option<Vec<u8>>> = Mutex::new(None);

pub fn set_participant(tid: i32) {
    TID.with(|t| t.set(tid));
    OP.with(|o| o.set(0));
    // (a participant section is at most one operation unless `set_op` says otherwise: the runaway guard counts per section)
    OP_EVENTS.with(|c| c.set(0));
    MY_GEN.with(|g| g.set(GENERATION.load(SeqCst)));
}
/// Turns every current participant thread into a zombie.
pub fn retire_generation() {
    GENERATION.fetch_add(1, SeqCst);
}
fn is_zombie() -> bool {
    MY_GEN.try_with(|g| g.get() != GENERATION.load(SeqCst)).unwrap_or(false)
}
pub fn participant() -> i32 {
    TID.try_with(|t| t.get()).unwrap_or(-1)
}
pub fn set_op(op: u32) {
    OP.with(|o| o.set(op));
    OP_EVENTS.with(|c| c.set(0));
}

thread_local! {
    /// calls issued by the current operation of this participant (a runaway operation must not hang a whole check)
    static OP_EVENTS: Cell<u64> = const { Cell::new(0) };
}
const RUNAWAY_LIMIT: u64 = 3_000_000;
pub fn current_op() -> u32 {
    OP.with(|o| o.get())
}
pub fn set_controller(c: Option<Arc<dyn Controller>>) {
    *CONTROLLER.write().unwrap() = c;
}
pub fn take_trace() -> Vec<Ev> {
    std::mem::take(&mut *TRACE.lock().unwrap())
}
pub fn trace_len() -> usize {
    TRACE.lock().unwrap().len()
}
pub fn trace_since(n: usize) -> Vec<Ev> {
    TRACE.lock().unwrap()[n..].to_vec()
}
pub fn set_tracing(on: bool) {
    TRACING.store(on, SeqCst);
}
/// inodes written by a participant and not flushed since (what a failing close may lose)
static DIRTY: Mutex<Option<std::collections::HashSet<u64>>> = Mutex::new(None);

pub fn reset_case() {
    *DIRTY.lock().unwrap() = None;
    TRACE.lock().unwrap().clear();
    SEQ.store(0, SeqCst);
    *FDS.lock().unwrap() = Some(HashMap::new());
    *DIRS.lock().unwrap() = Some(HashMap::new());
    PEAK_FDS.store(0, SeqCst);
}
pub fn open_fds() -> Vec<(i32, FdInfo)> {
    let g = FDS.lock().unwrap();
    let mut v: Vec<(i32, FdInfo)> = g
        .as_ref()
        .map(|m| m.iter().map(|(k, v)| (*k, v.clone())).collect())
        .unwrap_or_default();
    v.sort_by_key(|x| x.0);
    v
}
pub fn open_dir_streams() -> usize {
    DIRS.lock().unwrap().as_ref().map(|m| m.len()).unwrap_or(0)
}
pub fn peak_fds() -> usize {
    PEAK_FDS.load(SeqCst)
}
pub fn reset_peak_fds() {
    let n = open_fds().len();
    PEAK_FDS.store(n, SeqCst);
}
pub fn set_atime_policy(p: usize) {
    ATIME_POLICY.store(p, SeqCst);
}
pub fn set_granularity_ns(g: i64) {
    GRANULARITY_NS.store(g.max(1), SeqCst);
}
pub fn set_readdir_order(o: usize) {
    READDIR_ORDER.store(o, SeqCst);
}
pub fn set_noatime_prefix(p: &str) {
    *NOATIME_PREFIX.lock().unwrap() = Some(p.as_bytes().to_vec());
}
/// Switches the virtual clock on: `now = base + ticks * step + jump`.
pub fn clock_virtual(base_ns: i64, step_ns: i64) {
    CLOCK_BASE_NS.store(base_ns, SeqCst);
    CLOCK_STEP_NS.store(step_ns, SeqCst);
    CLOCK_TICKS.store(0, SeqCst);
    CLOCK_JUMP_NS.store(0, SeqCst);
    CLOCK_VIRTUAL.store(true, SeqCst);
}
pub fn clock_real() {
    CLOCK_VIRTUAL.store(false, SeqCst);
}
pub fn clock_jump(delta_ns: i64) {
    CLOCK_JUMP_NS.fetch_add(delta_ns, SeqCst);
}
pub fn clock_set_ticks(t: i64) {
    CLOCK_TICKS.store(t, SeqCst);
}
pub fn clock_ticks() -> i64 {
    CLOCK_TICKS.load(SeqCst)
}
/// Current virtual time, without ticking.
pub fn clock_peek_ns() -> i64 {
    if CLOCK_VIRTUAL.load(SeqCst) {
        CLOCK_BASE_NS.load(SeqCst)
            + CLOCK_TICKS.load(SeqCst) * CLOCK_STEP_NS.load(SeqCst)
            + CLOCK_JUMP_NS.load(SeqCst)
    } else {
        real_now_ns()
    }
}
fn clock_tick_ns() -> i64 {
    let t = CLOCK_TICKS.fetch_add(1, SeqCst) + 1;
    CLOCK_BASE_NS.load(SeqCst) + t * CLOCK_STEP_NS.load(SeqCst) + CLOCK_JUMP_NS.load(SeqCst)
}
pub fn real_now_ns() -> i64 {
    let mut ts = libc::timespec {
        tv_sec: 0,
        tv_nsec: 0,
    };
    unsafe { libc::syscall(libc::SYS_clock_gettime, libc::CLOCK_REALTIME, &mut ts) };
    ts.tv_sec * 1_000_000_000 + ts.tv_nsec
}

// ---------------------------------------------------------------------------
// Raw helpers

#[inline]
unsafe fn set_errno(e: i32) {
    *libc::__errno_location() = e;
}
#[inline]
unsafe fn get_errno() -> i32 {
    *libc::__errno_location()
}

unsafe fn cstr(p: *const c_char) -> Option<String> {
    if p.is_null() {
        None
    } else {
        Some(String::from_utf8_lossy(CStr::from_ptr(p).to_bytes()).into_owned())
    }
}

/// Inode named by (dirfd, path), without following a final symlink; 0 if none.
unsafe fn ino_at(dirfd: c_int, path: *const c_char, follow: bool) -> u64 {
    if path.is_null() {
        return 0;
    }
    let mut st: libc::stat = std::mem::zeroed();
    let flags = if follow { 0 } else { libc::AT_SYMLINK_NOFOLLOW };
    let saved = get_errno();
    let r = libc::syscall(libc::SYS_newfstatat, dirfd, path, &mut st, flags);
    set_errno(saved);
    if r == 0 {
        st.st_ino as u64
    } else {
        0
    }
}

unsafe fn ino_fd(fd: c_int) -> (u64, u32) {
    let mut st: libc::stat = std::mem::zeroed();
    let saved = get_errno();
    let r = libc::syscall(libc::SYS_fstat, fd, &mut st);
    set_errno(saved);
    if r == 0 {
        (st.st_ino as u64, st.st_mode)
    } else {
        (0, 0)
    }
}

fn abs_path(dirfd: c_int, p: &str) -> String {
    if p.starts_with('/') || dirfd == libc::AT_FDCWD {
        return p.to_string();
    }
    // relative to a tracked directory fd
    if let Some(m) = FDS.lock().unwrap().as_ref() {
        if let Some(info) = m.get(&dirfd) {
            return format!("{}/{}", info.path, p);
        }
    }
    if let Some(m) = DIRS.lock().unwrap().as_ref() {
        for d in m.values() {
            let _ = d;
        }
    }
    // resolve through /proc
    let link = format!("/proc/self/fd/{}\0", dirfd);
    let mut buf = [0u8; 4096];
    let n = unsafe {
        libc::syscall(
            libc::SYS_readlinkat,
            libc::AT_FDCWD,
            link.as_ptr(),
            buf.as_mut_ptr(),
            buf.len(),
        )
    };
    if n > 0 {
        format!("{}/{}", String::from_utf8_lossy(&buf[..n as usize]), p)
    } else {
        p.to_string()
    }
}

fn should_noatime(path: &[u8]) -> bool {
    match NOATIME_PREFIX.lock() {
        Ok(g) => match g.as_ref() {
            Some(p) => path.starts_with(p),
            None => false,
        },
        Err(_) => false,
    }
}

fn floor_ts(sec: &mut i64, nsec: &mut i64) {
    let g = GRANULARITY_NS.load(SeqCst);
    if g <= 1 {
        return;
    }
    let total = (*sec as i128) * 1_000_000_000 + (*nsec as i128);
    let floored = total.div_euclid(g as i128) * (g as i128);
    *sec = floored.div_euclid(1_000_000_000) as i64;
    *nsec = floored.rem_euclid(1_000_000_000) as i64;
}

// ---------------------------------------------------------------------------
// The interception core

struct Guard;
impl Guard {
    fn enter() -> Option<Guard> {
        let tid = participant();
        if tid < 0 {
            return None;
        }
        let already = IN_SHIM.try_with(|c| c.replace(true)).unwrap_or(true);
        if already {
            None
        } else {
            Some(Guard)
        }
    }
}
impl Drop for Guard {
    fn drop(&mut self) {
        let _ = IN_SHIM.try_with(|c| c.set(false));
    }
}

/// Runs `f` with interception disabled on this thread (harness-side work on
/// a participant thread: oracles, snapshots).
pub fn passthrough<T>(f: impl FnOnce() -> T) -> T {
    let prev = IN_SHIM.with(|c| c.replace(true));
    let r = f();
    IN_SHIM.with(|c| c.set(prev));
    r
}

fn controller() -> Option<Arc<dyn Controller>> {
    CONTROLLER.read().ok().and_then(|g| g.clone())
}

/// Offers `ev` to the controller, runs `real` unless told otherwise, records.
unsafe fn mediate(mut ev: Ev, real: &mut dyn FnMut(&mut Ev, bool) -> i64) -> i64 {
    if is_zombie() {
        let ts = libc::timespec { tv_sec: 0, tv_nsec: 1_000_000 };
        libc::syscall(libc::SYS_nanosleep, &ts, std::ptr::null_mut::<libc::timespec>());
        let _ = real;
        set_errno(libc::EIO);
        return -1;
    }
    ev.tid = participant();
    ev.op = OP.with(|o| o.get());
    let issued = OP_EVENTS.with(|c| {
        c.set(c.get() + 1);
        c.get()
    });
    if issued > RUNAWAY_LIMIT {
        // not a verdict of any property by itself (C06 bounds steps properly): stop the worker rather than hang
        let msg = b"MACHINERY: an operation issued more than 3000000 filesystem calls (runaway); worker stopped\n";
        libc::syscall(libc::SYS_write, 2, msg.as_ptr(), msg.len());
        libc::_exit(86);
    }
    let ctl = controller();
    let action = match &ctl {
        Some(c) => c.before(&ev),
        None => Action::Proceed,
    };
    let ret = match action {
        Action::Proceed => real(&mut ev, false),
        Action::Short => real(&mut ev, true),
        Action::Fail(e) => {
            ev.injected = true;
            set_errno(e);
            -1
        }
        Action::FailAfter(e) => {
            ev.effect_done = real(&mut ev, false) >= 0;
            ev.injected = true;
            set_errno(e);
            -1
        }
        Action::LoseTail(e) => {
            // only what was written and not flushed since can be lost
            let dirty = DIRTY.lock().unwrap().as_ref().map(|d| d.contains(&ev.ino)).unwrap_or(false);
            // (a failing fsync reports the write-back error once and leaves the pages clean: the data is lost and a
            // second fsync of the same file succeeds; a failing close of unflushed data loses it the same way)
            if matches!(ev.kind, Kind::Close | Kind::Fsync) && ev.fd >= 0 && dirty {
                let mut st: libc::stat = std::mem::zeroed();
                if libc::syscall(libc::SYS_fstat, ev.fd, &mut st) == 0 && (st.st_mode & libc::S_IFMT) == libc::S_IFREG && st.st_size > 1 {
                    if libc::syscall(libc::SYS_ftruncate, ev.fd, st.st_size / 2) != 0 {
                        // (a descriptor opened read-only, as for the flush of a by-path source)
                        if let Some(p) = &ev.path {
                            if let Ok(c) = std::ffi::CString::new(p.as_bytes()) {
                                libc::syscall(libc::SYS_truncate, c.as_ptr(), st.st_size / 2);
                            }
                        }
                    }
                }
            }
            if ev.kind == Kind::Fsync {
                if let Some(d) = DIRTY.lock().unwrap().as_mut() {
                    d.remove(&ev.ino);
                }
            } else {
                ev.effect_done = real(&mut ev, false) >= 0;
            }
            ev.injected = true;
            set_errno(e);
            -1
        }
        Action::Die => {
            libc::_exit(137);
        }
    };
    ev.ret = ret;
    ev.errno = if ret < 0 { get_errno() } else { 0 };
    if ret >= 0 && ev.ino != 0 {
        match ev.kind {
            Kind::Write | Kind::CopyRange | Kind::Truncate => {
                DIRTY.lock().unwrap().get_or_insert_with(Default::default).insert(ev.ino);
            }
            // (a filesystem that reports write-back failures at close, NFS-style, flushes at every close of the
            // file: once a close has succeeded nothing written before it can be lost by a later one)
            Kind::Fsync | Kind::Close => {
                if let Some(d) = DIRTY.lock().unwrap().as_mut() {
                    d.remove(&ev.ino);
                }
            }
            _ => {}
        }
    }
    ev.seq = SEQ.fetch_add(1, SeqCst);
    let saved = get_errno();
    if TRACING.load(SeqCst) {
        TRACE.lock().unwrap().push(ev.clone());
    }
    if let Some(c) = &ctl {
        c.after(&ev);
    }
    set_errno(saved);
    ret
}

/// A pseudo-event that is only a scheduling point (operation start, access to
/// shared in-memory state).
pub fn pseudo_event(kind: Kind, func: &'static str, arg: i64) {
    if let Some(_g) = Guard::enter() {
        let mut ev = Ev::new(kind, func);
        ev.arg = arg;
        unsafe {
            mediate(ev, &mut |_, _| 0);
        }
    }
}

fn fd_insert(fd: i32, info: FdInfo) {
    let mut g = FDS.lock().unwrap();
    let m = g.get_or_insert_with(HashMap::new);
    m.insert(fd, info);
    let n = m.len() + open_dir_streams_locked();
    drop(g);
    PEAK_FDS.fetch_max(n, SeqCst);
}
fn open_dir_streams_locked() -> usize {
    DIRS.try_lock()
        .ok()
        .and_then(|g| g.as_ref().map(|m| m.len()))
        .unwrap_or(0)
}
fn fd_remove(fd: i32) -> Option<FdInfo> {
    FDS.lock().unwrap().as_mut().and_then(|m| m.remove(&fd))
}
pub fn fd_info(fd: i32) -> Option<FdInfo> {
    FDS.lock().unwrap().as_ref().and_then(|m| m.get(&fd).cloned())
}

// ---- open family ----------------------------------------------------------

unsafe fn do_open(
    func: &'static str,
    dirfd: c_int,
    path: *const c_char,
    mut flags: c_int,
    mode: mode_t,
) -> c_int {
    let noatime = !path.is_null() && should_noatime(CStr::from_ptr(path).to_bytes());
    if noatime && (flags & libc::O_PATH) == 0 {
        flags |= libc::O_NOATIME;
    }
    let g = Guard::enter();
    if g.is_none() {
        return libc::syscall(libc::SYS_openat, dirfd, path, flags, mode as c_uint) as c_int;
    }
    let mut ev = Ev::new(Kind::Open, func);
    let p = cstr(path).unwrap_or_default();
    let full = abs_path(dirfd, &p);
    ev.path = Some(full.clone());
    ev.flags = (flags & !libc::O_NOATIME) as i64;
    ev.arg = mode as i64;
    ev.ino = ino_at(dirfd, path, true);
    let r = mediate(ev, &mut |ev, _| {
        let r = libc::syscall(libc::SYS_openat, dirfd, path, flags, mode as c_uint);
        if r >= 0 {
            let (ino, m) = ino_fd(r as c_int);
            ev.ino = ino;
            ev.fd = r as i32;
            fd_insert(
                r as i32,
                FdInfo {
                    path: full.clone(),
                    ino,
                    is_dir: (m & libc::S_IFMT) == libc::S_IFDIR,
                    tid: participant(),
                    write: (flags & libc::O_ACCMODE) != libc::O_RDONLY,
                },
            );
        }
        r
    });
    r as c_int
}

#[no_mangle]
pub unsafe extern "C" fn open(path: *const c_char, flags: c_int, mode: mode_t) -> c_int {
    do_open("open", libc::AT_FDCWD, path, flags, mode)
}
#[no_mangle]
pub unsafe extern "C" fn open64(path: *const c_char, flags: c_int, mode: mode_t) -> c_int {
    do_open("open64", libc::AT_FDCWD, path, flags, mode)
}
#[no_mangle]
pub unsafe extern "C" fn openat(d: c_int, path: *const c_char, flags: c_int, mode: mode_t) -> c_int {
    do_open("openat", d, path, flags, mode)
}
#[no_mangle]
pub unsafe extern "C" fn openat64(
    d: c_int,
    path: *const c_char,
    flags: c_int,
    mode: mode_t,
) -> c_int {
    do_open("openat64", d, path, flags, mode)
}
#[no_mangle]
pub unsafe extern "C" fn creat(path: *const c_char, mode: mode_t) -> c_int {
    do_open(
        "creat",
        libc::AT_FDCWD,
        path,
        libc::O_CREAT | libc::O_WRONLY | libc::O_TRUNC,
        mode,
    )
}
#[no_mangle]
pub unsafe extern "C" fn creat64(path: *const c_char, mode: mode_t) -> c_int {
    creat(path, mode)
}

/// Process ids are reused: a process that takes over after another died may well carry the dead one's pid (the
/// normal case for a service restarted in a container).  Every participant, whichever real process runs it, therefore
/// sees the same pid.
#[no_mangle]
pub unsafe extern "C" fn getpid() -> libc::pid_t {
    if participant() >= 0 && !IN_SHIM.try_with(|c| c.get()).unwrap_or(true) {
        return 4242;
    }
    libc::syscall(libc::SYS_getpid) as libc::pid_t
}

#[no_mangle]
pub unsafe extern "C" fn close(fd: c_int) -> c_int {
    let g = Guard::enter();
    if g.is_none() {
        return libc::syscall(libc::SYS_close, fd) as c_int;
    }
    let mut ev = Ev::new(Kind::Close, "close");
    ev.fd = fd;
    if let Some(info) = fd_info(fd) {
        ev.path = Some(info.path);
        ev.ino = info.ino;
    }
    mediate(ev, &mut |_, _| {
        fd_remove(fd);
        libc::syscall(libc::SYS_close, fd)
    }) as c_int
}

// ---- stat family ----------------------------------------------------------

unsafe fn floor_statx(buf: *mut libc::statx) {
    if buf.is_null() || GRANULARITY_NS.load(SeqCst) <= 1 {
        return;
    }
    let b = &mut *buf;
    for ts in [
        &mut b.stx_atime,
        &mut b.stx_mtime,
        &mut b.stx_ctime,
        &mut b.stx_btime,
    ] {
        let mut s = ts.tv_sec;
        let mut n = ts.tv_nsec as i64;
        floor_ts(&mut s, &mut n);
        ts.tv_sec = s;
        ts.tv_nsec = n as u32;
    }
}
unsafe fn floor_stat(buf: *mut libc::stat) {
    if buf.is_null() || GRANULARITY_NS.load(SeqCst) <= 1 {
        return;
    }
    let b = &mut *buf;
    floor_ts(&mut b.st_atime, &mut b.st_atime_nsec);
    floor_ts(&mut b.st_mtime, &mut b.st_mtime_nsec);
    floor_ts(&mut b.st_ctime, &mut b.st_ctime_nsec);
}

#[no_mangle]
pub unsafe extern "C" fn statx(
    dirfd: c_int,
    path: *const c_char,
    flags: c_int,
    mask: c_uint,
    buf: *mut libc::statx,
) -> c_int {
    let g = Guard::enter();
    if g.is_none() {
        return libc::syscall(libc::SYS_statx, dirfd, path, flags, mask, buf) as c_int;
    }
    let mut ev = Ev::new(Kind::Stat, "statx");
    let p = cstr(path).unwrap_or_default();
    if p.is_empty() {
        ev.fd = dirfd;
        if let Some(info) = fd_info(dirfd) {
            ev.path = Some(info.path);
        }
        ev.ino = ino_fd(dirfd).0;
    } else {
        ev.path = Some(abs_path(dirfd, &p));
        ev.ino = ino_at(dirfd, path, (flags & libc::AT_SYMLINK_NOFOLLOW) == 0);
    }
    ev.flags = flags as i64;
    mediate(ev, &mut |_, _| {
        let r = libc::syscall(libc::SYS_statx, dirfd, path, flags, mask, buf);
        if r == 0 {
            floor_statx(buf);
        }
        r
    }) as c_int
}

unsafe fn do_fstatat(
    func: &'static str,
    dirfd: c_int,
    path: *const c_char,
    buf: *mut libc::stat,
    flags: c_int,
) -> c_int {
    let g = Guard::enter();
    if g.is_none() {
        return libc::syscall(libc::SYS_newfstatat, dirfd, path, buf, flags) as c_int;
    }
    let mut ev = Ev::new(Kind::Stat, func);
    let p = cstr(path).unwrap_or_default();
    ev.path = Some(abs_path(dirfd, &p));
    ev.ino = ino_at(dirfd, path, (flags & libc::AT_SYMLINK_NOFOLLOW) == 0);
    mediate(ev, &mut |_, _| {
        let r = libc::syscall(libc::SYS_newfstatat, dirfd, path, buf, flags);
        if r == 0 {
            floor_stat(buf);
        }
        r
    }) as c_int
}
#[no_mangle]
pub unsafe extern "C" fn stat(path: *const c_char, buf: *mut libc::stat) -> c_int {
    do_fstatat("stat", libc::AT_FDCWD, path, buf, 0)
}
#[no_mangle]
pub unsafe extern "C" fn stat64(path: *const c_char, buf: *mut libc::stat) -> c_int {
    do_fstatat("stat64", libc::AT_FDCWD, path, buf, 0)
}
#[no_mangle]
pub unsafe extern "C" fn lstat(path: *const c_char, buf: *mut libc::stat) -> c_int {
    do_fstatat("lstat", libc::AT_FDCWD, path, buf, libc::AT_SYMLINK_NOFOLLOW)
}
#[no_mangle]
pub unsafe extern "C" fn lstat64(path: *const c_char, buf: *mut libc::stat) -> c_int {
    do_fstatat("lstat64", libc::AT_FDCWD, path, buf, libc::AT_SYMLINK_NOFOLLOW)
}
#[no_mangle]
pub unsafe extern "C" fn fstatat(
    d: c_int,
    path: *const c_char,
    buf: *mut libc::stat,
    flags: c_int,
) -> c_int {
    do_fstatat("fstatat", d, path, buf, flags)
}
#[no_mangle]
pub unsafe extern "C" fn fstatat64(
    d: c_int,
    path: *const c_char,
    buf: *mut libc::stat,
    flags: c_int,
) -> c_int {
    do_fstatat("fstatat64", d, path, buf, flags)
}
unsafe fn do_fstat(func: &'static str, fd: c_int, buf: *mut libc::stat) -> c_int {
    let g = Guard::enter();
    if g.is_none() {
        return libc::syscall(libc::SYS_fstat, fd, buf) as c_int;
    }
    let mut ev = Ev::new(Kind::Stat, func);
    ev.fd = fd;
    ev.ino = ino_fd(fd).0;
    if let Some(info) = fd_info(fd) {
        ev.path = Some(info.path);
    }
    mediate(ev, &mut |_, _| {
        let r = libc::syscall(libc::SYS_fstat, fd, buf);
        if r == 0 {
            floor_stat(buf);
        }
        r
    }) as c_int
}
#[no_mangle]
pub unsafe extern "C" fn fstat(fd: c_int, buf: *mut libc::stat) -> c_int {
    do_fstat("fstat", fd, buf)
}
#[no_mangle]
pub unsafe extern "C" fn fstat64(fd: c_int, buf: *mut libc::stat) -> c_int {
    do_fstat("fstat64", fd, buf)
}
#[no_mangle]
pub unsafe extern "C" fn access(path: *const c_char, mode: c_int) -> c_int {
    faccessat(libc::AT_FDCWD, path, mode, 0)
}
#[no_mangle]
pub unsafe extern "C" fn faccessat(d: c_int, path: *const c_char, mode: c_int, flags: c_int) -> c_int {
    let g = Guard::enter();
    if g.is_none() {
        return libc::syscall(libc::SYS_faccessat, d, path, mode, flags) as c_int;
    }
    let mut ev = Ev::new(Kind::Stat, "faccessat");
    ev.path = Some(abs_path(d, &cstr(path).unwrap_or_default()));
    ev.ino = ino_at(d, path, true);
    mediate(ev, &mut |_, _| libc::syscall(libc::SYS_faccessat, d, path, mode, flags)) as c_int
}

// ---- namespace-changing calls --------------------------------------------

unsafe fn do_rename(
    func: &'static str,
    od: c_int,
    old: *const c_char,
    nd: c_int,
    new: *const c_char,
    flags: c_uint,
) -> c_int {
    let g = Guard::enter();
    if g.is_none() {
        return libc::syscall(libc::SYS_renameat2, od, old, nd, new, flags) as c_int;
    }
    let mut ev = Ev::new(Kind::Rename, func);
    ev.path = Some(abs_path(od, &cstr(old).unwrap_or_default()));
    ev.path2 = Some(abs_path(nd, &cstr(new).unwrap_or_default()));
    ev.ino = ino_at(od, old, false);
    ev.ino2 = ino_at(nd, new, false);
    ev.flags = flags as i64;
    mediate(ev, &mut |_, _| libc::syscall(libc::SYS_renameat2, od, old, nd, new, flags)) as c_int
}
#[no_mangle]
pub unsafe extern "C" fn rename(old: *const c_char, new: *const c_char) -> c_int {
    do_rename("rename", libc::AT_FDCWD, old, libc::AT_FDCWD, new, 0)
}
#[no_mangle]
pub unsafe extern "C" fn renameat(
    od: c_int,
    old: *const c_char,
    nd: c_int,
    new: *const c_char,
) -> c_int {
    do_rename("renameat", od, old, nd, new, 0)
}
#[no_mangle]
pub unsafe extern "C" fn renameat2(
    od: c_int,
    old: *const c_char,
    nd: c_int,
    new: *const c_char,
    flags: c_uint,
) -> c_int {
    do_rename("renameat2", od, old, nd, new, flags)
}

unsafe fn do_link(
    func: &'static str,
    od: c_int,
    old: *const c_char,
    nd: c_int,
    new: *const c_char,
    flags: c_int,
) -> c_int {
    let g = Guard::enter();
    if g.is_none() {
        return libc::syscall(libc::SYS_linkat, od, old, nd, new, flags) as c_int;
    }
    let mut ev = Ev::new(Kind::Link, func);
    ev.path = Some(abs_path(od, &cstr(old).unwrap_or_default()));
    ev.path2 = Some(abs_path(nd, &cstr(new).unwrap_or_default()));
    ev.ino = ino_at(od, old, false);
    ev.ino2 = ino_at(nd, new, false);
    mediate(ev, &mut |_, _| libc::syscall(libc::SYS_linkat, od, old, nd, new, flags)) as c_int
}
#[no_mangle]
pub unsafe extern "C" fn link(old: *const c_char, new: *const c_char) -> c_int {
    do_link("link", libc::AT_FDCWD, old, libc::AT_FDCWD, new, 0)
}
#[no_mangle]
pub unsafe extern "C" fn linkat(
    od: c_int,
    old: *const c_char,
    nd: c_int,
    new: *const c_char,
    flags: c_int,
) -> c_int {
    do_link("linkat", od, old, nd, new, flags)
}
#[no_mangle]
pub unsafe extern "C" fn symlink(target: *const c_char, linkpath: *const c_char) -> c_int {
    symlinkat(target, libc::AT_FDCWD, linkpath)
}
#[no_mangle]
pub unsafe extern "C" fn symlinkat(target: *const c_char, nd: c_int, linkpath: *const c_char) -> c_int {
    let g = Guard::enter();
    if g.is_none() {
        return libc::syscall(libc::SYS_symlinkat, target, nd, linkpath) as c_int;
    }
    let mut ev = Ev::new(Kind::Symlink, "symlinkat");
    ev.path = Some(abs_path(nd, &cstr(linkpath).unwrap_or_default()));
    ev.path2 = cstr(target);
    mediate(ev, &mut |_, _| libc::syscall(libc::SYS_symlinkat, target, nd, linkpath)) as c_int
}

unsafe fn do_unlink(func: &'static str, d: c_int, path: *const c_char, flags: c_int) -> c_int {
    let g = Guard::enter();
    if g.is_none() {
        return libc::syscall(libc::SYS_unlinkat, d, path, flags) as c_int;
    }
    let kind = if (flags & libc::AT_REMOVEDIR) != 0 {
        Kind::Rmdir
    } else {
        Kind::Unlink
    };
    let mut ev = Ev::new(kind, func);
    ev.path = Some(abs_path(d, &cstr(path).unwrap_or_default()));
    ev.ino = ino_at(d, path, false);
    mediate(ev, &mut |_, _| libc::syscall(libc::SYS_unlinkat, d, path, flags)) as c_int
}
#[no_mangle]
pub unsafe extern "C" fn unlink(path: *const c_char) -> c_int {
    do_unlink("unlink", libc::AT_FDCWD, path, 0)
}
#[no_mangle]
pub unsafe extern "C" fn unlinkat(d: c_int, path: *const c_char, flags: c_int) -> c_int {
    do_unlink("unlinkat", d, path, flags)
}
#[no_mangle]
pub unsafe extern "C" fn rmdir(path: *const c_char) -> c_int {
    do_unlink("rmdir", libc::AT_FDCWD, path, libc::AT_REMOVEDIR)
}
#[no_mangle]
pub unsafe extern "C" fn remove(path: *const c_char) -> c_int {
    let r = do_unlink("remove", libc::AT_FDCWD, path, 0);
    if r < 0 && get_errno() == libc::EISDIR {
        return do_unlink("remove", libc::AT_FDCWD, path, libc::AT_REMOVEDIR);
    }
    r
}

unsafe fn do_mkdir(func: &'static str, d: c_int, path: *const c_char, mode: mode_t) -> c_int {
    let g = Guard::enter();
    if g.is_none() {
        return libc::syscall(libc::SYS_mkdirat, d, path, mode as c_uint) as c_int;
    }
    let mut ev = Ev::new(Kind::Mkdir, func);
    ev.path = Some(abs_path(d, &cstr(path).unwrap_or_default()));
    ev.arg = mode as i64;
    mediate(ev, &mut |_, _| libc::syscall(libc::SYS_mkdirat, d, path, mode as c_uint)) as c_int
}
#[no_mangle]
pub unsafe extern "C" fn mkdir(path: *const c_char, mode: mode_t) -> c_int {
    do_mkdir("mkdir", libc::AT_FDCWD, path, mode)
}
#[no_mangle]
pub unsafe extern "C" fn mkdirat(d: c_int, path: *const c_char, mode: mode_t) -> c_int {
    do_mkdir("mkdirat", d, path, mode)
}

// ---- metadata-changing calls ---------------------------------------------

unsafe fn do_chmod(func: &'static str, d: c_int, path: *const c_char, mode: mode_t) -> c_int {
    let g = Guard::enter();
    if g.is_none() {
        return libc::syscall(libc::SYS_fchmodat, d, path, mode as c_uint) as c_int;
    }
    let mut ev = Ev::new(Kind::Chmod, func);
    ev.path = Some(abs_path(d, &cstr(path).unwrap_or_default()));
    ev.ino = ino_at(d, path, true);
    ev.arg = mode as i64;
    mediate(ev, &mut |_, _| libc::syscall(libc::SYS_fchmodat, d, path, mode as c_uint)) as c_int
}
#[no_mangle]
pub unsafe extern "C" fn chmod(path: *const c_char, mode: mode_t) -> c_int {
    do_chmod("chmod", libc::AT_FDCWD, path, mode)
}
#[no_mangle]
pub unsafe extern "C" fn fchmodat(d: c_int, path: *const c_char, mode: mode_t, _flags: c_int) -> c_int {
    do_chmod("fchmodat", d, path, mode)
}
#[no_mangle]
pub unsafe extern "C" fn fchmod(fd: c_int, mode: mode_t) -> c_int {
    let g = Guard::enter();
    if g.is_none() {
        return libc::syscall(libc::SYS_fchmod, fd, mode as c_uint) as c_int;
    }
    let mut ev = Ev::new(Kind::Fchmod, "fchmod");
    ev.fd = fd;
    ev.ino = ino_fd(fd).0;
    ev.arg = mode as i64;
    if let Some(info) = fd_info(fd) {
        ev.path = Some(info.path);
    }
    mediate(ev, &mut |_, _| libc::syscall(libc::SYS_fchmod, fd, mode as c_uint)) as c_int
}

unsafe fn do_utimens(
    func: &'static str,
    d: c_int,
    path: *const c_char,
    times: *const libc::timespec,
    flags: c_int,
) -> c_int {
    let g = Guard::enter();
    if g.is_none() {
        return libc::syscall(libc::SYS_utimensat, d, path, times, flags) as c_int;
    }
    let mut ev = Ev::new(Kind::Utimens, func);
    if path.is_null() {
        ev.fd = d;
        ev.ino = ino_fd(d).0;
        if let Some(info) = fd_info(d) {
            ev.path = Some(info.path);
        }
    } else {
        ev.path = Some(abs_path(d, &cstr(path).unwrap_or_default()));
        ev.ino = ino_at(d, path, (flags & libc::AT_SYMLINK_NOFOLLOW) == 0);
    }
    let mut ts = [libc::timespec {
        tv_sec: 0,
        tv_nsec: libc::UTIME_NOW,
    }; 2];
    if !times.is_null() {
        ts[0] = *times;
        ts[1] = *times.add(1);
    }
    for t in ts.iter_mut() {
        if t.tv_nsec == libc::UTIME_NOW && CLOCK_VIRTUAL.load(SeqCst) {
            let now = clock_peek_ns();
            t.tv_sec = now.div_euclid(1_000_000_000);
            t.tv_nsec = now.rem_euclid(1_000_000_000);
        }
        if t.tv_nsec != libc::UTIME_OMIT && t.tv_nsec != libc::UTIME_NOW {
            floor_ts(&mut t.tv_sec, &mut t.tv_nsec);
        }
    }
    ev.sets_atime = ts[0].tv_nsec != libc::UTIME_OMIT;
    ev.sets_mtime = ts[1].tv_nsec != libc::UTIME_OMIT;
    ev.arg = ts[1].tv_sec;
    mediate(ev, &mut |_, _| libc::syscall(libc::SYS_utimensat, d, path, ts.as_ptr(), flags)) as c_int
}
#[no_mangle]
pub unsafe extern "C" fn utimensat(
    d: c_int,
    path: *const c_char,
    times: *const libc::timespec,
    flags: c_int,
) -> c_int {
    do_utimens("utimensat", d, path, times, flags)
}
#[no_mangle]
pub unsafe extern "C" fn futimens(fd: c_int, times: *const libc::timespec) -> c_int {
    do_utimens("futimens", fd, std::ptr::null(), times, 0)
}
#[no_mangle]
pub unsafe extern "C" fn utimes(path: *const c_char, tv: *const libc::timeval) -> c_int {
    if tv.is_null() {
        return do_utimens("utimes", libc::AT_FDCWD, path, std::ptr::null(), 0);
    }
    let ts = [
        libc::timespec {
            tv_sec: (*tv).tv_sec,
            tv_nsec: (*tv).tv_usec * 1000,
        },
        libc::timespec {
            tv_sec: (*tv.add(1)).tv_sec,
            tv_nsec: (*tv.add(1)).tv_usec * 1000,
        },
    ];
    do_utimens("utimes", libc::AT_FDCWD, path, ts.as_ptr(), 0)
}

unsafe fn do_ftruncate(func: &'static str, fd: c_int, len: off_t) -> c_int {
    let g = Guard::enter();
    if g.is_none() {
        return libc::syscall(libc::SYS_ftruncate, fd, len) as c_int;
    }
    let mut ev = Ev::new(Kind::Truncate, func);
    ev.fd = fd;
    ev.ino = ino_fd(fd).0;
    ev.arg = len;
    if let Some(info) = fd_info(fd) {
        ev.path = Some(info.path);
    }
    mediate(ev, &mut |_, _| libc::syscall(libc::SYS_ftruncate, fd, len)) as c_int
}
#[no_mangle]
pub unsafe extern "C" fn ftruncate(fd: c_int, len: off_t) -> c_int {
    do_ftruncate("ftruncate", fd, len)
}
#[no_mangle]
pub unsafe extern "C" fn ftruncate64(fd: c_int, len: off_t) -> c_int {
    do_ftruncate("ftruncate64", fd, len)
}
unsafe fn do_truncate(func: &'static str, path: *const c_char, len: off_t) -> c_int {
    let g = Guard::enter();
    if g.is_none() {
        return libc::syscall(libc::SYS_truncate, path, len) as c_int;
    }
    let mut ev = Ev::new(Kind::Truncate, func);
    ev.path = cstr(path);
    ev.ino = ino_at(libc::AT_FDCWD, path, true);
    ev.arg = len;
    mediate(ev, &mut |_, _| libc::syscall(libc::SYS_truncate, path, len)) as c_int
}
#[no_mangle]
pub unsafe extern "C" fn truncate(path: *const c_char, len: off_t) -> c_int {
    do_truncate("truncate", path, len)
}
#[no_mangle]
pub unsafe extern "C" fn truncate64(path: *const c_char, len: off_t) -> c_int {
    do_truncate("truncate64", path, len)
}

// ---- data calls -----------------------------------------------------------

/// Kernel atime behaviour, emulated (files are opened O_NOATIME).
unsafe fn emulate_atime(fd: c_int) {
    let policy = ATIME_POLICY.load(SeqCst);
    if policy == ATIME_NOATIME {
        return;
    }
    let info = match fd_info(fd) {
        Some(i) if !i.is_dir => i,
        _ => return,
    };
    if !should_noatime(info.path.as_bytes()) {
        return;
    }
    let saved = get_errno();
    let mut st: libc::stat = std::mem::zeroed();
    if libc::syscall(libc::SYS_fstat, fd, &mut st) != 0 {
        set_errno(saved);
        return;
    }
    let now = clock_peek_ns();
    let at = st.st_atime as i128 * 1_000_000_000 + st.st_atime_nsec as i128;
    let mt = st.st_mtime as i128 * 1_000_000_000 + st.st_mtime_nsec as i128;
    let update = match policy {
        ATIME_STRICT => true,
        _ => at <= mt || (now as i128 - at) > 86_400_000_000_000i128,
    };
    if update {
        let mut s = now.div_euclid(1_000_000_000);
        let mut n = now.rem_euclid(1_000_000_000);
        floor_ts(&mut s, &mut n);
        let ts = [
            libc::timespec {
                tv_sec: s,
                tv_nsec: n,
            },
            libc::timespec {
                tv_sec: 0,
                tv_nsec: libc::UTIME_OMIT,
            },
        ];
        libc::syscall(
            libc::SYS_utimensat,
            fd,
            std::ptr::null::<c_char>(),
            ts.as_ptr(),
            0,
        );
    }
    set_errno(saved);
}

#[no_mangle]
pub unsafe extern "C" fn read(fd: c_int, buf: *mut c_void, count: size_t) -> ssize_t {
    let g = Guard::enter();
    if g.is_none() {
        return libc::syscall(libc::SYS_read, fd, buf, count) as ssize_t;
    }
    let mut ev = Ev::new(Kind::Read, "read");
    ev.fd = fd;
    ev.ino = ino_fd(fd).0;
    ev.arg = count as i64;
    if let Some(info) = fd_info(fd) {
        ev.path = Some(info.path);
    }
    mediate(ev, &mut |_, _| {
        let r = libc::syscall(libc::SYS_read, fd, buf, count);
        if r >= 0 && count > 0 {
            emulate_atime(fd);
        }
        r
    }) as ssize_t
}
#[no_mangle]
pub unsafe extern "C" fn pread64(fd: c_int, buf: *mut c_void, count: size_t, off: off_t) -> ssize_t {
    let g = Guard::enter();
    if g.is_none() {
        return libc::syscall(libc::SYS_pread64, fd, buf, count, off) as ssize_t;
    }
    let mut ev = Ev::new(Kind::Read, "pread64");
    ev.fd = fd;
    ev.ino = ino_fd(fd).0;
    ev.arg = count as i64;
    mediate(ev, &mut |_, _| {
        let r = libc::syscall(libc::SYS_pread64, fd, buf, count, off);
        if r >= 0 && count > 0 {
            emulate_atime(fd);
        }
        r
    }) as ssize_t
}
#[no_mangle]
pub unsafe extern "C" fn pread(fd: c_int, buf: *mut c_void, count: size_t, off: off_t) -> ssize_t {
    pread64(fd, buf, count, off)
}
#[no_mangle]
pub unsafe extern "C" fn readv(fd: c_int, iov: *const libc::iovec, n: c_int) -> ssize_t {
    let g = Guard::enter();
    if g.is_none() {
        return libc::syscall(libc::SYS_readv, fd, iov, n) as ssize_t;
    }
    let mut ev = Ev::new(Kind::Read, "readv");
    ev.fd = fd;
    ev.ino = ino_fd(fd).0;
    mediate(ev, &mut |_, _| {
        let r = libc::syscall(libc::SYS_readv, fd, iov, n);
        if r >= 0 {
            emulate_atime(fd);
        }
        r
    }) as ssize_t
}

#[no_mangle]
pub unsafe extern "C" fn write(fd: c_int, buf: *const c_void, count: size_t) -> ssize_t {
    let g = Guard::enter();
    if g.is_none() || fd <= 2 {
        drop(g);
        return libc::syscall(libc::SYS_write, fd, buf, count) as ssize_t;
    }
    let mut ev = Ev::new(Kind::Write, "write");
    ev.fd = fd;
    ev.ino = ino_fd(fd).0;
    ev.arg = count as i64;
    if let Some(info) = fd_info(fd) {
        ev.path = Some(info.path);
    }
    mediate(ev, &mut |_, short| {
        let c = if short { (count / 2).max(1).min(count) } else { count };
        libc::syscall(libc::SYS_write, fd, buf, c)
    }) as ssize_t
}
#[no_mangle]
pub unsafe extern "C" fn pwrite64(fd: c_int, buf: *const c_void, count: size_t, off: off_t) -> ssize_t {
    let g = Guard::enter();
    if g.is_none() {
        return libc::syscall(libc::SYS_pwrite64, fd, buf, count, off) as ssize_t;
    }
    let mut ev = Ev::new(Kind::Write, "pwrite64");
    ev.fd = fd;
    ev.ino = ino_fd(fd).0;
    ev.arg = count as i64;
    if let Some(info) = fd_info(fd) {
        ev.path = Some(info.path);
    }
    mediate(ev, &mut |_, _| libc::syscall(libc::SYS_pwrite64, fd, buf, count, off)) as ssize_t
}
#[no_mangle]
pub unsafe extern "C" fn pwrite(fd: c_int, buf: *const c_void, count: size_t, off: off_t) -> ssize_t {
    pwrite64(fd, buf, count, off)
}
#[no_mangle]
pub unsafe extern "C" fn writev(fd: c_int, iov: *const libc::iovec, n: c_int) -> ssize_t {
    let g = Guard::enter();
    if g.is_none() || fd <= 2 {
        drop(g);
        return libc::syscall(libc::SYS_writev, fd, iov, n) as ssize_t;
    }
    let mut ev = Ev::new(Kind::Write, "writev");
    ev.fd = fd;
    ev.ino = ino_fd(fd).0;
    if let Some(info) = fd_info(fd) {
        ev.path = Some(info.path);
    }
    mediate(ev, &mut |_, _| libc::syscall(libc::SYS_writev, fd, iov, n)) as ssize_t
}

#[no_mangle]
pub unsafe extern "C" fn copy_file_range(
    fd_in: c_int,
    off_in: *mut off_t,
    fd_out: c_int,
    off_out: *mut off_t,
    len: size_t,
    flags: c_uint,
) -> ssize_t {
    let g = Guard::enter();
    if g.is_none() {
        return libc::syscall(
            libc::SYS_copy_file_range,
            fd_in,
            off_in,
            fd_out,
            off_out,
            len,
            flags,
        ) as ssize_t;
    }
    let mut ev = Ev::new(Kind::CopyRange, "copy_file_range");
    ev.fd = fd_out;
    ev.fd2 = fd_in;
    ev.ino = ino_fd(fd_out).0;
    ev.ino2 = ino_fd(fd_in).0;
    ev.arg = len as i64;
    if let Some(info) = fd_info(fd_out) {
        ev.path = Some(info.path);
    }
    if let Some(info) = fd_info(fd_in) {
        ev.path2 = Some(info.path);
    }
    mediate(ev, &mut |_, short| {
        let l = if short { (len / 2).max(1).min(len) } else { len };
        let r = libc::syscall(
            libc::SYS_copy_file_range,
            fd_in,
            off_in,
            fd_out,
            off_out,
            l,
            flags,
        );
        if r >= 0 {
            emulate_atime(fd_in);
        }
        r
    }) as ssize_t
}
#[no_mangle]
pub unsafe extern "C" fn sendfile64(out_fd: c_int, in_fd: c_int, off: *mut off_t, count: size_t) -> ssize_t {
    let g = Guard::enter();
    if g.is_none() {
        return libc::syscall(libc::SYS_sendfile, out_fd, in_fd, off, count) as ssize_t;
    }
    let mut ev = Ev::new(Kind::CopyRange, "sendfile64");
    ev.fd = out_fd;
    ev.fd2 = in_fd;
    ev.ino = ino_fd(out_fd).0;
    ev.ino2 = ino_fd(in_fd).0;
    ev.arg = count as i64;
    if let Some(info) = fd_info(out_fd) {
        ev.path = Some(info.path);
    }
    mediate(ev, &mut |_, _| {
        let r = libc::syscall(libc::SYS_sendfile, out_fd, in_fd, off, count);
        if r >= 0 {
            emulate_atime(in_fd);
        }
        r
    }) as ssize_t
}
#[no_mangle]
pub unsafe extern "C" fn sendfile(out_fd: c_int, in_fd: c_int, off: *mut off_t, count: size_t) -> ssize_t {
    sendfile64(out_fd, in_fd, off, count)
}
#[no_mangle]
pub unsafe extern "C" fn splice(
    fd_in: c_int,
    off_in: *mut off_t,
    fd_out: c_int,
    off_out: *mut off_t,
    len: size_t,
    flags: c_uint,
) -> ssize_t {
    let g = Guard::enter();
    if g.is_none() {
        return libc::syscall(libc::SYS_splice, fd_in, off_in, fd_out, off_out, len, flags) as ssize_t;
    }
    let mut ev = Ev::new(Kind::CopyRange, "splice");
    ev.fd = fd_out;
    ev.fd2 = fd_in;
    ev.ino = ino_fd(fd_out).0;
    ev.ino2 = ino_fd(fd_in).0;
    mediate(ev, &mut |_, _| {
        libc::syscall(libc::SYS_splice, fd_in, off_in, fd_out, off_out, len, flags)
    }) as ssize_t
}

unsafe fn do_fsync(func: &'static str, nr: c_long, fd: c_int) -> c_int {
    let g = Guard::enter();
    if g.is_none() {
        return libc::syscall(nr, fd) as c_int;
    }
    let mut ev = Ev::new(Kind::Fsync, func);
    ev.fd = fd;
    ev.ino = ino_fd(fd).0;
    if let Some(info) = fd_info(fd) {
        ev.path = Some(info.path);
    }
    mediate(ev, &mut |_, _| libc::syscall(nr, fd)) as c_int
}
#[no_mangle]
pub unsafe extern "C" fn fsync(fd: c_int) -> c_int {
    do_fsync("fsync", libc::SYS_fsync, fd)
}
#[no_mangle]
pub unsafe extern "C" fn fdatasync(fd: c_int) -> c_int {
    do_fsync("fdatasync", libc::SYS_fdatasync, fd)
}

unsafe fn do_lseek(func: &'static str, fd: c_int, off: off_t, whence: c_int) -> off_t {
    let g = Guard::enter();
    if g.is_none() {
        return libc::syscall(libc::SYS_lseek, fd, off, whence) as off_t;
    }
    let mut ev = Ev::new(Kind::Lseek, func);
    ev.fd = fd;
    ev.ino = ino_fd(fd).0;
    ev.arg = off;
    ev.flags = whence as i64;
    mediate(ev, &mut |_, _| libc::syscall(libc::SYS_lseek, fd, off, whence)) as off_t
}
#[no_mangle]
pub unsafe extern "C" fn lseek(fd: c_int, off: off_t, whence: c_int) -> off_t {
    do_lseek("lseek", fd, off, whence)
}
#[no_mangle]
pub unsafe extern "C" fn lseek64(fd: c_int, off: off_t, whence: c_int) -> off_t {
    do_lseek("lseek64", fd, off, whence)
}

// ---- descriptors and locks -----------------------------------------------

unsafe fn dup_info(old: c_int, new: c_int) {
    if let Some(info) = fd_info(old) {
        fd_insert(new, info);
    }
}
#[no_mangle]
pub unsafe extern "C" fn dup(fd: c_int) -> c_int {
    let g = Guard::enter();
    if g.is_none() {
        return libc::syscall(libc::SYS_dup, fd) as c_int;
    }
    let mut ev = Ev::new(Kind::Dup, "dup");
    ev.fd = fd;
    mediate(ev, &mut |_, _| {
        let r = libc::syscall(libc::SYS_dup, fd);
        if r >= 0 {
            dup_info(fd, r as c_int);
        }
        r
    }) as c_int
}
#[no_mangle]
pub unsafe extern "C" fn dup2(fd: c_int, new: c_int) -> c_int {
    dup3(fd, new, 0)
}
#[no_mangle]
pub unsafe extern "C" fn dup3(fd: c_int, new: c_int, flags: c_int) -> c_int {
    let g = Guard::enter();
    if g.is_none() {
        if fd == new {
            return new;
        }
        return libc::syscall(libc::SYS_dup3, fd, new, flags) as c_int;
    }
    let mut ev = Ev::new(Kind::Dup, "dup3");
    ev.fd = fd;
    ev.fd2 = new;
    mediate(ev, &mut |_, _| {
        let r = libc::syscall(libc::SYS_dup3, fd, new, flags);
        if r >= 0 {
            dup_info(fd, r as c_int);
        }
        r
    }) as c_int
}
unsafe fn do_fcntl(func: &'static str, fd: c_int, cmd: c_int, arg: usize) -> c_int {
    let g = Guard::enter();
    if g.is_none() {
        return libc::syscall(libc::SYS_fcntl, fd, cmd, arg) as c_int;
    }
    let is_lock = matches!(
        cmd,
        libc::F_SETLK | libc::F_SETLKW | libc::F_GETLK | libc::F_OFD_SETLK | libc::F_OFD_SETLKW | libc::F_OFD_GETLK
    );
    let is_dup = matches!(cmd, libc::F_DUPFD | libc::F_DUPFD_CLOEXEC);
    let kind = if is_lock {
        Kind::Lock
    } else if is_dup {
        Kind::Dup
    } else {
        Kind::Fcntl
    };
    let mut ev = Ev::new(kind, func);
    ev.fd = fd;
    ev.flags = cmd as i64;
    mediate(ev, &mut |_, _| {
        let r = libc::syscall(libc::SYS_fcntl, fd, cmd, arg);
        if r >= 0 && is_dup {
            dup_info(fd, r as c_int);
        }
        r
    }) as c_int
}
#[no_mangle]
pub unsafe extern "C" fn fcntl(fd: c_int, cmd: c_int, arg: usize) -> c_int {
    do_fcntl("fcntl", fd, cmd, arg)
}
#[no_mangle]
pub unsafe extern "C" fn fcntl64(fd: c_int, cmd: c_int, arg: usize) -> c_int {
    do_fcntl("fcntl64", fd, cmd, arg)
}
#[no_mangle]
pub unsafe extern "C" fn flock(fd: c_int, op: c_int) -> c_int {
    let g = Guard::enter();
    if g.is_none() {
        return libc::syscall(libc::SYS_flock, fd, op) as c_int;
    }
    let mut ev = Ev::new(Kind::Lock, "flock");
    ev.fd = fd;
    ev.flags = op as i64;
    mediate(ev, &mut |_, _| libc::syscall(libc::SYS_flock, fd, op)) as c_int
}
#[no_mangle]
pub unsafe extern "C" fn lockf(fd: c_int, cmd: c_int, len: off_t) -> c_int {
    let mut fl: libc::flock = std::mem::zeroed();
    fl.l_whence = libc::SEEK_CUR as i16;
    fl.l_len = len;
    let (c, t) = match cmd {
        libc::F_ULOCK => (libc::F_SETLK, libc::F_UNLCK),
        libc::F_LOCK => (libc::F_SETLKW, libc::F_WRLCK),
        libc::F_TLOCK => (libc::F_SETLK, libc::F_WRLCK),
        _ => (libc::F_GETLK, libc::F_RDLCK),
    };
    fl.l_type = t as i16;
    do_fcntl("lockf", fd, c, &fl as *const _ as usize)
}

// ---- directory streams ---------------------------------------------------

unsafe fn real_sym(name: &'static [u8], slot: &AtomicUsize) -> usize {
    let mut p = slot.load(SeqCst);
    if p == 0 {
        p = libc::dlsym(libc::RTLD_NEXT, name.as_ptr() as *const c_char) as usize;
        slot.store(p, SeqCst);
    }
    p
}
static REAL_OPENDIR: AtomicUsize = AtomicUsize::new(0);
static REAL_FDOPENDIR: AtomicUsize = AtomicUsize::new(0);
static REAL_READDIR64: AtomicUsize = AtomicUsize::new(0);
static REAL_CLOSEDIR: AtomicUsize = AtomicUsize::new(0);

unsafe fn real_opendir(path: *const c_char) -> *mut libc::DIR {
    let f: unsafe extern "C" fn(*const c_char) -> *mut libc::DIR =
        std::mem::transmute(real_sym(b"opendir\0", &REAL_OPENDIR));
    f(path)
}
unsafe fn real_readdir64(d: *mut libc::DIR) -> *mut libc::dirent64 {
    let f: unsafe extern "C" fn(*mut libc::DIR) -> *mut libc::dirent64 =
        std::mem::transmute(real_sym(b"readdir64\0", &REAL_READDIR64));
    f(d)
}
unsafe fn real_closedir(d: *mut libc::DIR) -> c_int {
    let f: unsafe extern "C" fn(*mut libc::DIR) -> c_int =
        std::mem::transmute(real_sym(b"closedir\0", &REAL_CLOSEDIR));
    f(d)
}

#[no_mangle]
pub unsafe extern "C" fn opendir(path: *const c_char) -> *mut libc::DIR {
    let g = Guard::enter();
    if g.is_none() {
        return real_opendir(path);
    }
    let mut ev = Ev::new(Kind::Opendir, "opendir");
    let p = cstr(path).unwrap_or_default();
    ev.path = Some(p.clone());
    ev.ino = ino_at(libc::AT_FDCWD, path, true);
    let mut out: *mut libc::DIR = std::ptr::null_mut();
    mediate(ev, &mut |_, _| {
        out = real_opendir(path);
        if out.is_null() {
            -1
        } else {
            let mut g = DIRS.lock().unwrap();
            let m = g.get_or_insert_with(HashMap::new);
            m.insert(
                out as usize,
                DirBuf {
                    entries: Vec::new(),
                    pos: 0,
                    loaded: false,
                    path: p.clone(),
                    calls: 0,
                    tid: participant(),
                },
            );
            let n = m.len();
            drop(g);
            let nf = open_fds().len();
            PEAK_FDS.fetch_max(n + nf, SeqCst);
            0
        }
    });
    out
}
#[no_mangle]
pub unsafe extern "C" fn fdopendir(fd: c_int) -> *mut libc::DIR {
    let f: unsafe extern "C" fn(c_int) -> *mut libc::DIR =
        std::mem::transmute(real_sym(b"fdopendir\0", &REAL_FDOPENDIR));
    let g = Guard::enter();
    if g.is_none() {
        return f(fd);
    }
    let mut ev = Ev::new(Kind::Opendir, "fdopendir");
    ev.fd = fd;
    let path = fd_info(fd).map(|i| i.path).unwrap_or_default();
    ev.path = Some(path.clone());
    let mut out: *mut libc::DIR = std::ptr::null_mut();
    mediate(ev, &mut |_, _| {
        out = f(fd);
        if out.is_null() {
            -1
        } else {
            fd_remove(fd);
            let mut g = DIRS.lock().unwrap();
            g.get_or_insert_with(HashMap::new).insert(
                out as usize,
                DirBuf {
                    entries: Vec::new(),
                    pos: 0,
                    loaded: false,
                    path: path.clone(),
                    calls: 0,
                    tid: participant(),
                },
            );
            0
        }
    });
    out
}

unsafe fn dirent_name(d: &libc::dirent64) -> &[u8] {
    CStr::from_ptr(d.d_name.as_ptr()).to_bytes()
}

#[no_mangle]
pub unsafe extern "C" fn readdir64(dirp: *mut libc::DIR) -> *mut libc::dirent64 {
    let g = Guard::enter();
    let tracked = DIRS
        .lock()
        .unwrap()
        .as_ref()
        .map(|m| m.contains_key(&(dirp as usize)))
        .unwrap_or(false);
    if g.is_none() || !tracked {
        drop(g);
        return real_readdir64(dirp);
    }
    let mut ev = Ev::new(Kind::Readdir, "readdir64");
    {
        let mut gd = DIRS.lock().unwrap();
        let d = gd.as_mut().unwrap().get_mut(&(dirp as usize)).unwrap();
        ev.path = Some(d.path.clone());
        ev.arg = d.calls;
        d.calls += 1;
    }
    let mut out: *mut libc::dirent64 = std::ptr::null_mut();
    mediate(ev, &mut |_, _| {
        let mut gd = DIRS.lock().unwrap();
        let d = gd.as_mut().unwrap().get_mut(&(dirp as usize)).unwrap();
        if !d.loaded {
            d.loaded = true;
            set_errno(0);
            loop {
                let e = real_readdir64(dirp);
                if e.is_null() {
                    break;
                }
                let mut e = *e;
                if DTYPE_UNKNOWN.load(SeqCst) {
                    e.d_type = libc::DT_UNKNOWN;
                }
                d.entries.push(e);
            }
            match READDIR_ORDER.load(SeqCst) {
                ORDER_REVERSED => d.entries.reverse(),
                ORDER_SORTED => d
                    .entries
                    .sort_by(|a, b| dirent_name(a).cmp(dirent_name(b))),
                ORDER_SORTED_REV => d
                    .entries
                    .sort_by(|a, b| dirent_name(b).cmp(dirent_name(a))),
                _ => {}
            }
        }
        if d.pos < d.entries.len() {
            out = &mut d.entries[d.pos] as *mut libc::dirent64;
            d.pos += 1;
            1
        } else {
            out = std::ptr::null_mut();
            set_errno(0);
            0
        }
    });
    if out.is_null() && get_errno() != 0 {
        // injected failure: errno already set
    }
    out
}
#[no_mangle]
pub unsafe extern "C" fn readdir(dirp: *mut libc::DIR) -> *mut libc::dirent64 {
    // struct dirent == struct dirent64 on x86-64 glibc
    readdir64(dirp)
}
#[no_mangle]
pub unsafe extern "C" fn closedir(dirp: *mut libc::DIR) -> c_int {
    let g = Guard::enter();
    let tracked = DIRS
        .lock()
        .unwrap()
        .as_ref()
        .map(|m| m.contains_key(&(dirp as usize)))
        .unwrap_or(false);
    if g.is_none() || !tracked {
        drop(g);
        if tracked {
            DIRS.lock().unwrap().as_mut().unwrap().remove(&(dirp as usize));
        }
        return real_closedir(dirp);
    }
    let mut ev = Ev::new(Kind::Closedir, "closedir");
    {
        let gd = DIRS.lock().unwrap();
        ev.path = gd.as_ref().unwrap().get(&(dirp as usize)).map(|d| d.path.clone());
    }
    mediate(ev, &mut |_, _| {
        DIRS.lock().unwrap().as_mut().unwrap().remove(&(dirp as usize));
        real_closedir(dirp) as i64
    }) as c_int
}

// ---- time ----------------------------------------------------------------

#[no_mangle]
pub unsafe extern "C" fn clock_gettime(clk: libc::clockid_t, ts: *mut libc::timespec) -> c_int {
    if clk != libc::CLOCK_REALTIME || !CLOCK_VIRTUAL.load(SeqCst) {
        return libc::syscall(libc::SYS_clock_gettime, clk, ts) as c_int;
    }
    let g = Guard::enter();
    if g.is_none() {
        let now = clock_peek_ns();
        (*ts).tv_sec = now.div_euclid(1_000_000_000);
        (*ts).tv_nsec = now.rem_euclid(1_000_000_000);
        return 0;
    }
    let ev = Ev::new(Kind::Clock, "clock_gettime");
    mediate(ev, &mut |ev, _| {
        let now = clock_tick_ns();
        ev.arg = now;
        (*ts).tv_sec = now.div_euclid(1_000_000_000);
        (*ts).tv_nsec = now.rem_euclid(1_000_000_000);
        0
    }) as c_int
}

/// Names of every function this shim defines (for the completeness audit).
pub const INTERPOSED: &[&str] = &[
    "open", "open64", "openat", "openat64", "creat", "creat64", "close", "statx", "stat", "stat64",
    "lstat", "lstat64", "fstatat", "fstatat64", "fstat", "fstat64", "access", "faccessat", "rename",
    "renameat", "renameat2", "link", "linkat", "symlink", "symlinkat", "unlink", "unlinkat", "rmdir",
    "remove", "mkdir", "mkdirat", "chmod", "fchmodat", "fchmod", "utimensat", "futimens", "utimes",
    "ftruncate", "ftruncate64", "truncate", "truncate64", "read", "pread", "pread64", "readv", "write",
    "pwrite", "pwrite64", "writev", "copy_file_range", "sendfile", "sendfile64", "splice", "fsync",
    "fdatasync", "lseek", "lseek64", "dup", "dup2", "dup3", "fcntl", "fcntl64", "flock", "lockf",
    "opendir", "fdopendir", "readdir", "readdir64", "closedir", "clock_gettime",
];
