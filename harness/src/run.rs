//! Running library code as a participant, with panics caught and the trace
//! returned; control of the scripted randomness hooks.
use crate::shim::{self, Ev};
use crate::world;
use kismet_cache::verif_hooks;

/// Runs `f` as participant `tid` on the current thread.  The trace is *not*
/// reset (callers decide); returns the events recorded during `f`.
pub fn as_participant<T>(tid: i32, op: u32, f: impl FnOnce() -> T) -> (Result<T, String>, Vec<Ev>) {
    let start = shim::trace_len();
    shim::set_participant(tid);
    shim::set_op(op);
    let r = std::panic::catch_unwind(std::panic::AssertUnwindSafe(f));
    shim::set_participant(-1);
    let r = match r {
        Ok(x) => {
            let _ = world::take_panic();
            Ok(x)
        }
        Err(p) => {
            let msg = world::take_panic().unwrap_or_else(|| {
                if let Some(s) = p.downcast_ref::<&str>() {
                    s.to_string()
                } else if let Some(s) = p.downcast_ref::<String>() {
                    s.clone()
                } else {
                    "panic".to_string()
                }
            });
            Err(msg)
        }
    };
    let trace = shim::trace_since(start);
    // debugging aid: KVERIF_DUMP_INJECTED=1 prints every execution in which a fault was injected
    if std::env::var("KVERIF_DUMP_INJECTED").is_ok() && trace.iter().any(|e| e.injected) {
        eprintln!("---- t{} op {}", tid, op);
        for (i, e) in trace.iter().enumerate() {
            eprintln!("{:3} {}{}", i, e.brief(), if e.injected { "   <== injected" } else { "" });
        }
    }
    (r, trace)
}

/// The next trigger event on this thread fires; later draws are `after`.
pub fn trigger_fire_next(after: u64) {
    verif_hooks::script_trigger_draws(&[], Some(after));
    verif_hooks::set_trigger_counter(1);
}

/// No trigger event fires on this thread for any period >= 2 within any
/// realistic horizon (countdown at its maximum, redrawn at its maximum).
pub fn trigger_never() {
    verif_hooks::script_trigger_draws(&[], Some(u64::MAX));
    verif_hooks::set_trigger_counter(u64::MAX);
}

/// Every trigger event fires.
pub fn trigger_always() {
    verif_hooks::script_trigger_draws(&[], Some(1));
    verif_hooks::set_trigger_counter(1);
}

pub fn shard_draws(queue: &[u64], default: Option<u64>) {
    verif_hooks::script_shard_draws(queue, default);
}

/// Standard per-case environment reset.
pub fn reset_env() {
    shim::reset_case();
    shim::set_controller(None);
    shim::set_atime_policy(shim::ATIME_RELATIME);
    shim::set_granularity_ns(1);
    shim::set_readdir_order(shim::ORDER_SORTED);
    shim::set_dtype_unknown(false);
    shim::clock_virtual(base_time_ns(), 1_000_000);
    trigger_never();
    shard_draws(&[], Some(0));
}

/// A fixed virtual "now": real time at process start, so kernel-stamped files
/// are never far from the virtual clock.
pub fn base_time_ns() -> i64 {
    use std::sync::OnceLock;
    static BASE: OnceLock<i64> = OnceLock::new();
    *BASE.get_or_init(shim::real_now_ns)
}
