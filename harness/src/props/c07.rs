//! C07 — maintenance evicts exactly what Second Chance prescribes, on disk.
//!
//! Small-scope enumeration of directory populations (rank, read mark, listing
//! order within equal ranks, stray subdirectories) x capacity; each is
//! materialised on a real filesystem, pruned by the real code, and the
//! before/after delta compared with the classical clock queue.
use crate::props::c08::classical;
use crate::report::{Report, Shard, Tier};
use crate::run;
use crate::shim;
use crate::world::{self, Scratch, Snapshot};
use serde_json::{json, Value};
use std::collections::{BTreeMap, BTreeSet};
use std::path::{Path, PathBuf};

const SEC: i128 = 1_000_000_000;

/// type code t in 0..9: rank = t / 3, mark = t % 3 (0: atime<mtime, 1: atime==mtime, 2: atime>mtime)
/// `fine`: the three ranks are 0.3 s apart inside one second instead of 10 s apart
fn times_for(t: u8, base: i128, fine: bool) -> (i128, i128) {
    let rank = (t / 3) as i128;
    let mtime = if fine { base.div_euclid(SEC) * SEC + 50_000_000 + rank * 300_000_000 } else { base + rank * 10 * SEC };
    let atime = match t % 3 {
        0 => mtime - 120 * SEC,
        1 => mtime,
        _ => mtime + 5 * SEC,
    };
    (atime, mtime)
}

#[derive(Clone, Debug)]
pub struct Case {
    /// entry types in listing order (sorted-by-name order)
    pub types: Vec<u8>,
    pub capacity: usize,
    /// 0 sorted, 1 reverse-sorted listing
    pub order: usize,
    /// number of stray subdirectories (0..=2) plus .kismet_temp if bit 2 set
    pub strays: u8,
    /// 0: raw_cache::prune; 1: plain::Cache::set with the trigger firing; 2: sharded::Cache::put into a shard;
    /// 10 + k: prune whose k-th unlink fails with EIO (the pass is interrupted), followed by a clean prune
    pub via: u8,
    /// ranks a fraction of a second apart (a burst of writes) instead of seconds apart
    pub fine: bool,
    /// what the first listed entry is when it is unread: 0 a regular file, 1 a symbolic link (a value handed over as a
    /// link), 2 a named pipe: anything that is not a directory counts against the capacity and is evicted in its turn
    pub special: u8,
}

impl Case {
    pub fn to_json(&self) -> Value {
        json!({"types": self.types, "capacity": self.capacity, "order": self.order, "strays": self.strays, "via": self.via, "fine": self.fine, "special": self.special})
    }
    pub fn from_json(v: &Value) -> Case {
        Case {
            types: v["types"].as_array().unwrap().iter().map(|x| x.as_u64().unwrap() as u8).collect(),
            capacity: v["capacity"].as_u64().unwrap() as usize,
            order: v["order"].as_u64().unwrap() as usize,
            strays: v["strays"].as_u64().unwrap() as u8,
            via: v["via"].as_u64().unwrap() as u8,
            fine: v["fine"].as_bool().unwrap_or(false),
            special: v["special"].as_u64().unwrap_or(0) as u8,
        }
    }
}

fn fname(i: usize) -> String {
    format!("f{:02}", i)
}

fn materialise(dir: &Path, case: &Case, base: i128) {
    shim::passthrough(|| {
        std::fs::create_dir_all(dir).unwrap();
    });
    for (i, &t) in case.types.iter().enumerate() {
        let (a, m) = times_for(t, base, case.fine);
        if i == 0 && case.special != 0 && t % 3 == 0 {
            let p = dir.join(fname(i));
            shim::passthrough(|| {
                if case.special == 1 {
                    let target = dir.parent().unwrap().join("link-target");
                    std::fs::write(&target, b"linked value").unwrap();
                    std::os::unix::fs::symlink(&target, &p).unwrap();
                } else {
                    let c = std::ffi::CString::new(p.to_string_lossy().as_bytes()).unwrap();
                    unsafe { libc::mkfifo(c.as_ptr(), 0o444) };
                }
            });
            world::set_times(&p, a, m);
            continue;
        }
        world::plant(&dir.join(fname(i)), format!("content-{}", i).as_bytes(), 0o444, a, m);
    }
    shim::passthrough(|| {
        let n = case.strays & 3;
        if n >= 1 {
            std::fs::create_dir_all(dir.join("adir")).unwrap();
        }
        if n >= 2 {
            std::fs::create_dir_all(dir.join("zdir/inner")).unwrap();
            std::fs::write(dir.join("zdir/inner/file"), b"keep").unwrap();
            std::fs::write(dir.join("zdir/file"), b"keep").unwrap();
        }
        if case.strays & 4 != 0 {
            std::fs::create_dir_all(dir.join(".kismet_temp")).unwrap();
        }
    });
}

/// Decides whether the observed delta is a classical Second Chance outcome
/// under some order of equal-rank entries.
/// `evicted`: set of vanished ids; `moved`: re-stamped survivors in new-mtime order.
fn explainable(types: &[u8], capacity: usize, evicted: &BTreeSet<u32>, moved: &[u32]) -> bool {
    let n = types.len();
    let acc = |i: u32| types[i as usize] % 3 != 0;
    let rank = |i: u32| types[i as usize] / 3;
    let matches = |order: &[(u32, bool)]| -> bool {
        let (e, m) = classical(order, capacity);
        e.iter().copied().collect::<BTreeSet<u32>>() == *evicted && m == moved
    };
    // order read off the output: within a rank, accessed victims, then moved (in order),
    // then unaccessed victims, then everything else.
    let mut pos = vec![u64::MAX; n];
    let mut k = 0u64;
    for &i in evicted.iter().filter(|&&i| acc(i)) {
        pos[i as usize] = k;
        k += 1;
    }
    for &i in moved {
        pos[i as usize] = k;
        k += 1;
    }
    for &i in evicted.iter().filter(|&&i| !acc(i)) {
        pos[i as usize] = k;
        k += 1;
    }
    let mut idx: Vec<u32> = (0..n as u32).collect();
    idx.sort_by_key(|&i| (rank(i), pos[i as usize], i));
    let order: Vec<(u32, bool)> = idx.iter().map(|&i| (i, acc(i))).collect();
    if matches(&order) {
        return true;
    }
    if n > 8 {
        return false;
    }
    // brute force over tie-group permutations
    let mut groups: Vec<Vec<u32>> = (0..3u8)
        .map(|r| (0..n as u32).filter(|&i| rank(i) == r).collect::<Vec<u32>>())
        .filter(|g: &Vec<u32>| !g.is_empty())
        .collect();
    fn rec(groups: &mut Vec<Vec<u32>>, g: usize, k: usize, f: &dyn Fn(&[Vec<u32>]) -> bool) -> bool {
        if g == groups.len() {
            return f(groups);
        }
        if k == groups[g].len() {
            return rec(groups, g + 1, 0, f);
        }
        for j in k..groups[g].len() {
            groups[g].swap(k, j);
            let ok = rec(groups, g, k + 1, f);
            groups[g].swap(k, j);
            if ok {
                return true;
            }
        }
        false
    }
    rec(&mut groups, 0, 0, &|gs: &[Vec<u32>]| {
        let order: Vec<(u32, bool)> = gs.iter().flatten().map(|&i| (i, acc(i))).collect();
        matches(&order)
    })
}

/// Compares before/after snapshots of `dir` (relative names) for the
/// population `types` (file i is `fNN`).  `extra_ok`: names allowed to appear.
pub fn judge_delta(
    types: &[u8],
    capacity: usize,
    before: &Snapshot,
    after: &Snapshot,
    extra_ok: &dyn Fn(&str) -> bool,
    frozen_clock: bool,
) -> Vec<(String, String)> {
    let mut bad = Vec::new();
    let n = types.len();
    let mut evicted = BTreeSet::new();
    let mut restamped: Vec<(i128, u32)> = Vec::new();
    let mut untouched_max: Option<i128> = None;
    for i in 0..n {
        let name = fname(i);
        let b = &before[&name];
        match after.get(&name) {
            None => {
                evicted.insert(i as u32);
            }
            Some(a) => {
                if a.content != b.content || a.meta.perm() != b.meta.perm() || a.meta.ino != b.meta.ino {
                    bad.push(("survivor-altered".into(), format!("{} changed content/mode/inode", name)));
                }
                if a.meta.mtime != b.meta.mtime {
                    restamped.push((a.meta.mtime, i as u32));
                    if a.meta.atime >= a.meta.mtime {
                        bad.push((
                            "mark-not-cleared".into(),
                            format!("{} was re-queued but still carries a read mark", name),
                        ));
                    }
                    if types[i] % 3 == 0 {
                        bad.push((
                            "unread-requeued".into(),
                            format!("{} was not read since insertion but was moved to the back", name),
                        ));
                    }
                } else {
                    if a.meta.atime != b.meta.atime {
                        bad.push(("survivor-altered".into(), format!("{} atime changed", name)));
                    }
                    untouched_max = Some(untouched_max.map_or(a.meta.mtime, |m: i128| m.max(a.meta.mtime)));
                }
            }
        }
    }
    // everything that is not one of our files: unchanged, except allowed additions
    for (k, b) in before {
        if k.is_empty() || (k.len() == 3 && k.starts_with('f') && !k.contains('/')) {
            continue;
        }
        match after.get(k) {
            None => bad.push(("foreign-removed".into(), format!("{} disappeared", k))),
            Some(a) => {
                if a.kind != b.kind || a.content != b.content || a.meta.perm() != b.meta.perm() {
                    bad.push(("foreign-altered".into(), format!("{} changed", k)));
                }
                if b.kind == 'f' && (a.meta.mtime != b.meta.mtime || a.meta.atime != b.meta.atime) {
                    bad.push(("foreign-altered".into(), format!("{} re-stamped", k)));
                }
            }
        }
    }
    for k in after.keys() {
        if !before.contains_key(k) && !extra_ok(k) {
            bad.push(("unexpected-creation".into(), format!("{} appeared", k)));
        }
    }
    let want = n.saturating_sub(capacity);
    if evicted.len() != want {
        bad.push((
            "eviction-count".into(),
            format!("{} files deleted, expected max(0, n - capacity) = {}", evicted.len(), want),
        ));
    }
    if n <= capacity && !restamped.is_empty() {
        bad.push(("reordered-within-capacity".into(), "entries were re-stamped although n <= capacity".into()));
    }
    restamped.sort();
    if !frozen_clock {
        if restamped.windows(2).any(|w| w[0].0 == w[1].0) {
            bad.push(("requeue-order".into(), "two re-queued entries received the same mtime".into()));
        }
        if let (Some(um), Some(first)) = (untouched_max, restamped.first()) {
            if first.0 <= um {
                bad.push((
                    "requeue-not-at-back".into(),
                    "a re-queued entry is not newer than every untouched survivor".into(),
                ));
            }
        }
    }
    let moved: Vec<u32> = restamped.iter().map(|x| x.1).collect();
    if bad.is_empty() && !explainable(types, capacity, &evicted, &moved) {
        bad.push((
            "not-second-chance".into(),
            format!(
                "deleted {:?}, re-queued {:?} (in new-mtime order): not a Second Chance outcome under any tie order",
                evicted, moved
            ),
        ));
    }
    bad
}

pub fn run_case(case: &Case, rep: &mut Report) -> Vec<(String, String)> {
    run::reset_env();
    shim::set_readdir_order(if case.order == 0 { shim::ORDER_SORTED } else { shim::ORDER_SORTED_REV });
    let sc = Scratch::new();
    let base = run::base_time_ns() as i128 - 86_400 * SEC;
    let n = case.types.len();
    let mut bad = Vec::new();
    match case.via {
        0 => {
            let dir = sc.path("cache");
            materialise(&dir, case, base);
            let before = world::snapshot(&dir);
            let d2 = dir.clone();
            let cap = case.capacity;
            let (r, trace) = run::as_participant(0, 0, move || kismet_cache::raw_cache::prune(d2, cap));
            rep.transitions += trace.len() as u64;
            let after = world::snapshot(&dir);
            match r {
                Err(p) => bad.push(("panic".into(), format!("prune panicked: {}", p))),
                Ok(Err(e)) => bad.push(("error".into(), format!("prune failed: {}", e))),
                Ok(Ok((estimate, deleted))) => {
                    bad.extend(judge_delta(&case.types, cap, &before, &after, &|_| false, false));
                    let want_deleted = n.saturating_sub(cap);
                    if deleted != want_deleted || estimate != (n - want_deleted.min(n)) as u64 {
                        bad.push((
                            "return-value".into(),
                            format!(
                                "prune returned (estimate {}, deleted {}), expected ({}, {})",
                                estimate,
                                deleted,
                                n - want_deleted.min(n),
                                want_deleted
                            ),
                        ));
                    }
                }
            }
        }
        v if v >= 10 => {
            // an interrupted pass followed by a clean one must still add up to one Second Chance pass
            let k = (v - 10) as i64;
            let dir = sc.path("cache");
            materialise(&dir, case, base);
            let before = world::snapshot(&dir);
            let cap = case.capacity;
            let ctl = std::sync::Arc::new(crate::props::c03::NthKindFault::new(shim::Kind::Unlink, k, libc::EIO));
            shim::set_controller(Some(ctl));
            let d2 = dir.clone();
            let (r1, t1) = run::as_participant(0, 0, move || kismet_cache::raw_cache::prune(d2, cap));
            shim::set_controller(None);
            rep.transitions += t1.len() as u64;
            let injected = t1.iter().any(|e| e.injected);
            match r1 {
                Err(p) => bad.push(("panic".into(), format!("interrupted prune panicked: {}", p))),
                Ok(Ok(_)) if injected => bad.push(("fault-masked".into(), "prune reported success although an unlink failed with EIO".into())),
                _ => {}
            }
            let d3 = dir.clone();
            let (r2, t2) = run::as_participant(0, 1, move || kismet_cache::raw_cache::prune(d3, cap));
            rep.transitions += t2.len() as u64;
            let after = world::snapshot(&dir);
            match r2 {
                Err(p) => bad.push(("panic".into(), format!("second prune panicked: {}", p))),
                Ok(Err(e)) => bad.push(("error".into(), format!("second prune failed: {}", e))),
                Ok(Ok(_)) => {
                    if injected {
                        rep.count("interrupted_passes", 1);
                    }
                    for (s, m) in judge_delta(&case.types, cap, &before, &after, &|_| false, false) {
                        bad.push((format!("interrupted-{}", s), format!("after a pass interrupted at its unlink #{} and a clean pass: {}", k, m)));
                    }
                }
            }
        }
        1 => {
            // through plain::Cache::set with the trigger scripted to fire
            let dir = sc.path("cache");
            materialise(&dir, case, base);
            let src = sc.path("src");
            shim::passthrough(|| std::fs::write(&src, b"new").unwrap());
            let before = world::snapshot(&dir);
            let cache = kismet_cache::plain::Cache::new(dir.clone(), case.capacity);
            let (r, trace) = run::as_participant(0, 0, || {
                run::trigger_fire_next(u64::MAX);
                cache.set("newkey", &src)
            });
            rep.transitions += trace.len() as u64;
            let after = world::snapshot(&dir);
            match r {
                Err(p) => bad.push(("panic".into(), format!("set panicked: {}", p))),
                Ok(Err(e)) => bad.push(("error".into(), format!("set failed: {}", e))),
                Ok(Ok(())) => {
                    bad.extend(judge_delta(
                        &case.types,
                        case.capacity,
                        &before,
                        &after,
                        &|k| k == "newkey" || k == ".kismet_temp",
                        false,
                    ));
                    if !after.contains_key("newkey") {
                        bad.push(("insert-lost".into(), "the entry just set is missing".into()));
                    }
                }
            }
        }
        _ => {
            // through sharded::Cache::put: population sits in the key's primary shard
            let root = sc.path("cache");
            let nshards = 3usize;
            let cap = case.capacity.max(1);
            let key = crate::ops::key_for_shards("newkey", 1, 2, nshards);
            let dir = root.join(crate::ops::shard_dir_name(1));
            materialise(&dir, case, base);
            let src = sc.path("src");
            shim::passthrough(|| std::fs::write(&src, b"new").unwrap());
            let before = world::snapshot(&dir);
            // (every other case with a total the shard count does not divide: the per-directory capacity is the
            // rounded-up quotient, here again `cap`)
            let total = if case.types.len() % 2 == 0 { cap * nshards } else { (cap * nshards - (nshards - 1)).max(1) };
            let cache = kismet_cache::sharded::Cache::new(root.clone(), nshards, total);
            let (r, trace) = run::as_participant(0, 0, || {
                run::trigger_fire_next(u64::MAX);
                run::shard_draws(&[], Some(0));
                cache.put(key.key(), &src)
            });
            rep.transitions += trace.len() as u64;
            let after = world::snapshot(&dir);
            match r {
                Err(p) => bad.push(("panic".into(), format!("put panicked: {}", p))),
                Ok(Err(e)) => bad.push(("error".into(), format!("put failed: {}", e))),
                Ok(Ok(())) => {
                    bad.extend(judge_delta(
                        &case.types,
                        cap,
                        &before,
                        &after,
                        &|k| k == "newkey" || k == ".kismet_temp",
                        false,
                    ));
                    if !after.contains_key("newkey") {
                        bad.push(("insert-lost".into(), "the entry just put is missing from its primary shard".into()));
                    }
                }
            }
        }
    }
    bad
}

fn record(case: &Case, rep: &mut Report) {
    rep.evaluations += 1;
    rep.states += 1;
    rep.traces += 1;
    let n = case.types.len();
    if n > case.capacity {
        let has_mark = case.types.iter().any(|t| t % 3 != 0);
        let mut ranks: Vec<u8> = case.types.iter().map(|t| t / 3).collect();
        ranks.sort();
        let tie = ranks.windows(2).any(|w| w[0] == w[1]);
        if has_mark || tie {
            rep.count("nontrivial_count", 1);
        }
    }
    for (sig, msg) in run_case(case, rep) {
        rep.violation(
            format!("prune:{}", sig),
            format!("{}: {}", case.to_json(), msg),
            case.to_json(),
        );
    }
}

/// All rank-sorted type sequences of length n (free order of marks inside a rank).
fn sequences(n: usize, f: &mut dyn FnMut(&[u8])) {
    // choose group sizes a+b+c = n, then marks freely
    let mut buf = vec![0u8; n];
    for a in 0..=n {
        for b in 0..=(n - a) {
            let total = 3u64.pow(n as u32);
            for code in 0..total {
                let mut c = code;
                for i in 0..n {
                    let rank = if i < a {
                        0
                    } else if i < a + b {
                        1
                    } else {
                        2
                    };
                    buf[i] = rank * 3 + (c % 3) as u8;
                    c /= 3;
                }
                f(&buf);
            }
        }
    }
}

/// All multisets of size n over 9 types (as sorted sequences).
fn multisets(n: usize, f: &mut dyn FnMut(&[u8])) {
    fn rec(buf: &mut Vec<u8>, n: usize, min: u8, f: &mut dyn FnMut(&[u8])) {
        if buf.len() == n {
            f(buf);
            return;
        }
        for t in min..9 {
            buf.push(t);
            rec(buf, n, t, f);
            buf.pop();
        }
    }
    rec(&mut Vec::with_capacity(n), n, 0, f);
}

/// Maintenance racing with a deleter or another maintainer: a pass may be planned on a listing that
/// is already stale, but it never evicts more entries than (entries it managed to stat) - capacity,
/// and never anything when that is not positive.
fn concurrent_programs() -> Vec<(crate::sched::Program, crate::props::e1::Mode, usize)> {
    use crate::ops::Op;
    use crate::props::e1::{self, api, planted, Mode};
    use crate::sched::POp;
    use crate::world::{Size, Val};
    let m = crate::ops::key_for_shards("m", 0, 1, 2);
    let j = e1::key2();
    let mut out = Vec::new();
    for (front, mkcfg) in [("plain", e1::plain_cfg as fn(usize) -> crate::ops::StackCfg), ("sharded", e1::sharded_cfg as fn(usize) -> crate::ops::StackCfg)] {
        let sd = crate::ops::shard_dir_name(0);
        let loc = |n: &str| if front == "sharded" { format!("{}/{}", sd, n) } else { n.to_string() };
        // (capacity, entries, which are read-marked): the last population makes one pass re-queue several entries
        for (cap, npre, marks) in [(4usize, 5usize, 0b01010u32), (2, 4, 0b1010), (3, 3, 0b010), (2, 5, 0b00111), (1, 4, 0b1111)] {
            let pre: Vec<crate::sched::Planted> = (0..npre)
                .map(|i| planted(&loc(&format!("x{}", i)), Val::new(10 + i as u8, Size::One), marks >> i & 1 == 1, 20 - i as i64))
                .collect();
            let dircap = cap;
            let cfgcap = if front == "sharded" { cap * 2 } else { cap };
            let v = |t: usize| e1::wval(t, 0, Size::One);
            let newest = loc(&format!("x{}", npre - 1));
            let oldest = loc("x0");
            let mut add = |name: &str, threads: Vec<Vec<POp>>| {
                out.push((
                    crate::sched::Program {
                        name: format!("evict-{}-c{}n{}-{}", front, cap, npre, name),
                        cfg: mkcfg(cfgcap),
                        pre: pre.clone(),
                        threads: e1::own_handles(threads, true),
                        create_write_dir: true,
                    },
                    crate::props::e1::side_bound(),
                    dircap,
                ));
            };
            add("set|deleter-newest", vec![vec![api(Op::Set(m.clone(), v(0)))], vec![POp::Unlink(newest.clone())]]);
            if npre >= 4 {
                add("put|deleter-second", vec![vec![api(Op::Put(m.clone(), v(0)))], vec![POp::Unlink(loc("x1"))]]);
            }
            add("set|deleter-oldest", vec![vec![api(Op::Set(m.clone(), v(0)))], vec![POp::Unlink(oldest.clone())]]);
            add("set|set", vec![vec![api(Op::Set(m.clone(), v(0)))], vec![api(Op::Set(j.clone(), v(1)))]]);
        }
        // a reader looks an entry up while it is being written; two more entries follow, and a fourth write maintains
        // a directory of capacity 2.  If the lookup hit, and returned before that fourth write began, the entry was read
        // since its insertion: the pass re-queues it and evicts the oldest unread entry instead.
        let other = |n: &str| crate::ops::key_for_shards(n, 0, 1, 2);
        for set in [true, false] {
            let first = if set { Op::Set(m.clone(), e1::wval(0, 0, Size::One)) } else { Op::Put(m.clone(), e1::wval(0, 0, Size::One)) };
            out.push((
                crate::sched::Program {
                    name: format!("readmark-{}-{}|get", front, if set { "set" } else { "put" }),
                    cfg: mkcfg(if front == "sharded" { 4 } else { 2 }),
                    pre: vec![],
                    threads: e1::own_handles(
                        vec![
                            vec![api(first), api(Op::Set(other("a1"), e1::wval(0, 1, Size::One))), api(Op::Set(other("a2"), e1::wval(0, 2, Size::One))), api(Op::Set(other("a3"), e1::wval(0, 3, Size::One)))],
                            vec![api(Op::Get(m.clone()))],
                        ],
                        true,
                    ),
                    create_write_dir: true,
                },
                crate::props::e1::side_bound(),
                2,
            ));
        }
    }
    out
}

/// Programs "readmark-*": see `concurrent_programs`.
fn readmark_check(x: &crate::sched::Execution) -> Vec<(String, String)> {
    let mut bad = Vec::new();
    if x.history.iter().any(|r| r.outcome.res.is_err() || r.outcome.res.is_panic()) {
        return bad; // C05's business
    }
    let get = x.history.iter().find(|r| r.tid == 1);
    let last_write = x.history.iter().find(|r| r.tid == 0 && r.idx == 3);
    if let (Some(g), Some(w)) = (get, last_write) {
        let hit = matches!(g.outcome.res, crate::ops::Res::Hit(_));
        if hit && g.end <= w.begin {
            let survives = x.final_snapshot.iter().any(|(rel, n)| n.kind == 'f' && rel.starts_with("w/") && !rel.contains(".kismet_temp") && (rel.ends_with("/m") || rel == "w/m"));
            if !survives {
                bad.push((
                    "read-entry-evicted".into(),
                    "the entry was looked up (a hit) after its insertion and before the maintaining write began, yet that write's pass evicted it although an older-or-equal unread entry was there to take".into(),
                ));
            }
        }
    }
    bad
}

fn concurrent_check(x: &crate::sched::Execution, capacity: usize) -> Vec<(String, String)> {
    use crate::shim::Kind;
    let mut bad = Vec::new();
    if x.history.iter().any(|r| r.tid == 0 && r.idx == 3) {
        bad.extend(readmark_check(x));
    }
    let wroot = x.root.join("w").to_string_lossy().into_owned();
    // per (thread, op): the maintenance pass = its opendir of a cache directory up to the next opendir
    let mut i = 0;
    while i < x.trace.len() {
        let e = &x.trace[i];
        let is_pass = e.kind == Kind::Opendir && e.ok() && e.path.as_ref().map(|p| p.starts_with(&wroot) && !p.ends_with(".kismet_temp")).unwrap_or(false);
        if !is_pass {
            i += 1;
            continue;
        }
        let (tid, op, dir) = (e.tid, e.op, e.path.clone().unwrap());
        let mut seen = 0usize;
        let mut evicted = 0usize;
        for f in x.trace[i + 1..].iter().filter(|f| f.tid == tid && f.op == op) {
            if f.kind == Kind::Opendir {
                break;
            }
            let in_dir = f.path.as_ref().map(|p| std::path::Path::new(p).parent().map(|d| d.to_string_lossy() == dir).unwrap_or(false)).unwrap_or(false);
            let name = f.path.as_ref().and_then(|p| std::path::Path::new(p).file_name().map(|n| n.to_string_lossy().into_owned())).unwrap_or_default();
            if !in_dir || name.starts_with('.') {
                continue;
            }
            if f.kind == Kind::Stat && f.ok() {
                seen += 1;
            }
            if f.kind == Kind::Unlink {
                evicted += 1;
            }
        }
        let allowed = seen.saturating_sub(capacity);
        if evicted > allowed {
            bad.push((
                "over-eviction".into(),
                format!("t{} op {}: a maintenance pass of capacity {} saw {} entries and tried to evict {} (at most {} needed)", tid, op, capacity, seen, evicted, allowed),
            ));
        }
        i += 1;
    }
    // ... nor fewer: every write maintained before inserting, and what a deleter removes only helps, so when all
    // is over no directory holds more than capacity + (number of writes) files.  (A pass that gives up silently
    // because an entry vanished under it leaves the directory over-full with nobody the wiser.)
    let writes = x.history.iter().filter(|r| matches!(&r.op, crate::sched::POp::Api(o) if o.is_write())).count();
    let failed = x.history.iter().any(|r| r.outcome.res.is_err() || r.outcome.res.is_panic());
    let mut per_dir: std::collections::BTreeMap<String, usize> = Default::default();
    for (rel, n) in &x.final_snapshot {
        if n.kind != 'f' || !rel.starts_with("w/") || rel.contains(".kismet_temp") {
            continue;
        }
        let p = std::path::Path::new(rel);
        if p.file_name().map(|n| n.to_string_lossy().starts_with('.')).unwrap_or(true) {
            continue;
        }
        *per_dir.entry(p.parent().unwrap().to_string_lossy().into_owned()).or_default() += 1;
    }
    for (dir, n) in per_dir {
        if !failed && n > capacity + writes {
            bad.push((
                "under-eviction".into(),
                format!("{} ends up with {} files although each of the {} writes maintained it to capacity {} before inserting", dir, n, writes, capacity),
            ));
        }
    }
    bad
}

pub fn run(tier: Tier, shard: Shard, rep: &mut Report) {
    let (seq_n, multi_n) = if tier == Tier::Quick { (5, 7) } else { (8, 12) };
    let fine_n = if tier == Tier::Quick { 4 } else { 6 };
    rep.rule = format!(
        "populations of key-named files with rank in 3 values x read mark in {{atime<mtime, atime==mtime, atime>mtime}}: \
         (a) every rank-sorted sequence of n <= {} files with every order of marks inside equal ranks, listed sorted and \
         reverse-sorted, x capacity 0..=n+1 x stray-subdirectory configurations, through raw_cache::prune (for n <= 4, thorough 6, \
         also with the three ranks 0.3 s apart inside one second, and with the first listed entry, when unread, a symbolic link or a named pipe); every 7th \
         case also through plain::Cache::set and sharded::Cache::put with the trigger scripted to fire; for n <= 4 every pass is \
         also interrupted at each of its unlinks (EIO) and followed by a clean pass, the two together judged as one pass; (b) every \
         multiset of {}..={} files x capacity 0..=n+1 x both listing orders through prune. Oracle: classical clock queue \
         under some tie order (constructed, then brute force for n<=8), exact survivor metadata, subdirectories untouched, \
         return value. Plus, under concurrency (a maintaining writer racing with a deleter or another maintainer, all schedules with <= 2 \
         preemptions): no pass evicts more than (entries it managed to stat) - capacity, and in the end no directory holds more than \
         capacity + (number of writes) files; and with one writer and a deleter of one entry the final directory is exactly the classical \
         pass on the population with or without that entry (same names, re-queued survivors freshly stamped and unmarked, the rest \
         untouched); and a reader looking an entry up while it is written (set, put), followed by two more writes and a maintaining one: an entry that was hit before the maintaining write began survives it. Non-trivial = n > capacity and (a tie or \
         a read mark present).",
        seq_n,
        seq_n + 1,
        multi_n
    );
    rep.assumptions = vec![
        "timestamps are set explicitly well in the virtual past; the virtual clock advances 1 ms per clock_gettime".into(),
        "file names matter only through listing order, which is enumerated (sorted / reverse-sorted x mark order within ranks)".into(),
    ];
    let mut no = 0u64;
    for n in 0..=seq_n {
        let mut seqs: Vec<Vec<u8>> = Vec::new();
        sequences(n, &mut |s| seqs.push(s.to_vec()));
        seqs.sort();
        seqs.dedup();
        for types in seqs {
            for capacity in 0..=(n + 1) {
                for order in 0..2 {
                    no += 1;
                    if !shard.mine(no) {
                        continue;
                    }
                    let strays = (no % 7) as u8; // 0..6: cycles through subdir configs incl. .kismet_temp
                    let case = Case { types: types.clone(), capacity, order, strays, via: 0, fine: false, special: 0 };
                    record(&case, rep);
                    if n <= fine_n {
                        let mut cf = case.clone();
                        cf.fine = true;
                        record(&cf, rep);
                        rep.count("subsecond_rank_cases", 1);
                    }
                    if n >= 1 && n <= fine_n && types[0] % 3 == 0 {
                        for special in [1u8, 2] {
                            let mut cs = case.clone();
                            cs.special = special;
                            record(&cs, rep);
                            rep.count("non_regular_entry_cases", 1);
                        }
                    }
                    if n <= 4 && capacity < n && order == 0 {
                        for k in 0..(n - capacity) {
                            let mut ci = case.clone();
                            ci.via = 10 + k as u8;
                            record(&ci, rep);
                        }
                    }
                    if no % 7 == 3 {
                        let mut c1 = case.clone();
                        c1.via = 1;
                        record(&c1, rep);
                        let mut c2 = case.clone();
                        c2.via = 2;
                        record(&c2, rep);
                        rep.count("via_public_api_cases", 2);
                    }
                    if no % 5003 == 0 {
                        rep.sample(case.to_json());
                    }
                }
            }
        }
    }
    for n in (seq_n + 1)..=multi_n {
        let mut sets: Vec<Vec<u8>> = Vec::new();
        multisets(n, &mut |s| sets.push(s.to_vec()));
        for types in sets {
            for capacity in 0..=(n + 1) {
                // skip the all-or-nothing middle for the largest sizes only in the capacity dimension: none skipped
                for order in 0..2 {
                    no += 1;
                    if !shard.mine(no) {
                        continue;
                    }
                    let case = Case { types: types.clone(), capacity, order, strays: (no % 7) as u8, via: 0, fine: false, special: 0 };
                    record(&case, rep);
                    if no % 50021 == 0 {
                        rep.sample(case.to_json());
                    }
                }
            }
        }
    }
    rep.fact("max_n_sequences", json!(seq_n));
    rep.fact("max_n_multisets", json!(multi_n));
    if shard.index == 0 {
        rep.sample(Case { types: vec![1, 0, 4, 8], capacity: 2, order: 0, strays: 2, via: 0, fine: false, special: 0 }.to_json());
    }
    let _ = BTreeMap::<u8, u8>::new();
    let _ = PathBuf::new();
    run::reset_env();
    let all = concurrent_programs();
    let progs: Vec<(crate::sched::Program, crate::props::e1::Mode)> = all.iter().map(|p| (p.0.clone(), p.1)).collect();
    let mut chk = |pi: usize, x: &crate::sched::Execution| {
        let mut b = concurrent_check(x, all[pi].2);
        b.extend(deleter_outcome_check(&all[pi].0, x, all[pi].2));
        b
    };
    crate::props::e1::explore_all("C07", &progs, shard, rep, &|_| crate::sched::RunOpts::default(), &mut chk, 500_000);
}

/// One maintaining writer and one deleter of a single entry d: the deletion lands either before the pass has
/// seen d (the pass is the classical one on the population without d) or afterwards (the classical pass on the
/// whole population, d missing at the end).  The final directory must be exactly one of the two: same names,
/// re-queued survivors freshly stamped and unmarked, all other survivors untouched.
fn deleter_outcome_check(prog: &crate::sched::Program, x: &crate::sched::Execution, capacity: usize) -> Vec<(String, String)> {
    use crate::sched::POp;
    let mut bad = Vec::new();
    let mut deleted: Option<String> = None;
    let mut writes = 0;
    for t in &prog.threads {
        for op in &t.ops {
            match op {
                POp::Unlink(rel) => deleted = Some(rel.clone()),
                POp::Api(o) if o.is_write() => writes += 1,
                _ => {}
            }
        }
    }
    let d = match deleted {
        Some(d) if writes == 1 && prog.threads.len() == 2 => d,
        _ => return bad,
    };
    if x.history.iter().any(|r| r.outcome.res.is_err() || r.outcome.res.is_panic()) {
        return bad; // C05's business
    }
    let dir = std::path::Path::new(&d).parent().map(|p| p.to_string_lossy().into_owned()).unwrap_or_default();
    let base = |rel: &str| std::path::Path::new(rel).file_name().unwrap().to_string_lossy().into_owned();
    // queue order: oldest (largest age) first
    let mut pop: Vec<(String, bool, i64)> = prog.pre.iter().filter(|p| !p.rel.starts_with('@')).map(|p| (base(&p.rel), p.read_marked, p.age)).collect();
    pop.sort_by_key(|p| -p.2);
    let dname = base(&d);
    let threshold = crate::run::base_time_ns() as i128 - 3_600_000_000_000;
    // what is there: name -> (fresh, marked)
    let prefix = if dir.is_empty() { "w/".to_string() } else { format!("w/{}/", dir) };
    let mut got: BTreeMap<String, (bool, bool)> = BTreeMap::new();
    for (rel, n) in &x.final_snapshot {
        if n.kind == 'f' && rel.starts_with(&prefix) && !rel[prefix.len()..].contains('/') && !rel[prefix.len()..].starts_with('.') {
            got.insert(rel[prefix.len()..].to_string(), (n.meta.mtime > threshold, n.meta.atime >= n.meta.mtime));
        }
    }
    let written = prog.threads.iter().flat_map(|t| t.ops.iter()).find_map(|o| match o {
        POp::Api(o) if o.is_write() => Some(o.key().name.clone()),
        _ => None,
    });
    let mut candidates: Vec<BTreeMap<String, (bool, bool)>> = Vec::new();
    for seen_d in [false, true] {
        let order: Vec<(String, bool)> = pop.iter().filter(|p| seen_d || p.0 != dname).map(|p| (p.0.clone(), p.1)).collect();
        let ids: Vec<(u32, bool)> = order.iter().enumerate().map(|(i, p)| (i as u32, p.1)).collect();
        let (ev, mv) = crate::props::c08::classical(&ids, capacity);
        let mut want: BTreeMap<String, (bool, bool)> = BTreeMap::new();
        for (i, (name, marked)) in order.iter().enumerate() {
            if ev.contains(&(i as u32)) || *name == dname {
                continue;
            }
            if mv.contains(&(i as u32)) {
                want.insert(name.clone(), (true, false));
            } else {
                want.insert(name.clone(), (false, *marked));
            }
        }
        if let Some(w) = &written {
            want.insert(w.clone(), (true, false));
        }
        candidates.push(want);
    }
    if !candidates.iter().any(|c| *c == got) {
        bad.push((
            "deleter-outcome".into(),
            format!(
                "directory {:?} ends as {:?} (name -> (freshly stamped, read mark)); with {} deleted before the pass saw it the classical pass gives {:?}, afterwards {:?}",
                dir, got, dname, candidates[0], candidates[1]
            ),
        ));
    }
    bad
}

pub fn replay(case: &Value, rep: &mut Report) {
    if case.get("program").is_some() {
        let all = concurrent_programs();
        let name = case["program"].as_str().unwrap_or("").to_string();
        let cap = all.iter().find(|p| p.0.name == name).map(|p| p.2).unwrap_or(0);
        let progs: Vec<crate::sched::Program> = all.into_iter().map(|p| p.0).collect();
        let prog = progs.iter().find(|p| p.name == name).cloned();
        let mut chk = |x: &crate::sched::Execution| {
            let mut b = concurrent_check(x, cap);
            if let Some(p) = &prog {
                b.extend(deleter_outcome_check(p, x, cap));
            }
            b
        };
        crate::props::e1::replay_case("C07", &progs, case, rep, &|| crate::sched::RunOpts::default(), &mut chk);
        return;
    }
    record(&Case::from_json(case), rep);
}
