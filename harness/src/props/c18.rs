//! C18 — I/O failures are reported, never masked, and leave the cache valid.
//!
//! For every scenario and every intercepted call of its fault-free execution,
//! each errno plausible for that kind of call is injected once at that call.
use crate::ops::{self, Res};
use crate::props::c02::fault_free;
use crate::props::scn::{self, Scn};
use crate::report::{Report, Shard, Tier};
use crate::run;
use crate::shim::{self, Action, Controller, Ev, Kind};
use serde_json::{json, Value};
use std::sync::atomic::{AtomicU64, Ordering::SeqCst};
use std::sync::{Arc, Mutex};

pub struct FailAt {
    pub faults: Vec<(u64, Action)>,
    /// the call kind each fault was planned for (from the fault-free trace); after an earlier fault the
    /// execution may diverge, and a failure meant for an open must not be injected into, say, a close
    pub kinds: Vec<Option<Kind>>,
    pub n: AtomicU64,
    pub hit: Mutex<Vec<Ev>>,
}

impl Controller for FailAt {
    fn before(&self, ev: &Ev) -> Action {
        let i = self.n.fetch_add(1, SeqCst);
        for (j, (k, a)) in self.faults.iter().enumerate() {
            if *k == i {
                if let Some(Some(kind)) = self.kinds.get(j) {
                    if *kind != ev.kind {
                        return Action::Proceed;
                    }
                }
                self.hit.lock().unwrap().push(ev.clone());
                return *a;
            }
        }
        Action::Proceed
    }
}

/// Failures plausible for a call of this kind.
pub fn plausible(ev: &Ev, effect_then_fail: bool) -> Vec<Action> {
    use libc::*;
    let f = |v: &[i32]| v.iter().map(|e| Action::Fail(*e)).collect::<Vec<_>>();
    match ev.kind {
        Kind::Open | Kind::Opendir => {
            let mut v = f(&[EIO, EACCES, EMFILE, ENFILE, ESTALE, ENOENT]);
            if ev.kind == Kind::Open && (ev.flags as i32 & O_CREAT) != 0 {
                v.push(Action::Fail(ENOSPC));
            }
            v
        }
        Kind::Stat => f(&[EIO, EACCES, ESTALE, ENOENT]),
        Kind::Write | Kind::CopyRange => {
            let mut v = f(&[EIO, ENOSPC, EDQUOT]);
            v.push(Action::Short);
            v
        }
        Kind::Fsync => {
            let mut v = f(&[EIO, ENOSPC]);
            v.push(Action::LoseTail(EIO));
            v
        }
        Kind::Rename | Kind::Link => {
            let mut v = f(&[EIO, ENOSPC, EACCES, EXDEV, ESTALE, EMLINK]);
            if effect_then_fail {
                v.push(Action::FailAfter(EIO));
            }
            v
        }
        Kind::Unlink => {
            let mut v = f(&[EIO, EACCES, ESTALE]);
            if effect_then_fail {
                v.push(Action::FailAfter(EIO));
            }
            v
        }
        Kind::Chmod | Kind::Fchmod | Kind::Utimens => f(&[EIO, EPERM, EROFS, ESTALE]),
        Kind::Mkdir => f(&[EIO, ENOSPC, EACCES, EEXIST]),
        Kind::Readdir => f(&[EIO, ESTALE]),
        Kind::Close => vec![Action::FailAfter(EIO), Action::FailAfter(EDQUOT), Action::LoseTail(EDQUOT)],
        Kind::Read => f(&[EIO, ESTALE]),
        Kind::Lseek => vec![],
        _ => vec![],
    }
}

pub fn action_json(a: &Action) -> Value {
    match a {
        Action::Fail(e) => json!({"fail": e}),
        Action::FailAfter(e) => json!({"fail_after": e}),
        Action::Short => json!("short"),
        Action::LoseTail(e) => json!({"lose_tail": e}),
        _ => json!("none"),
    }
}
pub fn action_from(v: &Value) -> Action {
    if let Some(e) = v.get("fail").and_then(|x| x.as_i64()) {
        Action::Fail(e as i32)
    } else if let Some(e) = v.get("fail_after").and_then(|x| x.as_i64()) {
        Action::FailAfter(e as i32)
    } else if let Some(e) = v.get("lose_tail").and_then(|x| x.as_i64()) {
        Action::LoseTail(e as i32)
    } else {
        Action::Short
    }
}

pub fn fault_run(scn: &Scn, faults: &[(u64, Action)], planned: &[Ev], rep: &mut Report) -> Vec<(String, String)> {
    let w = scn::setup(scn);
    let before = w.snapshot();
    let cache = w.cache();
    let force = w.force_maintenance;
    let kinds: Vec<Option<Kind>> = faults.iter().map(|(k, _)| planned.get(*k as usize).map(|e| e.kind)).collect();
    let ctl = Arc::new(FailAt { faults: faults.to_vec(), kinds, n: AtomicU64::new(0), hit: Mutex::new(vec![]) });
    shim::set_controller(Some(ctl.clone()));
    let (r, trace) = run::as_participant(0, 0, || {
        if force {
            run::trigger_fire_next(u64::MAX);
        } else {
            run::trigger_never();
        }
        ops::exec(&cache, &w.dirs, &w.op, &Default::default())
    });
    shim::set_controller(None);
    rep.transitions += trace.len() as u64;
    let res = match r {
        Ok(o) => o.res,
        Err(p) => Res::Panic(p),
    };
    let injected: Vec<Ev> = ctl.hit.lock().unwrap().clone();
    let mut bad = Vec::new();
    // (a) panics
    if let Res::Panic(m) = &res {
        let documented = m.contains("auto_sync failed")
            && matches!(scn.op.as_str(), "set" | "put" | "set_chunks")
            && injected.iter().any(|e| e.kind == Kind::Fsync);
        if !documented {
            bad.push(("panic".into(), format!("panicked: {}", m.chars().take(200).collect::<String>())));
        }
    }
    // (d) descriptors
    let leaked = shim::open_fds();
    if !leaked.is_empty() || shim::open_dir_streams() != 0 {
        bad.push((
            "fd-leak".into(),
            format!("{} descriptors / {} directory streams left open: {:?}", leaked.len(), shim::open_dir_streams(), leaked.iter().map(|l| l.1.path.replace(w.sc.root.to_str().unwrap(), "")).collect::<Vec<_>>()),
        ));
        for (fd, _) in &leaked {
            unsafe { libc::syscall(libc::SYS_close, *fd) };
        }
        shim::reset_case();
    }
    let after = w.snapshot();
    // (c) validity
    bad.extend(scn::tree_violations(&w, &before, &after));
    // (b) success means effect.  A probe of the key's own path answered with an absence errno
    // (ENOENT/ESTALE) is, by the code's documented classification, "not there": the operation may
    // then legitimately behave as on a miss, so only validity is checked for those cases.
    let key_name = format!("/{}", scn::the_key().name);
    let blinded = injected.iter().any(|e| {
        matches!(e.kind, Kind::Open | Kind::Stat | Kind::Utimens)
            && e.path.as_ref().map(|p| p.ends_with(&key_name)).unwrap_or(false)
    }) && faults.iter().any(|(_, a)| matches!(a, Action::Fail(libc::ENOENT) | Action::Fail(libc::ESTALE)));
    if blinded {
        rep.count("absence_errno_on_key_probe_cases", 1);
    } else {
        let probe_failed = injected.iter().any(|e| e.kind == Kind::Stat && e.path.as_ref().map(|p| p.ends_with(&key_name)).unwrap_or(false));
        for (s, m) in scn::effect_violations(&w, scn, &res, &before, &trace) {
            if probe_failed && s == "success-without-effect" {
                bad.push(("probe-error-masked".into(), format!("a failed existence probe (stat of the key's alternate location) was treated as absence: {}", m)));
            } else {
                bad.push((s, m));
            }
        }
    }
    // (b") success means the whole effect, durability included: with auto-sync (the scenarios' default) whatever
    // became visible under a key was flushed first, whichever call failed on the way
    if matches!(res, Res::Unit | Res::Hit(_)) && w.op.is_write() && w.cfg.auto_sync {
        let root = w.dirs.write.to_string_lossy().into_owned();
        for (s, m) in crate::props::c03::order_violations_opt(&trace, &root, true, false) {
            if s == "publish-before-flush" {
                bad.push(("success-without-flush".into(), format!("the operation reported success, but {}", m)));
            }
        }
    }
    // (b') maintenance's own steps: a victim's unlink or a re-queue's utimens that fails with a real I/O error
    // (not an absence errno) must not be reported as success
    if matches!(res, Res::Unit | Res::Hit(_)) && w.op.is_write() {
        let home = w.home.to_string_lossy().into_owned();
        for e in &injected {
            let in_home = e.path.as_ref().map(|p| std::path::Path::new(p).parent().map(|d| d.to_string_lossy() == home).unwrap_or(false)).unwrap_or(false);
            let entry = e.path.as_ref().and_then(|p| std::path::Path::new(p).file_name().map(|n| n.to_string_lossy().into_owned())).unwrap_or_default();
            let real = faults.iter().any(|(_, a)| matches!(a, Action::Fail(x) if *x != libc::ENOENT && *x != libc::ESTALE));
            let own_key = entry == scn::the_key().name;
            if real && in_home && !entry.starts_with('.') && !own_key && matches!(e.kind, Kind::Unlink | Kind::Utimens) {
                bad.push((
                    "maintenance-error-masked".into(),
                    format!("{} of cached entry {:?} failed with errno {} during maintenance, yet the operation reported success", e.func, entry, e.errno),
                ));
            }
        }
    }
    // (d) temp files: nothing new survives, except the file whose own unlink was made to fail
    let failed_unlinks: Vec<String> = injected
        .iter()
        .filter(|e| e.kind == Kind::Unlink)
        .filter_map(|e| e.path.clone())
        .collect();
    for (rel, _) in scn::temp_files(&after) {
        if before.contains_key(&rel) {
            continue;
        }
        let abs = w.sc.root.join(&rel).to_string_lossy().into_owned();
        if !failed_unlinks.contains(&abs) {
            bad.push(("temp-leak".into(), format!("temporary file {} was left behind", rel)));
        }
    }
    // (e) retry without the fault
    let before2 = w.snapshot();
    let (r2, t2) = run::as_participant(0, 1, || {
        run::trigger_never();
        ops::exec(&cache, &w.dirs, &w.op, &Default::default())
    });
    let res2 = match r2 {
        Ok(o) => o.res,
        Err(p) => Res::Panic(p),
    };
    if res2.is_err() || res2.is_panic() {
        bad.push(("retry-failed".into(), format!("re-issuing the operation without the fault returned {}", res2.label())));
    } else if !blinded {
        for (s, m) in scn::effect_violations(&w, scn, &res2, &before2, &t2) {
            bad.push((format!("retry-{}", s), m));
        }
    }
    let after2 = w.snapshot();
    for (s, m) in scn::tree_violations(&w, &before, &after2) {
        bad.push((format!("retry-{}", s), m));
    }
    bad
}

fn case_json(scn: &Scn, faults: &[(u64, Action)]) -> Value {
    json!({"scenario": scn.to_json(), "faults": faults.iter().map(|(k, a)| json!([k, action_json(a)])).collect::<Vec<_>>()})
}

fn record(scn: &Scn, faults: &[(u64, Action)], trace: &[Ev], rep: &mut Report) {
    rep.evaluations += 1;
    rep.states += 1;
    rep.traces += 1;
    rep.nontrivial.insert(crate::world::fnv(case_json(scn, faults).to_string().as_bytes()));
    let at: Vec<String> = faults.iter().map(|(k, a)| format!("{}@{}:{:?}", trace.get(*k as usize).map(|e| e.func).unwrap_or("?"), k, a)).collect();
    for (sig, msg) in fault_run(scn, faults, trace, rep) {
        rep.violation(
            format!("faults:{}", sig),
            format!("{} with {}: {}", scn.to_json(), at.join("+"), msg),
            case_json(scn, faults),
        );
    }
}

pub fn run(tier: Tier, shard: Shard, rep: &mut Report) {
    rep.rule = "the C02 scenario table (operation x pre-state x front-end); for EVERY intercepted call of the fault-free trace and \
        every failure plausible for that kind of call (errno table in DESIGN.md §3.3; short writes; close reporting an error after \
        releasing the descriptor; thorough adds effect-then-fail for rename/link/unlink and pairs of faults for short operations), \
        the failure is injected once and the operation continues; the library-finalised writes again with handles built with auto_sync(false). Oracle: no panic except the documented failed-flush one; Err, or Ok \
        with the effect verified on disk and, for writes, every inode that became visible flushed beforehand; tree valid (C02's predicate); no new temp file survives except the one whose own unlink \
        was failed; no descriptor left open; re-issuing the operation succeeds with the fault-free effect. Every case is distinct."
        .into();
    rep.assumptions = vec![
        "one fault per operation (two in thorough for operations with <= 80 calls); the injected errnos are those of DESIGN.md's table".into(),
        "a lookup or touch whose open is answered ENOENT/ESTALE may report absence (documented classification)".into(),
    ];
    let scns = scn::all_scenarios();
    let mut no = 0u64;
    // handles built with auto_sync(false), for the operations whose temporary file the library itself finalises:
    // durability is off, reporting failures is not
    scn::AUTO_SYNC.with(|a| a.set(false));
    for scn in scns.iter().filter(|s| !s.debris() && matches!(s.op.as_str(), "ensure" | "ensure_chunks" | "replace" | "promote" | "set_temp_file" | "put_temp_file")) {
        let (n, trace, _res) = fault_free(scn);
        for k in 0..n {
            for a in plausible(&trace[k], tier == Tier::Thorough) {
                no += 1;
                if !shard.mine(no) {
                    continue;
                }
                let before = rep.violations.len();
                record(scn, &[(k as u64, a)], &trace, rep);
                for v in rep.violations.iter_mut().skip(before) {
                    v.text = format!("[auto_sync(false)] {}", v.text);
                    if let Some(o) = v.case.as_object_mut() {
                        o.insert("auto_sync".into(), json!(false));
                    }
                }
                rep.count("auto_sync_off_cases", 1);
            }
        }
    }
    scn::AUTO_SYNC.with(|a| a.set(true));
    for scn in &scns {
        let (n, trace, _res) = fault_free(scn);
        for k in 0..n {
            for a in plausible(&trace[k], tier == Tier::Thorough) {
                no += 1;
                if !shard.mine(no) {
                    continue;
                }
                record(scn, &[(k as u64, a)], &trace, rep);
                if no % 9001 == 0 {
                    rep.sample(json!({"case": case_json(scn, &[(k as u64, a)]), "call": trace[k].brief().replace("/dev/shm/", "")}));
                }
            }
        }
        if tier == Tier::Thorough && n <= 80 {
            for k1 in 0..n {
                for a1 in plausible(&trace[k1], false).into_iter().take(2) {
                    for k2 in (k1 + 1)..n {
                        for a2 in plausible(&trace[k2], false).into_iter().take(2) {
                            no += 1;
                            if !shard.mine(no) {
                                continue;
                            }
                            record(scn, &[(k1 as u64, a1), (k2 as u64, a2)], &trace, rep);
                            rep.count("double_fault_cases", 1);
                        }
                    }
                }
            }
        }
    }
    rep.fact("scenarios", json!(scns.len()));
    rep.fact("fault_cases_total", json!(no));
}

pub fn replay(case: &Value, rep: &mut Report) {
    let scn = Scn::from_json(&case["scenario"]);
    let faults: Vec<(u64, Action)> = case["faults"]
        .as_array()
        .unwrap()
        .iter()
        .map(|f| (f[0].as_u64().unwrap(), action_from(&f[1])))
        .collect();
    let sync = case.get("auto_sync").and_then(|v| v.as_bool()).unwrap_or(true);
    scn::AUTO_SYNC.with(|a| a.set(sync));
    let (_n, trace, _) = fault_free(&scn);
    record(&scn, &faults, &trace, rep);
    scn::AUTO_SYNC.with(|a| a.set(true));
}
