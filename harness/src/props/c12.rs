//! C12 — shard placement is a fixed, process-independent function of the hashes.
//!
//! Boundary-hash grid x shard counts; for each point the real library's probe
//! paths and storage locations are compared with an independent
//! reimplementation (ops::expected_shards: own SHA-256, 128-bit arithmetic).
use crate::ops::{self, expected_shards, primary_mixer, secondary_mixer, shard_dir_name};
use crate::report::{Report, Shard, Tier};
use crate::shim::{self, Kind};
use crate::world::{self, Scratch};
use kismet_cache::Key;
use serde_json::{json, Value};
use std::io::Read;
use std::path::Path;

fn raw_hashes() -> Vec<u64> {
    let pm = primary_mixer();
    vec![
        0,
        1,
        2,
        1u64 << 63,
        u64::MAX,
        pm.unmix(0),
        pm.unmix(1),
        pm.unmix(u64::MAX),
    ]
}

fn boundary_y(s: usize, n: usize) -> u64 {
    (((s as u128) << 64).div_ceil(n.max(2) as u128)) as u64
}

fn primaries(n: usize) -> Vec<u64> {
    let nn = n.max(2);
    let shards: Vec<usize> = if nn <= 400 {
        (0..nn).collect()
    } else {
        vec![0, 1, nn / 2, nn - 2, nn - 1]
    };
    let pm = primary_mixer();
    let mut v = raw_hashes();
    for s in shards {
        let y = boundary_y(s, nn);
        v.push(pm.unmix(y.wrapping_sub(1)));
        v.push(pm.unmix(y));
    }
    v.sort();
    v.dedup();
    v
}

fn secondaries(h1: u64, n: usize) -> Vec<u64> {
    let nn = n.max(2);
    let s1 = ((nn as u128 * primary_mixer().mix(h1) as u128) >> 64) as usize;
    let sm = secondary_mixer();
    // (h1 itself too: an application with a single hash function passes the same value twice)
    let mut v = vec![0, 1, 1u64 << 63, u64::MAX, sm.unmix(0), sm.unmix(u64::MAX), h1, !h1, h1.wrapping_add(1)];
    for s in [s1, (s1 + 1) % nn, (s1 + nn - 1) % nn] {
        let y = boundary_y(s, nn);
        v.push(sm.unmix(y));
        // last value of shard s
        let y2 = boundary_y(s + 1, nn).wrapping_sub(1);
        v.push(sm.unmix(y2));
    }
    v.sort();
    v.dedup();
    v
}

fn shard_counts(tier: Tier) -> Vec<usize> {
    let top = if tier == Tier::Quick { 70 } else { 400 };
    let mut v: Vec<usize> = (0..=top).collect();
    v.extend_from_slice(&[127, 128, 129, 255, 256, 257, 511, 512, 513, 4096, 65535, 65536, 65537, 1_048_577]);
    v.sort();
    v.dedup();
    v
}

fn clean(root: &Path) {
    shim::passthrough(|| {
        if let Ok(rd) = std::fs::read_dir(root) {
            for e in rd.flatten() {
                let _ = std::fs::remove_dir_all(e.path());
            }
        }
    });
}

fn participant<T>(f: impl FnOnce() -> std::io::Result<T>) -> (std::io::Result<T>, Vec<shim::Ev>) {
    shim::reset_case();
    shim::set_participant(0);
    let r = std::panic::catch_unwind(std::panic::AssertUnwindSafe(f));
    shim::set_participant(-1);
    let r = match r {
        Ok(r) => r,
        Err(_) => Err(std::io::Error::new(
            std::io::ErrorKind::Other,
            format!("PANIC: {}", world::take_panic().unwrap_or_default()),
        )),
    };
    (r, shim::take_trace())
}

fn read_all(f: &mut std::fs::File) -> Vec<u8> {
    let mut b = Vec::new();
    let _ = f.read_to_end(&mut b);
    b
}

/// All observations for one grid point.  Returns violation messages.
pub fn check_point(root: &Path, n: usize, h1: u64, h2: u64, rep: &mut Report) -> Vec<(String, String)> {
    let mut bad = Vec::new();
    let (e1, e2) = expected_shards(h1, h2, n);
    let d1 = root.join(shard_dir_name(e1));
    let d2 = root.join(shard_dir_name(e2));
    let name = "key";
    let key = Key::new(name, h1, h2);
    if e1 == e2 {
        bad.push(("oracle".into(), "reference placement produced equal shards".into()));
        return bad;
    }
    // (1) probe order on an empty directory
    clean(root);
    let cache = kismet_cache::sharded::Cache::new(root.to_path_buf(), n, 1000);
    let (r, trace) = participant(|| cache.get(key));
    rep.transitions += trace.len() as u64;
    let opens: Vec<String> = trace
        .iter()
        .filter(|e| e.kind == Kind::Open)
        .filter_map(|e| e.path.clone())
        .collect();
    let want = vec![
        d1.join(name).to_string_lossy().into_owned(),
        d2.join(name).to_string_lossy().into_owned(),
    ];
    if !matches!(r, Ok(None)) {
        bad.push(("probe".into(), "get on an empty directory did not report a miss".into()));
    }
    if opens != want {
        bad.push((
            "probe-paths".into(),
            format!("lookup probed {:?}, expected {:?}", opens, want),
        ));
    }
    // (2) put through a fresh handle: where does the file land?
    let fresh = kismet_cache::sharded::Cache::new(root.to_path_buf(), n, 1000);
    let src = root.join("src_file");
    shim::passthrough(|| std::fs::write(&src, b"V").unwrap());
    let (r, trace) = participant(|| fresh.put(key, &src));
    rep.transitions += trace.len() as u64;
    if r.is_err() {
        bad.push(("put".into(), format!("put failed: {:?}", r)));
    }
    let in1 = world::lstat(&d1.join(name)).is_some();
    let in2 = world::lstat(&d2.join(name)).is_some();
    if !(in1 ^ in2) {
        bad.push((
            "put-location".into(),
            format!(
                "after put the entry is in primary={} secondary={} (expected exactly one of {:?} / {:?})",
                in1, in2, d1, d2
            ),
        ));
    }
    // nothing else was created at top level besides the two candidates
    let extra: Vec<String> = shim::passthrough(|| {
        std::fs::read_dir(root)
            .map(|rd| {
                rd.flatten()
                    .map(|e| e.file_name().to_string_lossy().into_owned())
                    .filter(|f| f != &shard_dir_name(e1) && f != &shard_dir_name(e2) && f != "src_file")
                    .collect()
            })
            .unwrap_or_default()
    });
    if !extra.is_empty() {
        bad.push((
            "stray-dir".into(),
            format!("put created {:?} besides the two candidate shards", extra),
        ));
    }
    if in1 {
        rep.count("fresh_put_in_primary", 1);
    }
    // the handle that wrote (its load estimates are no longer zero) still probes the primary first: the
    // estimates only choose where NEW entries go
    if in1 {
        let (r, trace) = participant(|| fresh.get(key).map(|o| o.map(|mut f| read_all(&mut f))));
        rep.transitions += trace.len() as u64;
        let opens: Vec<String> = trace.iter().filter(|e| e.kind == Kind::Open).filter_map(|e| e.path.clone()).collect();
        if opens.first() != Some(&want[0]) || !matches!(&r, Ok(Some(b)) if b == b"V") {
            bad.push((
                "probe-order-depends-on-history".into(),
                format!("after a put through the same handle, its lookup probed {:?} (primary is {:?}) and returned {:?}", opens, want[0], r.map(|o| o.map(|b| String::from_utf8_lossy(&b).into_owned()))),
            ));
        }
        let (r, trace) = participant(|| fresh.touch(key));
        let opens: Vec<String> = trace.iter().filter(|e| e.kind == Kind::Open).filter_map(|e| e.path.clone()).collect();
        if opens.first() != Some(&want[0]) || !matches!(r, Ok(true)) {
            bad.push(("probe-order-depends-on-history".into(), format!("after a put through the same handle, its touch probed {:?} first", opens)));
        }
    }
    // a *different* fresh handle must find it
    let other = kismet_cache::sharded::Cache::new(root.to_path_buf(), n, 1000);
    let (r, _t) = participant(|| other.get(key).map(|o| o.map(|mut f| read_all(&mut f))));
    if !matches!(&r, Ok(Some(b)) if b == b"V") {
        bad.push(("cross-handle".into(), format!("a second handle does not find the entry: {:?}", r)));
    }
    // (3) entry planted in the expected *secondary* shard
    clean(root);
    world::plant(&d2.join(name), b"S", 0o444, 1_000_000_000, 2_000_000_000);
    let c3 = kismet_cache::sharded::Cache::new(root.to_path_buf(), n, 1000);
    let (r, trace) = participant(|| c3.get(key).map(|o| o.map(|mut f| read_all(&mut f))));
    rep.transitions += trace.len() as u64;
    if !matches!(&r, Ok(Some(b)) if b == b"S") {
        bad.push(("secondary-get".into(), format!("entry in the secondary shard not found: {:?}", r)));
    }
    let opens: Vec<String> = trace
        .iter()
        .filter(|e| e.kind == Kind::Open)
        .filter_map(|e| e.path.clone())
        .collect();
    if opens != want {
        bad.push((
            "secondary-probe".into(),
            format!("probe order with a secondary hit was {:?}, expected {:?}", opens, want),
        ));
    }
    let (r, _t) = participant(|| c3.touch(key));
    if !matches!(r, Ok(true)) {
        bad.push(("secondary-touch".into(), format!("touch of a secondary entry returned {:?}", r)));
    }
    shim::passthrough(|| std::fs::write(&src, b"N").unwrap());
    let (r, trace) = participant(|| c3.set(key, &src));
    rep.transitions += trace.len() as u64;
    if r.is_err() {
        bad.push(("secondary-set".into(), format!("set failed: {:?}", r)));
    }
    let c_sec = world::read_file(&d2.join(name));
    let c_pri = world::read_file(&d1.join(name));
    if c_sec.as_deref() != Some(b"N") || c_pri.is_some() {
        bad.push((
            "secondary-set-location".into(),
            format!(
                "set on a key living in its secondary shard left secondary={:?} primary={:?} (expected the value replaced there, no second copy)",
                c_sec.map(|b| String::from_utf8_lossy(&b).into_owned()),
                c_pri.map(|b| String::from_utf8_lossy(&b).into_owned())
            ),
        ));
    }
    // (4) the same through the type-erased front-ends
    let ro = kismet_cache::ReadOnlyCacheBuilder::new()
        .sharded(root, n)
        .take()
        .build();
    let (r, _t) = participant(|| ro.get(key).map(|o| o.map(|mut f| read_all(&mut f))));
    if !matches!(&r, Ok(Some(b)) if b == b"N") {
        bad.push(("readonly-get".into(), format!("ReadOnlyCache does not find the entry: {:?}", r)));
    }
    let st = kismet_cache::CacheBuilder::new()
        .sharded_writer(root, n, 1000)
        .take()
        .build();
    let (r, _t) = participant(|| st.get(key).map(|o| o.map(|mut f| read_all(&mut f))));
    if !matches!(&r, Ok(Some(b)) if b == b"N") {
        bad.push(("stack-get".into(), format!("stacked Cache does not find the entry: {:?}", r)));
    }
    // (4') the generic builder entry points (`writer`, `reader`: sharded whenever the shard count is >= 2, whatever
    // the capacity) agree with everybody else on where the key lives
    if n >= 2 {
        for cap in [n.saturating_sub(1).max(1), 1usize, 1000] {
            clean(root);
            let generic = kismet_cache::CacheBuilder::new().writer(root, n, cap).take().build();
            shim::passthrough(|| std::fs::write(&src, b"G").unwrap());
            let (r, trace) = participant(|| generic.put(key, &src));
            rep.transitions += trace.len() as u64;
            let in1 = world::lstat(&d1.join(name)).is_some();
            let in2 = world::lstat(&d2.join(name)).is_some();
            if r.is_err() || !(in1 ^ in2) {
                bad.push((
                    "generic-writer-location".into(),
                    format!("CacheBuilder::writer(dir, {}, {}).put answered {:?} and left the entry in primary={} secondary={} (a flat file at the top level: {})", n, cap, r.as_ref().map(|_| ()).map_err(|e| e.kind()), in1, in2, world::lstat(&root.join(name)).is_some()),
                ));
            }
            let peer = kismet_cache::sharded::Cache::new(root.to_path_buf(), n, 1000);
            let (r, _t) = participant(|| peer.get(key).map(|o| o.map(|mut f| read_all(&mut f))));
            if !matches!(&r, Ok(Some(b)) if b == b"G") {
                bad.push(("generic-writer-location".into(), format!("an explicitly sharded peer does not find what CacheBuilder::writer(dir, {}, {}) stored: {:?}", n, cap, r.map(|o| o.map(|b| b.len())))));
            }
        }
        clean(root);
        world::plant(&d2.join(name), b"R", 0o444, 1_000_000_000, 2_000_000_000);
        let generic_reader = kismet_cache::CacheBuilder::new().reader(root, n).take().build();
        let (r, _t) = participant(|| generic_reader.get(key).map(|o| o.map(|mut f| read_all(&mut f))));
        if !matches!(&r, Ok(Some(b)) if b == b"R") {
            bad.push(("generic-reader-location".into(), format!("CacheBuilder::reader(dir, {}) does not find the entry in its secondary shard: {:?}", n, r.map(|o| o.map(|b| b.len())))));
        }
    }
    // (5) a candidate location is obstructed (a directory sits under the key's name in one of its two shards):
    // whatever set/put answer, nothing is ever stored anywhere but directly inside the two candidate shards
    for obstructed in [&d2, &d1] {
        for set in [true, false] {
            clean(root);
            shim::passthrough(|| std::fs::create_dir_all(obstructed.join(name)).unwrap());
            let h = kismet_cache::sharded::Cache::new(root.to_path_buf(), n, 1000);
            shim::passthrough(|| std::fs::write(&src, b"O").unwrap());
            let (r, trace) = participant(|| if set { h.set(key, &src) } else { h.put(key, &src) });
            rep.transitions += trace.len() as u64;
            let mut stray: Vec<String> = Vec::new();
            for (rel, node) in world::snapshot(root) {
                let comps: Vec<&str> = rel.split('/').collect();
                let top_ok = comps[0] == shard_dir_name(e1) || comps[0] == shard_dir_name(e2);
                let ok = rel.is_empty()
                    || rel == "src_file"
                    || (top_ok && (comps.len() == 1 || (comps.len() == 2 && (comps[1] == name || comps[1] == ".kismet_temp")) || (comps.len() == 3 && comps[1] == ".kismet_temp")));
                if !ok {
                    stray.push(format!("{} ({})", rel, node.kind));
                }
            }
            if !stray.is_empty() {
                bad.push((
                    "stray-with-obstructed-candidate".into(),
                    format!(
                        "{} with a directory sitting at {:?} answered {:?} and left {:?} outside the key's two candidate locations",
                        if set { "set" } else { "put" },
                        obstructed.join(name).strip_prefix(root).unwrap_or(obstructed),
                        r.as_ref().map(|_| ()).map_err(|e| e.kind()),
                        stray
                    ),
                ));
            }
        }
    }
    bad
}

thread_local! {
    /// which of the odd base directories the current point runs under (0 = the ordinary one)
    static ODD_ROOT: std::cell::Cell<usize> = const { std::cell::Cell::new(0) };
}

fn odd_roots(sc: &Scratch) -> Vec<std::path::PathBuf> {
    use std::os::unix::ffi::OsStrExt;
    let v = vec![sc.path("odd").join(std::ffi::OsStr::from_bytes(b"cach\xe9\xff")), sc.path("odd").join("a b \u{e9}\u{4e16}")];
    for r in &v {
        shim::passthrough(|| std::fs::create_dir_all(r).unwrap());
    }
    v
}

fn case_json(n: usize, h1: u64, h2: u64) -> Value {
    json!({"num_shards": n, "hash": h1.to_string(), "secondary_hash": h2.to_string(), "odd_root": ODD_ROOT.with(|o| o.get())})
}

fn run_point(root: &Path, n: usize, h1: u64, h2: u64, rep: &mut Report) {
    rep.evaluations += 1;
    rep.states += 1;
    rep.traces += 1;
    let nn = n.max(2);
    let s2raw = ((nn as u128 * secondary_mixer().mix(h2) as u128) >> 64) as usize;
    let (e1, e2) = expected_shards(h1, h2, n);
    // non-trivial: the fix-up applies, or a boundary shard is involved
    if s2raw == e1 || e1 == nn - 1 || e2 == 0 || e1 == 0 {
        rep.count("nontrivial_count", 1);
    }
    if s2raw == e1 {
        rep.count("fixup_points", 1);
        if e2 == 0 {
            rep.count("fixup_wrap_points", 1);
        }
    }
    for (sig, msg) in check_point(root, n, h1, h2, rep) {
        rep.violation(
            format!("placement:{}", sig),
            format!("n={} hash={:#x} secondary={:#x}: {}", n, h1, h2, msg),
            case_json(n, h1, h2),
        );
    }
}

fn selftest() {
    // SHA-256 known answer ("abc")
    let d = ops::sha256(b"abc");
    let hex: String = d.iter().map(|b| format!("{:02x}", b)).collect();
    assert_eq!(
        hex, "ba7816bf8f01cfea414140de5dae2223b00361a396177a9cb410ff61f20015ad",
        "harness SHA-256 self-test"
    );
    let pm = primary_mixer();
    assert_eq!(pm.mix(pm.unmix(0xdead_beef_1234_5678)), 0xdead_beef_1234_5678);
}

pub fn run(tier: Tier, shard: Shard, rep: &mut Report) {
    selftest();
    rep.rule = "grid: shard counts (0..70 and large/power-of-two ones) x primary hashes whose mixed image sits on each \
        side of every shard boundary (+ raw extremes) x secondary hashes landing on the same / next / previous shard \
        (+ raw extremes, + the primary hash itself, its complement and its successor); per point: probe paths of get on an empty dir, location after put through a fresh handle, \
        cross-handle lookup, secondary-shard hit/touch/set, ReadOnlyCache and stacked Cache lookups, all compared with \
        an independent reimplementation; every 41st point again under a base directory whose name is not valid UTF-8 and under one with a space and multi-byte characters. Non-trivial = distinctness fix-up applies or a first/last shard is involved."
        .into();
    rep.assumptions = vec![
        "the 2^128 hash pairs are covered by a boundary grid, not exhausted".into(),
        "reference: harness's own SHA-256 (known-answer self-test) and u128 arithmetic, written from lib.rs's documentation".into(),
    ];
    rep.exhaustive = false;
    let sc = Scratch::new();
    let root = sc.path("sharded");
    shim::passthrough(|| std::fs::create_dir_all(&root).unwrap());
    let odd_roots = odd_roots(&sc);
    let mut no = 0u64;
    for n in shard_counts(tier) {
        for h1 in primaries(n) {
            for h2 in secondaries(h1, n) {
                no += 1;
                if !shard.mine(no) {
                    continue;
                }
                run_point(&root, n, h1, h2, rep);
                // the directory's own name is not part of the function: every 41st point is repeated under a base
                // directory whose name is not valid UTF-8, and under one with a space and a multi-byte character
                if no % 41 == 0 {
                    for (oi, odd) in odd_roots.iter().enumerate() {
                        rep.count("odd_base_directory_points", 1);
                        ODD_ROOT.with(|o| o.set(oi + 1));
                        run_point(odd, n, h1, h2, rep);
                        ODD_ROOT.with(|o| o.set(0));
                    }
                }
                if no % 9973 == 0 {
                    rep.sample(json!({"case": case_json(n, h1, h2), "expected_shards": expected_shards(h1, h2, n)}));
                }
            }
        }
    }
    rep.fact("grid_points_total", json!(no));
    if shard.index == 0 {
        rep.sample(json!({"case": case_json(3, 0, 0), "expected_shards": expected_shards(0, 0, 3)}));
    }
}

pub fn replay(case: &Value, rep: &mut Report) {
    selftest();
    let n = case["num_shards"].as_u64().unwrap() as usize;
    let h1: u64 = case["hash"].as_str().unwrap().parse().unwrap();
    let h2: u64 = case["secondary_hash"].as_str().unwrap().parse().unwrap();
    let sc = Scratch::new();
    let root = sc.path("sharded");
    shim::passthrough(|| std::fs::create_dir_all(&root).unwrap());
    let odd = case["odd_root"].as_u64().unwrap_or(0) as usize;
    if odd > 0 {
        let roots = odd_roots(&sc);
        ODD_ROOT.with(|o| o.set(odd));
        run_point(&roots[odd - 1], n, h1, h2, rep);
        ODD_ROOT.with(|o| o.set(0));
        return;
    }
    run_point(&root, n, h1, h2, rep);
}
