//! The stacked-cache configuration matrix shared by C13, C14, C15, C19 (and
//! used by C03): cell description, cell runner, and the stack-resolution
//! reference model.
use crate::ops::{self, Act, Checker, CheckLog, Dirs, Front, Op, Outcome, Pop, Res, StackCfg, K};
use crate::run;
use crate::shim::{self, Ev};
use crate::world::{self, Scratch, Size, Snapshot, Val};
use serde_json::{json, Value};
use std::path::PathBuf;
use std::sync::{Arc, Mutex};

pub const NSHARDS: usize = 3;

thread_local! {
    /// size of the planted values A and B (C03 varies it)
    pub static PLANTED_SIZE: std::cell::Cell<Size> = const { std::cell::Cell::new(Size::Five) };
    /// plant the copies with timestamps one day in the future of the (virtual) clock: another host's
    /// clock is ahead (C15 varies it)
    pub static FUTURE_DATED: std::cell::Cell<bool> = const { std::cell::Cell::new(false) };
    /// make the operation's trigger event fire (C03 varies it)
    pub static FORCE_MAINTENANCE: std::cell::Cell<bool> = const { std::cell::Cell::new(false) };
    /// plant two-hour-old debris in the .kismet_temp of every level (C15 varies it, together with FORCE_MAINTENANCE)
    pub static STALE_DEBRIS: std::cell::Cell<bool> = const { std::cell::Cell::new(false) };
    /// build the cache handle before any of its directories exists (they are created and populated afterwards, as
    /// by another process): what a level holds is looked up at each operation, not when the handle is built
    pub static LATE_DIRS: std::cell::Cell<bool> = const { std::cell::Cell::new(false) };
    /// the write level is exactly full (capacity 2 per directory) of entries read since insertion, and the
    /// operation's maintenance fires (C13 varies it): what the operation stores must still be there afterwards
    pub static CROWDED_WRITER: std::cell::Cell<bool> = const { std::cell::Cell::new(false) };
    /// thorough tier: the matrices also cover stacks with three read-only levels and values of 0 B and 3 x 8 KiB
    pub static DEEP: std::cell::Cell<bool> = const { std::cell::Cell::new(false) };
    /// which key the cells use: 0 = images in shards (1, 2) of 3; 1 = both images in the last shard (secondary = shard 0 by
    /// the wrapping fix-up); 2 = both images in the first shard (secondary = shard 1 by the fix-up)
    pub static KEY_VARIANT: std::cell::Cell<u8> = const { std::cell::Cell::new(0) };
    /// the first two read-only levels are one and the same directory, seen once as a plain and once as a sharded cache
    /// (or under two shard counts): applies to cells whose first two read-only levels differ in kind
    pub static ALIASED_READERS: std::cell::Cell<bool> = const { std::cell::Cell::new(false) };
    /// an fsx controller to install for the duration of the operation
    pub static CONTROLLER: std::cell::RefCell<Option<Arc<dyn shim::Controller>>> = const { std::cell::RefCell::new(None) };
}

pub fn val_a() -> Val {
    Val::new(0, PLANTED_SIZE.with(|s| s.get()))
}
pub fn val_b() -> Val {
    Val::new(1, PLANTED_SIZE.with(|s| s.get()))
}
pub fn val_c() -> Val {
    Val::new(2, Size::One)
}

pub fn the_key() -> K {
    match KEY_VARIANT.with(|k| k.get()) {
        // both hash images select the last of NSHARDS shards: the secondary shard is the first one, by the
        // distinctness fix-up wrapping around
        1 => {
            let k = K::new("key", ops::hash_for_primary(NSHARDS - 1, NSHARDS), ops::hash_for_secondary(NSHARDS - 1, NSHARDS));
            debug_assert_eq!(ops::expected_shards(k.h1, k.h2, NSHARDS), (NSHARDS - 1, 0));
            k
        }
        // both images select the first shard: the secondary shard is the second one, by the fix-up
        2 => K::new("key", ops::hash_for_primary(0, NSHARDS), ops::hash_for_secondary(0, NSHARDS)),
        _ => ops::key_for_shards("key", 1, 2, NSHARDS),
    }
}

/// Content of one level for the key: 0 nothing, 1 A, 2 B; sharded levels also
/// 3 = A in the secondary shard, 4 = B in the secondary shard.
pub type Content = u8;

pub fn content_val(c: Content) -> Option<Val> {
    match c {
        0 => None,
        1 | 3 => Some(val_a()),
        _ => Some(val_b()),
    }
}

#[derive(Clone, Copy, Debug, PartialEq, Eq, Hash)]
pub enum MOp {
    Get,
    Touch,
    Set,
    Put,
    SetTemp,
    PutTemp,
    Ensure,
    Gou(Act),
}

impl MOp {
    pub fn label(&self) -> String {
        match self {
            MOp::Get => "get".into(),
            MOp::Touch => "touch".into(),
            MOp::Set => "set".into(),
            MOp::Put => "put".into(),
            MOp::SetTemp => "set_temp_file".into(),
            MOp::PutTemp => "put_temp_file".into(),
            MOp::Ensure => "ensure".into(),
            MOp::Gou(a) => format!("get_or_update:{:?}", a),
        }
    }
    pub fn parse(s: &str) -> MOp {
        match s {
            "get" => MOp::Get,
            "touch" => MOp::Touch,
            "set" => MOp::Set,
            "put" => MOp::Put,
            "set_temp_file" => MOp::SetTemp,
            "put_temp_file" => MOp::PutTemp,
            "ensure" => MOp::Ensure,
            "get_or_update:Accept" => MOp::Gou(Act::Accept),
            "get_or_update:Promote" => MOp::Gou(Act::Promote),
            _ => MOp::Gou(Act::Replace),
        }
    }
    pub fn uses_populate(&self) -> bool {
        matches!(self, MOp::Ensure | MOp::Gou(_))
    }
}

#[derive(Clone, Debug)]
pub struct Cell {
    pub writer: Option<Front>,
    pub readers: Vec<Front>,
    /// content of the write level (if any) followed by each read level
    pub contents: Vec<Content>,
    pub op: MOp,
    /// 0 value C, 1 value A, 2 value B, 3 NotFound, 4 other error, 5 an error carrying the OS errno ESTALE
    pub pop: u8,
    /// 0 none, 1 counting byte-equality, 2 panicking byte-equality, 3 library byte_equality_checker
    pub checker: u8,
    pub umask: u32,
    pub auto_sync: bool,
    /// the value written by set/put and by populate=0 (defaults to C)
    pub size: Size,
}

impl Cell {
    pub fn to_json(&self) -> Value {
        json!({
            "writer": self.writer.map(|f| f.label()),
            "readers": self.readers.iter().map(|f| f.label()).collect::<Vec<_>>(),
            "contents": self.contents,
            "op": self.op.label(),
            "pop": self.pop,
            "checker": self.checker,
            "umask": self.umask,
            "auto_sync": self.auto_sync,
            "size": match self.size { Size::Empty => 0, Size::One => 1, Size::Five => 5, Size::Chunks => 3, Size::Large => 12 },
        })
    }
    pub fn from_json(v: &Value) -> Cell {
        let front = |s: &str| if s == "plain" { Front::Plain } else { Front::Sharded(s.trim_start_matches("sharded").parse().unwrap_or(NSHARDS)) };
        Cell {
            writer: v["writer"].as_str().map(front),
            readers: v["readers"].as_array().unwrap().iter().map(|x| front(x.as_str().unwrap())).collect(),
            contents: v["contents"].as_array().unwrap().iter().map(|x| x.as_u64().unwrap() as u8).collect(),
            op: MOp::parse(v["op"].as_str().unwrap()),
            pop: v["pop"].as_u64().unwrap() as u8,
            checker: v["checker"].as_u64().unwrap() as u8,
            umask: v["umask"].as_u64().unwrap_or(0o022) as u32,
            auto_sync: v["auto_sync"].as_bool().unwrap_or(true),
            size: match v["size"].as_u64().unwrap_or(1) {
                0 => Size::Empty,
                5 => Size::Five,
                3 => Size::Chunks,
                12 => Size::Large,
                _ => Size::One,
            },
        }
    }
    pub fn new_value(&self) -> Val {
        Val::new(2, self.size)
    }
    pub fn pop_spec(&self) -> Pop {
        match self.pop {
            0 => Pop::Value(self.new_value()),
            1 => Pop::Value(val_a()),
            2 => Pop::Value(val_b()),
            3 => Pop::NotFound,
            5 => Pop::StaleErr,
            _ => Pop::OtherErr,
        }
    }
    pub fn pop_val(&self) -> Option<Val> {
        match self.pop_spec() {
            Pop::Value(v) => Some(v),
            _ => None,
        }
    }
    pub fn the_op(&self) -> Op {
        let k = the_key();
        match self.op {
            MOp::Get => Op::Get(k),
            MOp::Touch => Op::Touch(k),
            MOp::Set => Op::Set(k, self.new_value()),
            MOp::Put => Op::Put(k, self.new_value()),
            MOp::SetTemp => Op::SetTemp(k, self.new_value()),
            MOp::PutTemp => Op::PutTemp(k, self.new_value()),
            MOp::Ensure => Op::Ensure(k, self.pop_spec()),
            MOp::Gou(a) => Op::Gou(k, a, self.pop_spec()),
        }
    }
    pub fn levels(&self) -> Vec<Front> {
        self.writer.iter().copied().chain(self.readers.iter().copied()).collect()
    }
    pub fn has_writer(&self) -> bool {
        self.writer.is_some()
    }
    /// Values held per level, in lookup order.
    pub fn level_vals(&self) -> Vec<Option<Val>> {
        self.contents.iter().map(|&c| content_val(c)).collect()
    }
}

pub struct CellRun {
    pub cell: Cell,
    pub outcome: Outcome,
    pub trace: Vec<Ev>,
    pub dirs: Dirs,
    /// snapshots of [write dir (if configured, else of the unused path)] + read dirs
    pub before: Vec<Snapshot>,
    pub after: Vec<Snapshot>,
    pub level_dirs: Vec<PathBuf>,
    /// (relative path inside its level dir, inode) of each planted copy, per level
    pub copies: Vec<Option<(String, u64)>>,
    pub check_log: Vec<(u64, u64)>,
    pub scratch_root: PathBuf,
    /// fds open (in the shim's table) after the op returned and its result was dropped
    pub residual_fds: usize,
    pub tmp_snapshot_after: Snapshot,
}

fn level_rel(front: Front, content: Content) -> Option<String> {
    if content == 0 {
        return None;
    }
    Some(match front {
        Front::Plain => "key".to_string(),
        Front::Sharded(n) => {
            // the key's primary / secondary shard under this level's shard count (0 and 1 mean 2)
            let k = the_key();
            let (a, b) = ops::expected_shards(k.h1, k.h2, n);
            let shard = if content >= 3 { b } else { a };
            format!("{}/key", ops::shard_dir_name(shard))
        }
    })
}

pub fn all_contents(front: Front) -> Vec<Content> {
    match front {
        Front::Plain => vec![0, 1, 2],
        Front::Sharded(_) => vec![0, 1, 2, 3, 4],
    }
}

/// Two levels that can be views of one directory without their copies colliding: a plain one and a genuinely sharded one.
pub fn aliasable(a: Front, b: Front) -> bool {
    matches!((a, b), (Front::Plain, Front::Sharded(n)) | (Front::Sharded(n), Front::Plain) if n >= 2)
}

pub fn run_cell(cell: &Cell) -> CellRun {
    run::reset_env();
    let sc = Scratch::new();
    let nread = cell.readers.len();
    let mut dirs = Dirs::under(&sc.root, nread);
    if ALIASED_READERS.with(|a| a.get()) && nread >= 2 && aliasable(cell.readers[0], cell.readers[1]) {
        dirs.reads[1] = dirs.reads[0].clone();
    }
    let old = if FUTURE_DATED.with(|f| f.get()) {
        run::base_time_ns() as i128 + 86_400_000_000_000
    } else {
        run::base_time_ns() as i128 - 86_400_000_000_000
    };
    let mut level_dirs = Vec::new();
    if cell.writer.is_some() {
        level_dirs.push(dirs.write.clone());
    }
    level_dirs.extend(dirs.reads.iter().cloned());
    let levels = cell.levels();
    let early_cfg = StackCfg {
        writer: cell.writer.map(|f| (f, writer_capacity(f))),
        readers: cell.readers.clone(),
        checker: match cell.checker {
            0 => Checker::None,
            1 => Checker::Counting,
            2 => Checker::Panicking,
            _ => Checker::ByteEq,
        },
        auto_sync: cell.auto_sync,
    };
    let log: CheckLog = Arc::new(Mutex::new(Vec::new()));
    let early_cache = if LATE_DIRS.with(|l| l.get()) { Some(ops::build(&early_cfg, &dirs, Some(log.clone()))) } else { None };
    let mut copies = Vec::new();
    for (i, (&front, &content)) in levels.iter().zip(cell.contents.iter()).enumerate() {
        // every level directory exists (possibly empty); read-only levels keep an unrelated entry
        shim::passthrough(|| std::fs::create_dir_all(&level_dirs[i]).unwrap());
        let bystander = match front {
            Front::Plain => level_dirs[i].join("other"),
            Front::Sharded(_) => level_dirs[i].join(ops::shard_dir_name(0)).join("other"),
        };
        world::plant(&bystander, b"bystander", 0o444, old - 120_000_000_000, old);
        match level_rel(front, content) {
            Some(rel) => {
                let p = level_dirs[i].join(&rel);
                let v = content_val(content).unwrap();
                // deeper levels are older; nobody has read them
                let m = old - (i as i128) * 1_000_000_000;
                world::plant(&p, &v.bytes(), 0o444, m - 120_000_000_000, m);
                let ino = world::lstat(&p).unwrap().ino;
                copies.push(Some((rel, ino)));
            }
            None => copies.push(None),
        }
    }
    if CROWDED_WRITER.with(|c| c.get()) {
        if let Some(f) = cell.writer {
            let k = the_key();
            for d in ops::candidate_dirs(&dirs.write, f, &k) {
                for (i, name) in ["by1", "by2"].iter().enumerate() {
                    let m = old - (600 + i as i128) * 1_000_000_000;
                    world::plant(&d.join(name), b"bystander", 0o444, m + 5_000_000_000, m);
                }
            }
        }
    }
    if STALE_DEBRIS.with(|d| d.get()) {
        let stale = run::base_time_ns() as i128 - 7_200_000_000_000;
        for (i, &front) in levels.iter().enumerate() {
            let homes: Vec<PathBuf> = match front {
                Front::Plain => vec![level_dirs[i].clone()],
                Front::Sharded(n) => (0..n.max(2)).map(|s| level_dirs[i].join(ops::shard_dir_name(s))).collect(),
            };
            for h in homes {
                world::plant(&h.join(".kismet_temp/stale_debris"), b"debris", 0o600, stale, stale);
                world::set_times(&h.join(".kismet_temp"), stale, stale);
            }
        }
    }
    let cfg = StackCfg {
        writer: cell.writer.map(|f| (f, writer_capacity(f))),
        readers: cell.readers.clone(),
        checker: match cell.checker {
            0 => Checker::None,
            1 => Checker::Counting,
            2 => Checker::Panicking,
            _ => Checker::ByteEq,
        },
        auto_sync: cell.auto_sync,
    };
    let cache = match early_cache {
        Some(c) => c,
        None => ops::build(&cfg, &dirs, Some(log.clone())),
    };
    let snap_dirs: Vec<PathBuf> = std::iter::once(dirs.write.clone()).chain(dirs.reads.iter().cloned()).collect();
    let before: Vec<Snapshot> = snap_dirs.iter().map(|d| world::snapshot(d)).collect();
    let op = cell.the_op();
    let old_umask = unsafe { libc::umask(cell.umask as libc::mode_t) };
    let force = FORCE_MAINTENANCE.with(|f| f.get()) || CROWDED_WRITER.with(|c| c.get());
    let ctl = CONTROLLER.with(|c| c.borrow().clone());
    shim::set_controller(ctl);
    let (out, trace) = run::as_participant(0, 0, || {
        if force {
            run::trigger_fire_next(u64::MAX);
        } else {
            run::trigger_never();
        }
        ops::exec(&cache, &dirs, &op, &Default::default())
    });
    shim::set_controller(None);
    unsafe { libc::umask(old_umask) };
    let residual_fds = shim::open_fds().len() + shim::open_dir_streams();
    let outcome = match out {
        Ok(o) => o,
        Err(p) => Outcome {
            res: Res::Panic(p),
            judge: vec![],
            populate_calls: 0,
            populate_old: vec![],
            handle: None,
            source: None,
        },
    };
    let after: Vec<Snapshot> = snap_dirs.iter().map(|d| world::snapshot(d)).collect();
    let tmp_snapshot_after = world::snapshot(&dirs.app_tmp);
    let check_log = log.lock().unwrap().clone();
    CellRun {
        cell: cell.clone(),
        outcome,
        trace,
        dirs,
        before,
        after,
        level_dirs,
        copies,
        check_log,
        scratch_root: sc.root.clone(),
        residual_fds,
        tmp_snapshot_after,
    }
}

// ---------------------------------------------------------------------------
// Reference model

#[derive(Clone, Debug, PartialEq, Eq)]
pub enum Expect {
    Hit(Val),
    Miss,
    Bool(bool),
    Unit,
    Unsupported,
    /// an error of any kind
    AnyErr,
    NotFoundErr,
    /// checker mismatch: error (Err-returning checker) or panic (panicking checker)
    Mismatch,
}

#[derive(Clone, Debug)]
pub struct Model {
    pub result: Expect,
    /// expected content of the write level for the key afterwards (None: absent)
    pub write_after: Option<Val>,
    /// whether the write-side entry must be a fresh inode (published by this op)
    pub published: bool,
    /// index (into levels) of the first copy found, if any
    pub first: Option<usize>,
    pub judge: Option<bool>,
    /// populate must be called exactly this many times
    pub populate_calls: u32,
    /// what populate receives as old: None=not called, Some(None)=no old file, Some(Some(v))
    pub populate_old: Option<Option<Val>>,
    /// pairs that must be compared by the checker: (level index or usize::MAX for the populated temp, ...)
    pub must_compare: Vec<usize>,
    pub compares_populate: bool,
}

pub fn model(cell: &Cell) -> Model {
    let vals = cell.level_vals();
    let has_w = cell.has_writer();
    let first = vals.iter().position(|v| v.is_some());
    let first_val = first.and_then(|i| vals[i]);
    let w_val = if has_w { vals[0] } else { None };
    let checker = cell.checker != 0;
    let others: Vec<usize> = match first {
        Some(f) => (0..vals.len()).filter(|&i| i != f && vals[i].is_some()).collect(),
        None => vec![],
    };
    let all_same = others.iter().all(|&i| vals[i] == first_val);
    let mut m = Model {
        result: Expect::Unit,
        write_after: w_val,
        published: false,
        first,
        judge: None,
        populate_calls: 0,
        populate_old: None,
        must_compare: vec![],
        compares_populate: false,
    };
    let newv = cell.new_value();
    match cell.op {
        MOp::Get => {
            m.result = match first_val {
                Some(v) => Expect::Hit(v),
                None => Expect::Miss,
            };
            if checker && first.is_some() {
                m.must_compare = others.clone();
                if !all_same {
                    m.result = Expect::Mismatch;
                }
            }
        }
        MOp::Touch => m.result = Expect::Bool(first.is_some()),
        MOp::Set | MOp::SetTemp => {
            if !has_w {
                m.result = Expect::Unsupported;
            } else {
                m.write_after = Some(newv);
                m.published = true;
            }
        }
        MOp::Put | MOp::PutTemp => {
            if !has_w {
                m.result = Expect::Unsupported;
            } else if w_val.is_none() {
                m.write_after = Some(newv);
                m.published = true;
            }
        }
        MOp::Ensure | MOp::Gou(_) => {
            let act = match cell.op {
                MOp::Gou(a) => a,
                _ => Act::Promote,
            };
            let pop = cell.pop_spec();
            match first {
                Some(f) => {
                    let primary = has_w && f == 0;
                    if checker {
                        m.must_compare = others.clone();
                    }
                    if checker && !all_same {
                        // detected before the judge is consulted
                        m.result = Expect::Mismatch;
                        return m;
                    }
                    if cell.op != MOp::Ensure {
                        m.judge = Some(primary);
                    }
                    match act {
                        Act::Accept | Act::Promote => {
                            m.result = Expect::Hit(first_val.unwrap());
                            let mut promote = act == Act::Promote && !primary && has_w;
                            if checker {
                                m.populate_calls = 1;
                                m.populate_old = Some(None);
                                match pop {
                                    Pop::NotFound | Pop::PartialNotFound(_) => {
                                        // "return NotFound to skip the comparison without failing the whole call":
                                        // only the comparison is skipped; the judge's verdict (Promote) still applies
                                    }
                                    Pop::OtherErr | Pop::StaleErr | Pop::PartialErr(_) => {
                                        m.result = Expect::AnyErr;
                                        promote = false;
                                    }
                                    Pop::Value(v) => {
                                        m.compares_populate = true;
                                        if Some(v) != first_val {
                                            m.result = Expect::Mismatch;
                                            promote = false;
                                        }
                                    }
                                }
                            }
                            if promote {
                                m.write_after = first_val;
                                m.published = true;
                            }
                        }
                        Act::Replace => {
                            m.populate_calls = 1;
                            m.populate_old = Some(first_val);
                            match pop {
                                Pop::Value(v) => {
                                    m.result = Expect::Hit(v);
                                    if has_w {
                                        m.write_after = Some(v);
                                        m.published = true;
                                    }
                                }
                                Pop::NotFound | Pop::PartialNotFound(_) => m.result = Expect::NotFoundErr,
                                Pop::OtherErr | Pop::StaleErr | Pop::PartialErr(_) => m.result = Expect::AnyErr,
                            }
                        }
                    }
                }
                None => {
                    m.populate_calls = 1;
                    m.populate_old = Some(None);
                    match pop {
                        Pop::Value(v) => {
                            m.result = Expect::Hit(v);
                            if has_w {
                                m.write_after = Some(v);
                                m.published = true;
                            }
                        }
                        Pop::NotFound | Pop::PartialNotFound(_) => m.result = Expect::NotFoundErr,
                        Pop::OtherErr | Pop::StaleErr | Pop::PartialErr(_) => m.result = Expect::AnyErr,
                    }
                }
            }
        }
    }
    m
}

pub fn result_matches(cell: &Cell, want: &Expect, got: &Res) -> bool {
    use std::io::ErrorKind;
    match (want, got) {
        (Expect::Hit(v), Res::Hit(b)) => &v.bytes() == b,
        (Expect::Miss, Res::Miss) => true,
        (Expect::Bool(x), Res::Bool(y)) => x == y,
        (Expect::Unit, Res::Unit) => true,
        (Expect::Unsupported, Res::Err(ErrorKind::Unsupported, _, _)) => true,
        (Expect::AnyErr, Res::Err(..)) => true,
        (Expect::NotFoundErr, Res::Err(ErrorKind::NotFound, _, _)) => true,
        (Expect::Mismatch, Res::Err(..)) => cell.checker == 1 || cell.checker == 3,
        (Expect::Mismatch, Res::Panic(_)) => cell.checker == 2,
        _ => false,
    }
}

/// Where the key lives in the write level after the op: (relative path, node).
pub fn write_entries(run: &CellRun) -> Vec<(String, world::Node)> {
    if !run.cell.has_writer() {
        return vec![];
    }
    run.after[0]
        .iter()
        .filter(|(k, n)| n.kind == 'f' && (k.as_str() == "key" || k.ends_with("/key")) && !k.contains(".kismet_temp"))
        .map(|(k, n)| (k.clone(), n.clone()))
        .collect()
}

/// Every stack shape of the C13 matrix: (writer, readers).
pub fn shapes() -> Vec<(Option<Front>, Vec<Front>)> {
    let p = Front::Plain;
    let s = Front::Sharded(NSHARDS);
    let mut v = Vec::new();
    for w in [None, Some(p), Some(s)] {
        for r in [vec![], vec![p], vec![s], vec![p, p], vec![p, s], vec![s, p], vec![s, s]] {
            v.push((w, r));
        }
    }
    if DEEP.with(|d| d.get()) {
        for w in [None, Some(p), Some(s)] {
            for r in [vec![p, p, p], vec![p, s, p], vec![s, p, s]] {
                v.push((w, r));
            }
        }
    }
    // explicitly sharded read-only levels with a degenerate shard count (0 and 1 mean 2 shards, as for writers)
    for w in [None, Some(p)] {
        for r in [vec![Front::Sharded(1)], vec![p, Front::Sharded(1)], vec![Front::Sharded(0), p], vec![Front::Sharded(1), Front::Sharded(0)]] {
            v.push((w, r));
        }
    }
    v
}

/// Value sizes written by set/put/populate in the matrices of the current tier.
pub fn matrix_sizes() -> Vec<Size> {
    if DEEP.with(|d| d.get()) {
        vec![Size::One, Size::Empty, Size::Chunks]
    } else {
        vec![Size::One]
    }
}

pub fn set_tier(tier: crate::report::Tier) {
    DEEP.with(|d| d.set(tier == crate::report::Tier::Thorough));
}

pub fn writer_capacity(f: Front) -> usize {
    if CROWDED_WRITER.with(|c| c.get()) {
        match f {
            Front::Plain => 2,
            Front::Sharded(n) => 2 * n.max(2),
        }
    } else {
        1usize << 40
    }
}

pub fn content_products(levels: &[Front]) -> Vec<Vec<Content>> {
    let mut out: Vec<Vec<Content>> = vec![vec![]];
    for &f in levels {
        let mut next = Vec::new();
        for pre in &out {
            for c in all_contents(f) {
                let mut x = pre.clone();
                x.push(c);
                next.push(x);
            }
        }
        out = next;
    }
    out
}
