//! C08 — the eviction planner equals the classical Second Chance queue.
//!
//! Exhaustive small-scope enumeration of inputs to the real public
//! `second_chance::Update::new`, each compared with the step-by-step clock
//! queue under *some* order of equally ranked entries.
use crate::report::{Report, Shard, Tier};
use kismet_cache::second_chance::{Entry, Update};
use serde_json::{json, Value};
use std::cell::RefCell;
use std::collections::VecDeque;

thread_local! {
    static DROPS: RefCell<Vec<u32>> = const { RefCell::new(Vec::new()) };
}

/// Identity-tagged entry; deliberately not `Clone`; counts its drops.
struct E {
    id: u32,
    rank: u64,
    accessed: bool,
}

impl Drop for E {
    fn drop(&mut self) {
        DROPS.with(|d| {
            let mut d = d.borrow_mut();
            if (self.id as usize) < d.len() {
                d[self.id as usize] += 1;
            }
        });
    }
}

impl Entry for E {
    type Rank = u64;
    fn rank(&self) -> u64 {
        self.rank
    }
    fn accessed(&self) -> bool {
        self.accessed
    }
}

/// The classical clock queue on entries already arranged in queue order.
/// Returns (evicted ids in eviction order, re-queued survivors in queue order).
pub fn classical(order: &[(u32, bool)], capacity: usize) -> (Vec<u32>, Vec<u32>) {
    let mut q: VecDeque<(u32, bool, bool)> = order.iter().map(|&(i, a)| (i, a, false)).collect();
    let mut evicted = Vec::new();
    while q.len() > capacity {
        let (id, acc, _requeued) = q.pop_front().unwrap();
        if acc {
            q.push_back((id, false, true));
        } else {
            evicted.push(id);
        }
    }
    let moved = q.iter().filter(|e| e.2).map(|e| e.0).collect();
    (evicted, moved)
}

/// Queue order under the stable (input-order) tie rule.
fn stable_order(input: &[(u64, bool)]) -> Vec<(u32, bool)> {
    let mut idx: Vec<u32> = (0..input.len() as u32).collect();
    idx.sort_by_key(|&i| input[i as usize].0);
    idx.iter().map(|&i| (i, input[i as usize].1)).collect()
}

/// A tie order read off the output: if any order explains the output, this
/// one does (scanned entries first, in the order the output lists them).
fn order_from_output(input: &[(u64, bool)], evict: &[u32], moved: &[u32]) -> Vec<(u32, bool)> {
    let n = input.len();
    let mut pos = vec![u64::MAX; n];
    // accessed entries are scanned in the order (stolen ++ moved); unaccessed in evict order.
    let mut k = 0u64;
    for &i in evict.iter().filter(|&&i| (i as usize) < n && input[i as usize].1) {
        pos[i as usize] = k;
        k += 1;
    }
    for &i in moved.iter().filter(|&&i| (i as usize) < n) {
        pos[i as usize] = k;
        k += 1;
    }
    for &i in evict.iter().filter(|&&i| (i as usize) < n && !input[i as usize].1) {
        pos[i as usize] = k;
        k += 1;
    }
    let mut idx: Vec<u32> = (0..n as u32).collect();
    idx.sort_by_key(|&i| (input[i as usize].0, pos[i as usize], i));
    idx.iter().map(|&i| (i, input[i as usize].1)).collect()
}

fn permute_groups(
    groups: &mut Vec<Vec<u32>>,
    g: usize,
    input: &[(u64, bool)],
    capacity: usize,
    want: &(Vec<u32>, Vec<u32>),
) -> bool {
    if g == groups.len() {
        let order: Vec<(u32, bool)> = groups
            .iter()
            .flatten()
            .map(|&i| (i, input[i as usize].1))
            .collect();
        return &classical(&order, capacity) == want;
    }
    // Heap-free permutation by recursive swapping.
    fn rec(
        groups: &mut Vec<Vec<u32>>,
        g: usize,
        k: usize,
        input: &[(u64, bool)],
        capacity: usize,
        want: &(Vec<u32>, Vec<u32>),
    ) -> bool {
        if k == groups[g].len() {
            return permute_groups(groups, g + 1, input, capacity, want);
        }
        for j in k..groups[g].len() {
            groups[g].swap(k, j);
            if rec(groups, g, k + 1, input, capacity, want) {
                groups[g].swap(k, j);
                return true;
            }
            groups[g].swap(k, j);
        }
        false
    }
    rec(groups, g, 0, input, capacity, want)
}

/// An honest iterator whose `size_hint` is any of the answers the trait allows
/// (lower <= length <= upper): the planner takes `impl IntoIterator`, so what a
/// lazy adaptor (filter, flat_map, from_fn, a streamed directory listing) says
/// about its length is part of the input.
struct Hinted {
    inner: std::vec::IntoIter<E>,
    form: u8,
}

pub const FORMS: [&str; 5] = ["vec", "hint(0,None)", "hint(0,Some(n))", "hint(n/2,Some(n+3))", "hint(n,None)"];

impl Iterator for Hinted {
    type Item = E;
    fn next(&mut self) -> Option<E> {
        self.inner.next()
    }
    fn size_hint(&self) -> (usize, Option<usize>) {
        let n = self.inner.len();
        match self.form {
            1 => (0, None),
            2 => (0, Some(n)),
            3 => (n / 2, Some(n + 3)),
            _ => (n, None),
        }
    }
}

pub fn check_one(input: &[(u64, bool)], capacity: usize, small: bool) -> Result<bool, String> {
    check_form(input, capacity, small, 0)
}

/// Runs the real planner on `input`; returns a violation description, if any.
/// `small`: allow the brute-force search over tie orders.  `form`: see `FORMS`.
pub fn check_form(input: &[(u64, bool)], capacity: usize, small: bool, form: u8) -> Result<bool, String> {
    let n = input.len();
    DROPS.with(|d| {
        let mut d = d.borrow_mut();
        d.clear();
        d.resize(n, 0);
    });
    let entries: Vec<E> = input
        .iter()
        .enumerate()
        .map(|(i, &(rank, accessed))| E {
            id: i as u32,
            rank,
            accessed,
        })
        .collect();
    let result = std::panic::catch_unwind(std::panic::AssertUnwindSafe(|| {
        if form == 0 {
            Update::new(entries, capacity)
        } else {
            Update::new(Hinted { inner: entries.into_iter(), form }, capacity)
        }
    }));
    let update = match result {
        Ok(u) => u,
        Err(_) => return Err("planner panicked".to_string()),
    };
    let evict: Vec<u32> = update.to_evict.iter().map(|e| e.id).collect();
    let moved: Vec<u32> = update.to_move_back.iter().map(|e| e.id).collect();
    // what was dropped while the outputs are still alive = not returned
    let dropped_before: Vec<u32> = DROPS.with(|d| d.borrow().clone());
    let mut seen = vec![0u32; n];
    for &i in evict.iter().chain(moved.iter()) {
        if i as usize >= n {
            return Err(format!("output contains an entry that was not in the input (id {})", i));
        }
        seen[i as usize] += 1;
    }
    for i in 0..n {
        if seen[i] > 1 {
            return Err(format!("entry {} appears {} times in the plan", i, seen[i]));
        }
        if seen[i] == 1 && dropped_before[i] != 0 {
            return Err(format!("entry {} returned but also dropped", i));
        }
        if seen[i] == 0 && dropped_before[i] != 1 {
            return Err(format!(
                "entry {} not returned and dropped {} times",
                i, dropped_before[i]
            ));
        }
    }
    // returned entries keep their attributes
    for e in update.to_evict.iter().chain(update.to_move_back.iter()) {
        let (r, a) = input[e.id as usize];
        if e.rank != r || e.accessed != a {
            return Err(format!("entry {} was altered", e.id));
        }
    }
    drop(update);
    let after: Vec<u32> = DROPS.with(|d| d.borrow().clone());
    if after.iter().any(|&c| c != 1) {
        return Err("an entry was dropped twice or leaked".to_string());
    }
    let want_evictions = n.saturating_sub(capacity);
    if evict.len() != want_evictions {
        return Err(format!(
            "evicts {} entries, expected max(0, n - capacity) = {}",
            evict.len(),
            want_evictions
        ));
    }
    if n <= capacity && !moved.is_empty() {
        return Err("non-empty plan although n <= capacity".to_string());
    }
    let got = (evict, moved);
    // fast path 1: input-order ties
    if classical(&stable_order(input), capacity) == got {
        return Ok(false);
    }
    // fast path 2: tie order read off the output
    let order = order_from_output(input, &got.0, &got.1);
    if classical(&order, capacity) == got {
        return Ok(true);
    }
    if small {
        // brute force over every order of every tie group
        let mut ranks: Vec<u64> = input.iter().map(|x| x.0).collect();
        ranks.sort();
        ranks.dedup();
        let mut groups: Vec<Vec<u32>> = ranks
            .iter()
            .map(|r| {
                (0..n as u32)
                    .filter(|&i| input[i as usize].0 == *r)
                    .collect()
            })
            .collect();
        if permute_groups(&mut groups, 0, input, capacity, &got) {
            return Ok(true);
        }
    }
    Err(format!(
        "plan (evict {:?}, move back {:?}) is not the classical Second Chance result under any order of equal ranks",
        got.0, got.1
    ))
}

fn case_json_form(input: &[(u64, bool)], capacity: usize, form: u8) -> Value {
    let mut v = case_json(input, capacity);
    v["form"] = json!(form);
    v
}

fn case_json(input: &[(u64, bool)], capacity: usize) -> Value {
    json!({
        "entries": input.iter().map(|&(r, a)| json!([r.to_string(), a])).collect::<Vec<_>>(),
        "capacity": capacity.to_string(),
    })
}

fn parse_case(case: &Value) -> (Vec<(u64, bool)>, usize) {
    let input = case["entries"]
        .as_array()
        .unwrap()
        .iter()
        .map(|e| {
            (
                e[0].as_str().unwrap().parse::<u64>().unwrap(),
                e[1].as_bool().unwrap(),
            )
        })
        .collect();
    let cap = case["capacity"].as_str().unwrap().parse::<usize>().unwrap();
    (input, cap)
}

fn record(rep: &mut Report, input: &[(u64, bool)], capacity: usize, small: bool) {
    record_form(rep, input, capacity, small, 0)
}

fn record_form(rep: &mut Report, input: &[(u64, bool)], capacity: usize, small: bool, form: u8) {
    rep.evaluations += 1;
    rep.states += 1;
    rep.transitions += 1;
    rep.traces += 1;
    let n = input.len();
    let nontrivial = n > capacity
        && (input.iter().any(|x| x.1) || {
            let mut r: Vec<u64> = input.iter().map(|x| x.0).collect();
            r.sort();
            r.windows(2).any(|w| w[0] == w[1])
        });
    if nontrivial {
        rep.count("nontrivial_count", 1);
    }
    if form != 0 {
        rep.count("lazy_input_cases", 1);
    }
    match check_form(input, capacity, small, form) {
        Ok(tie_dependent) => {
            if tie_dependent {
                rep.count("accepted_under_non_input_tie_order", 1);
            }
        }
        Err(msg) => {
            let sig = if msg.contains("panicked") {
                "panic"
            } else if msg.contains("not the classical") {
                "not-classical"
            } else if msg.contains("evicts") {
                "wrong-eviction-count"
            } else if msg.contains("non-empty plan") {
                "plan-within-capacity"
            } else {
                "identity"
            };
            rep.violation(
                format!("planner:{}", sig),
                format!("n={} capacity={} input as {}: {}", n, capacity, FORMS[form as usize], msg),
                case_json_form(input, capacity, form),
            );
        }
    }
}

pub fn run(tier: Tier, shard: Shard, rep: &mut Report) {
    let max_n: usize = if tier == Tier::Quick { 7 } else { 8 };
    let lazy_n: usize = if tier == Tier::Quick { 5 } else { 7 };
    rep.rule = format!(
        "every sequence of n <= {} entries over 4 ranks x 2 access flags x every capacity 0..=n_max+1 (and, for n <= 4, capacities isize::MAX-1 .. isize::MAX+1, usize::MAX-1, usize::MAX), \
         fed to the real second_chance::Update::new and compared with the classical clock queue under \
         some order of equal ranks (input order, then the order read off the output, then brute force over \
         tie-group permutations); for n <= {} the same entries are also handed over as a lazy iterator under each of \
         4 size_hint answers (0,None) (0,Some(n)) (n/2,Some(n+3)) (n,None) x capacities 0..=n+1 and usize::MAX; \
         inputs of 20, 24, 33 and 64 entries (5 rank patterns x 5 flag patterns) at every capacity 0..=n+1; \
         entries whose access bit is live (n <= 4, thorough 6: every pair of answers to the first and to later looks, both input orders, \
         every capacity): exactly n - capacity evictions, nothing twice, classical for some reported flags; \
         ten inputs of 1500 and 4000 64-byte entries planned in a forked child whose allocator refuses every request above 24 n bytes \
         (a returned plan is still the classical one; an abort is not a plan); \
         entries whose rank is live (n <= 3, thorough 4: distinct first-look ranks in every order, each entry keeping its rank or moving to any tie-free other one, every flag vector, every capacity): classical for some ranks the entries reported; \
         zero-sized entries (all idle, all busy) and one-byte entries with distinct ranks, n <= 6 resp. 5, every flag vector, every capacity 0..=n+1 \
         (the plan does not depend on the size of an entry, and nothing panics); \
         plus enumerated large families (thorough). Non-trivial = n > capacity \
         and (a tie or an accessed entry is present). All cases are distinct by construction.",
        max_n, lazy_n
    );
    rep.assumptions = vec![
        "the Entry implementation used by raw_cache (mtime rank, atime>=mtime flag) is covered by C07, not here".into(),
    ];
    // silence the default panic message for expected catch_unwind
    let mut seq_no: u64 = 0;
    for n in 0..=max_n {
        let total = 8u64.pow(n as u32);
        for code in 0..total {
            seq_no += 1;
            if !shard.mine(seq_no) {
                continue;
            }
            let mut c = code;
            let input: Vec<(u64, bool)> = (0..n)
                .map(|_| {
                    let d = c % 8;
                    c /= 8;
                    (d / 2, d % 2 == 1)
                })
                .collect();
            // capacities around the signed/unsigned boundary too ("unbounded" is usize::MAX in the crate itself)
            let huge = [isize::MAX as usize - 1, isize::MAX as usize, isize::MAX as usize + 1, usize::MAX - 1, usize::MAX];
            if n <= 4 {
                for &capacity in &huge {
                    record(rep, &input, capacity, true);
                }
            }
            // the same entries handed over lazily, under every size_hint an honest iterator may give
            if n <= lazy_n {
                for form in 1..FORMS.len() as u8 {
                    for capacity in 0..=(n + 1) {
                        record_form(rep, &input, capacity, true, form);
                    }
                    record_form(rep, &input, usize::MAX, true, form);
                }
            }
            for capacity in 0..=(max_n + 1) {
                record(rep, &input, capacity, true);
                if seq_no % 100_003 == 0 && capacity == n.saturating_sub(2) {
                    rep.sample(case_json(&input, capacity));
                }
            }
        }
    }
    rep.fact("max_n_exhaustive", json!(max_n));
    // mid-sized inputs at EVERY capacity 0..=n+1 (thresholds in the amount to evict that small n cannot reach)
    {
        let mut mid_no = 0u64;
        let ns: &[usize] = if tier == Tier::Quick { &[20, 24, 33, 64] } else { &[20, 21, 24, 33, 64, 100, 257] };
        for &n in ns {
            for rp in 0..5 {
                for fp in 0..5 {
                    let input: Vec<(u64, bool)> = (0..n)
                        .map(|i| {
                            let rank = match rp {
                                0 => 7,
                                1 => i as u64,
                                2 => (n - i) as u64,
                                3 => (i % 3) as u64,
                                _ => (i as u64).wrapping_mul(0x9E3779B97F4A7C15),
                            };
                            let acc = match fp {
                                0 => false,
                                1 => true,
                                2 => i % 2 == 0,
                                3 => i < n / 2,
                                _ => i % 5 == 4,
                            };
                            (rank, acc)
                        })
                        .collect();
                    for capacity in 0..=(n + 1) {
                        mid_no += 1;
                        if !shard.mine(mid_no) {
                            continue;
                        }
                        record(rep, &input, capacity, false);
                        rep.count("mid_size_cases", 1);
                    }
                }
            }
        }
    }
    if tier == Tier::Thorough {
        let mut fam_no = 0u64;
        for &n in &[100usize, 1000, 5000] {
            for rp in 0..5 {
                for fp in 0..5 {
                    let input: Vec<(u64, bool)> = (0..n)
                        .map(|i| {
                            let rank = match rp {
                                0 => 7,
                                1 => i as u64,
                                2 => (n - i) as u64,
                                3 => (i % 2) as u64,
                                _ => (i as u64).wrapping_mul(0x9E3779B97F4A7C15),
                            };
                            let acc = match fp {
                                0 => false,
                                1 => true,
                                2 => i % 2 == 0,
                                3 => i < n / 2,
                                _ => i >= n / 2,
                            };
                            (rank, acc)
                        })
                        .collect();
                    for &capacity in &[0usize, 1, n / 2, n - 1, n, n + 1, usize::MAX] {
                        fam_no += 1;
                        if !shard.mine(fam_no) {
                            continue;
                        }
                        record(rep, &input, capacity, false);
                        rep.count("large_family_cases", 1);
                    }
                }
            }
        }
    }
    if shard.index == 0 {
        rep.sample(case_json(&[(1, true), (1, false), (0, true), (2, false)], 2));
    }
    live_bits_section(tier, shard, rep);
    refused_allocation_section(shard, rep);
    entry_shapes_section(shard, rep);
    live_rank_section(tier, shard, rep);
}

/// Entries that occupy no memory at all (interchangeable permits): rank and flag are properties of the type.
struct Unit<const ACCESSED: bool>;

impl<const ACCESSED: bool> Entry for Unit<ACCESSED> {
    type Rank = u8;
    fn rank(&self) -> u8 {
        0
    }
    fn accessed(&self) -> bool {
        ACCESSED
    }
}

/// A one-byte entry: rank in the high bits, flag in bit 0 (all entries of one input are given distinct ranks, so
/// the byte identifies the entry).
struct Byte(u8);

impl Entry for Byte {
    type Rank = u8;
    fn rank(&self) -> u8 {
        self.0 >> 1
    }
    fn accessed(&self) -> bool {
        self.0 & 1 == 1
    }
}

/// The planner is generic over the entry type: the plan may not depend on how many bytes an entry occupies.  Zero-sized
/// entries (all idle, all busy) and one-byte entries, n <= 6, every capacity 0..=n+1: the counts (and, for the
/// one-byte entries, the identities) are the classical ones, and nothing panics.
fn entry_shapes_section(shard: Shard, rep: &mut Report) {
    fn unit_case<const A: bool>(n: usize, capacity: usize) -> Result<(usize, usize), String> {
        let entries: Vec<Unit<A>> = (0..n).map(|_| Unit::<A>).collect();
        match std::panic::catch_unwind(move || {
            let plan = Update::new(entries, capacity);
            (plan.to_evict.len(), plan.to_move_back.len())
        }) {
            Ok(r) => Ok(r),
            Err(e) => Err(e.downcast_ref::<String>().cloned().or_else(|| e.downcast_ref::<&str>().map(|s| s.to_string())).unwrap_or_default()),
        }
    }
    let mut no = 0u64;
    for n in 0..=6usize {
        for capacity in 0..=n + 1 {
            for accessed in [false, true] {
                no += 1;
                if !shard.mine(no) {
                    continue;
                }
                rep.evaluations += 1;
                rep.states += 1;
                rep.transitions += 1;
                rep.traces += 1;
                rep.count("zero_sized_entry_cases", 1);
                if n > capacity {
                    rep.count("nontrivial_count", 1);
                }
                let order: Vec<(u32, bool)> = (0..n).map(|i| (i as u32, accessed)).collect();
                let want = classical(&order, capacity);
                let got = if accessed { unit_case::<true>(n, capacity) } else { unit_case::<false>(n, capacity) };
                let msg = match got {
                    Err(p) => Some(format!("the planner panicked: {}", p)),
                    Ok((e, m)) if (e, m) != (want.0.len(), want.1.len()) => Some(format!("{} evictions and {} re-queued entries, the classical queue gives {} and {}", e, m, want.0.len(), want.1.len())),
                    _ => None,
                };
                if let Some(m) = msg {
                    rep.violation("planner:entry-shape", format!("n={} zero-sized entries (accessed={}) capacity={}: {}", n, accessed, capacity, m), json!({"entry_shapes": true}));
                }
            }
        }
    }
    for n in 1..=5usize {
        for flags in 0..(1u32 << n) {
            for capacity in 0..=n + 1 {
                no += 1;
                if !shard.mine(no) {
                    continue;
                }
                rep.evaluations += 1;
                rep.states += 1;
                rep.transitions += 1;
                rep.traces += 1;
                rep.count("one_byte_entry_cases", 1);
                // input order is the reverse of the rank order
                let bytes: Vec<u8> = (0..n).rev().map(|i| ((i as u8) << 1) | ((flags >> i) & 1) as u8).collect();
                let order: Vec<(u32, bool)> = (0..n).map(|i| (i as u32, (flags >> i) & 1 == 1)).collect();
                let want = classical(&order, capacity);
                let entries: Vec<Byte> = bytes.iter().map(|&b| Byte(b)).collect();
                let got = std::panic::catch_unwind(move || {
                    let plan = Update::new(entries, capacity);
                    (plan.to_evict.iter().map(|e| (e.0 >> 1) as u32).collect::<Vec<_>>(), plan.to_move_back.iter().map(|e| (e.0 >> 1) as u32).collect::<Vec<_>>())
                });
                let msg = match got {
                    Err(_) => Some("the planner panicked".to_string()),
                    Ok(g) if g != want => Some(format!("plan {:?}, the classical queue gives {:?}", g, want)),
                    _ => None,
                };
                if let Some(m) = msg {
                    rep.violation("planner:entry-shape", format!("n={} one-byte entries flags={:#b} capacity={}: {}", n, flags, capacity, m), json!({"entry_shapes": true}));
                }
            }
        }
    }
}

/// An entry whose access bit is live (set or cleared by readers while the planner runs): the first look answers
/// `first`, every later look `later`.
struct Live {
    id: u32,
    rank: u64,
    first: bool,
    later: bool,
    looks: std::cell::Cell<u32>,
}

impl Entry for Live {
    type Rank = u64;
    fn rank(&self) -> u64 {
        self.rank
    }
    fn accessed(&self) -> bool {
        let n = self.looks.get();
        self.looks.set(n + 1);
        if n == 0 {
            self.first
        } else {
            self.later
        }
    }
}

/// Distinct ranks (so no tie question), every entry's bit possibly changing between two looks: the plan must still
/// evict exactly max(0, n - capacity) entries, return every entry at most once, and be the classical result for flags
/// each of which is one of the answers that entry gave.
fn live_bits_section(tier: Tier, shard: Shard, rep: &mut Report) {
    let max_n = if tier == Tier::Quick { 4usize } else { 6 };
    let mut no = 0u64;
    for n in 1..=max_n {
        for code in 0..4u64.pow(n as u32) {
            for reversed in [false, true] {
                for capacity in 0..=n {
                    no += 1;
                    if !shard.mine(no) {
                        continue;
                    }
                    let mut c = code;
                    let answers: Vec<(bool, bool)> = (0..n)
                        .map(|_| {
                            let d = c % 4;
                            c /= 4;
                            (d & 1 == 1, d & 2 == 2)
                        })
                        .collect();
                    let mut entries: Vec<Live> = (0..n).map(|i| Live { id: i as u32, rank: i as u64, first: answers[i].0, later: answers[i].1, looks: std::cell::Cell::new(0) }).collect();
                    if reversed {
                        entries.reverse();
                    }
                    rep.evaluations += 1;
                    rep.states += 1;
                    rep.transitions += 1;
                    rep.traces += 1;
                    rep.count("live_access_bit_cases", 1);
                    let case = json!({"live_bits": answers.iter().map(|a| json!([a.0, a.1])).collect::<Vec<_>>(), "capacity": capacity, "reversed": reversed});
                    let plan = std::panic::catch_unwind(std::panic::AssertUnwindSafe(|| Update::new(entries, capacity)));
                    let plan = match plan {
                        Ok(p) => p,
                        Err(_) => {
                            rep.violation("planner:panic", format!("n={} capacity={} with access bits changing between looks {:?}: planner panicked", n, capacity, answers), case);
                            continue;
                        }
                    };
                    let evict: Vec<u32> = plan.to_evict.iter().map(|e| e.id).collect();
                    let moved: Vec<u32> = plan.to_move_back.iter().map(|e| e.id).collect();
                    let mut seen = vec![0; n];
                    for &i in evict.iter().chain(moved.iter()) {
                        seen[i as usize] += 1;
                    }
                    let mut msg = None;
                    if seen.iter().any(|&c| c > 1) {
                        msg = Some("an entry appears twice in the plan".to_string());
                    } else if evict.len() != n.saturating_sub(capacity) {
                        msg = Some(format!("evicts {} entries, expected {}", evict.len(), n.saturating_sub(capacity)));
                    } else {
                        // classical result for some choice of one given answer per entry
                        let varying: Vec<usize> = (0..n).filter(|&i| answers[i].0 != answers[i].1).collect();
                        let mut explained = false;
                        for pick in 0..(1u32 << varying.len()) {
                            let order: Vec<(u32, bool)> = (0..n)
                                .map(|i| {
                                    let f = match varying.iter().position(|&v| v == i) {
                                        Some(j) => {
                                            if pick >> j & 1 == 1 {
                                                answers[i].1
                                            } else {
                                                answers[i].0
                                            }
                                        }
                                        None => answers[i].0,
                                    };
                                    (i as u32, f)
                                })
                                .collect();
                            if classical(&order, capacity) == (evict.clone(), moved.clone()) {
                                explained = true;
                                break;
                            }
                        }
                        if !explained {
                            msg = Some(format!("plan (evict {:?}, move back {:?}) is not the classical result for any flags the entries reported", evict, moved));
                        }
                    }
                    if let Some(m) = msg {
                        rep.violation("planner:live-bits", format!("n={} capacity={} answers(first look, later looks)={:?} reversed={}: {}", n, capacity, answers, reversed, m), case);
                    }
                }
            }
        }
    }
}

/// An entry whose rank is live (a writer re-stamps the file while the planner runs): the first look answers `first`,
/// every later look `later`.
struct LiveRank {
    id: u32,
    first: u64,
    later: u64,
    accessed: bool,
    looks: std::cell::Cell<u32>,
}

impl Entry for LiveRank {
    type Rank = u64;
    fn rank(&self) -> u64 {
        let n = self.looks.get();
        self.looks.set(n + 1);
        if n == 0 {
            self.first
        } else {
            self.later
        }
    }
    fn accessed(&self) -> bool {
        self.accessed
    }
}

/// Ranks that change between two looks.  First-look ranks are distinct even numbers; an entry either keeps its rank
/// or moves to an odd one (distinct per entry, so there is never a tie).  The plan must be the classical result for
/// ranks each of which is one of the answers that entry gave - a plan built from a mixture of moments that matches
/// no assignment places an entry where no look at the directory ever saw it.
fn live_rank_section(tier: Tier, shard: Shard, rep: &mut Report) {
    let max_n = if tier == Tier::Quick { 3usize } else { 4 };
    let mut no = 0u64;
    for n in 1..=max_n {
        // permutations of 0..n as first-look order
        let mut perms: Vec<Vec<u64>> = Vec::new();
        fn permute(cur: &mut Vec<u64>, used: &mut Vec<bool>, n: usize, out: &mut Vec<Vec<u64>>) {
            if cur.len() == n {
                out.push(cur.clone());
                return;
            }
            for i in 0..n {
                if !used[i] {
                    used[i] = true;
                    cur.push(i as u64);
                    permute(cur, used, n, out);
                    cur.pop();
                    used[i] = false;
                }
            }
        }
        permute(&mut Vec::new(), &mut vec![false; n], n, &mut perms);
        // per entry: 0 = rank unchanged, j >= 1 = moves to the odd rank 2j-1 (between the even ones, or past them all)
        let moves = n as u64 + 2;
        for perm in &perms {
            for mcode in 0..moves.pow(n as u32) {
                for flags in 0..(1u32 << n) {
                    for capacity in 0..=n {
                        no += 1;
                        if !shard.mine(no) {
                            continue;
                        }
                        let mut c = mcode;
                        let mut later: Vec<u64> = Vec::new();
                        let mut clash = false;
                        for i in 0..n {
                            let m = c % moves;
                            c /= moves;
                            let l = if m == 0 { 2 * perm[i] } else { 2 * m - 1 };
                            if m != 0 && later.contains(&l) {
                                clash = true;
                            }
                            later.push(l);
                        }
                        if clash {
                            continue; // two entries on the same odd rank: a tie, not enumerated here
                        }
                        let entries: Vec<LiveRank> = (0..n).map(|i| LiveRank { id: i as u32, first: 2 * perm[i], later: later[i], accessed: (flags >> i) & 1 == 1, looks: std::cell::Cell::new(0) }).collect();
                        rep.evaluations += 1;
                        rep.states += 1;
                        rep.transitions += 1;
                        rep.traces += 1;
                        rep.count("live_rank_cases", 1);
                        let case = json!({"live_ranks": true});
                        let plan = match std::panic::catch_unwind(std::panic::AssertUnwindSafe(|| Update::new(entries, capacity))) {
                            Ok(p) => p,
                            Err(_) => {
                                rep.violation("planner:panic", format!("n={} capacity={} with ranks changing between looks (first {:?}, later {:?}): planner panicked", n, capacity, perm, later), case);
                                continue;
                            }
                        };
                        let evict: Vec<u32> = plan.to_evict.iter().map(|e| e.id).collect();
                        let moved: Vec<u32> = plan.to_move_back.iter().map(|e| e.id).collect();
                        // some assignment "entry i had rank first[i] or later[i]" explains the plan
                        let mut explained = false;
                        for pick in 0..(1u32 << n) {
                            let mut order: Vec<(u64, u32, bool)> = (0..n).map(|i| (if (pick >> i) & 1 == 1 { later[i] } else { 2 * perm[i] }, i as u32, (flags >> i) & 1 == 1)).collect();
                            order.sort();
                            if order.windows(2).any(|w| w[0].0 == w[1].0) {
                                continue;
                            }
                            let q: Vec<(u32, bool)> = order.iter().map(|e| (e.1, e.2)).collect();
                            if classical(&q, capacity) == (evict.clone(), moved.clone()) {
                                explained = true;
                                break;
                            }
                        }
                        if !explained {
                            rep.violation(
                                "planner:live-ranks",
                                format!("n={} capacity={} first-look ranks {:?}, later ranks {:?}, flags {:#b}: plan (evict {:?}, move back {:?}) is not the classical result for any ranks the entries reported", n, capacity, perm.iter().map(|r| 2 * r).collect::<Vec<_>>(), later, flags, evict, moved),
                                case,
                            );
                        }
                    }
                }
            }
        }
    }
}

/// A 64-byte entry: whatever the planner reserves per entry is then clearly larger than what sorting needs per entry.
struct Big {
    id: u32,
    rank: u64,
    accessed: bool,
    _pad: [u8; 40],
}

impl Entry for Big {
    type Rank = u64;
    fn rank(&self) -> u64 {
        self.rank
    }
    fn accessed(&self) -> bool {
        self.accessed
    }
}

/// The planner under memory pressure: every single allocation request above `24 * n` bytes is refused (more than the
/// sort needs, less than a buffer of `capacity` 64-byte entries).  It may abort (then there is no plan), but a plan it
/// returns is the classical one.  Run in a forked child, because an infallible allocation that is refused aborts.
fn refused_allocation_section(shard: Shard, rep: &mut Report) {
    let mut no = 0u64;
    for n in [1500usize, 4000] {
        for (fp, capacity) in [(0usize, n - 3), (1, n - 3), (2, n - 1), (1, n / 2), (2, n - 40)] {
            no += 1;
            if !shard.mine(no) {
                continue;
            }
            let flags: Vec<bool> = (0..n)
                .map(|i| match fp {
                    0 => i < 2,
                    1 => i % 2 == 0,
                    _ => i < 30,
                })
                .collect();
            let entries: Vec<Big> = (0..n).map(|i| Big { id: i as u32, rank: i as u64, accessed: flags[i], _pad: [0; 40] }).collect();
            let order: Vec<(u32, bool)> = (0..n).map(|i| (i as u32, flags[i])).collect();
            let want = classical(&order, capacity);
            rep.evaluations += 1;
            rep.states += 1;
            rep.transitions += 1;
            rep.traces += 1;
            rep.count("refused_allocation_cases", 1);
            let pid = unsafe { libc::fork() };
            if pid == 0 {
                crate::ALLOC_LIMIT.with(|c| c.set(24 * n));
                let plan = Update::new(entries, capacity);
                let evict: Vec<u32> = plan.to_evict.iter().map(|e| e.id).collect();
                let moved: Vec<u32> = plan.to_move_back.iter().map(|e| e.id).collect();
                let same = evict == want.0 && moved == want.1;
                unsafe { libc::_exit(if same { 0 } else { 7 }) };
            }
            let mut status: libc::c_int = 0;
            unsafe { libc::waitpid(pid, &mut status, 0) };
            if libc::WIFEXITED(status) && libc::WEXITSTATUS(status) == 7 {
                rep.violation(
                    "planner:not-classical-under-memory-pressure",
                    format!("n={} capacity={} flag pattern {}: with allocation requests above {} bytes refused, the planner returned a plan that is not the classical Second Chance result", n, capacity, fp, 24 * n),
                    json!({"refused_allocation": true}),
                );
            } else if !(libc::WIFEXITED(status) && libc::WEXITSTATUS(status) == 0) {
                rep.count("refused_allocation_aborted", 1);
            }
        }
    }
}

pub fn replay(case: &Value, rep: &mut Report) {
    if case.get("refused_allocation").is_some() {
        refused_allocation_section(Shard { index: 0, count: 1 }, rep);
        return;
    }
    if case.get("live_ranks").is_some() {
        live_rank_section(Tier::Thorough, Shard { index: 0, count: 1 }, rep);
        return;
    }
    if case.get("entry_shapes").is_some() {
        entry_shapes_section(Shard { index: 0, count: 1 }, rep);
        return;
    }
    if case.get("live_bits").is_some() {
        live_bits_section(Tier::Thorough, Shard { index: 0, count: 1 }, rep);
        return;
    }
    let (input, cap) = parse_case(case);
    let form = case["form"].as_u64().unwrap_or(0) as u8;
    record_form(rep, &input, cap, input.len() <= 8, form);
}
