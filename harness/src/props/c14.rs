//! C14 — a configured consistency checker sees every redundant copy.
use crate::ops::{Act, Res};
use crate::props::stackmx::*;
use crate::report::{Report, Shard, Tier};
use crate::shim::Kind;
use crate::world;
use serde_json::Value;

pub fn check(run: &CellRun) -> Vec<(String, String)> {
    let cell = &run.cell;
    let m = model(cell);
    let mut bad = Vec::new();
    let out = &run.outcome;
    // result class
    if !result_matches(cell, &m.result, &out.res) {
        let sig = match (&m.result, &out.res) {
            (Expect::Mismatch, Res::Hit(_)) | (Expect::Mismatch, Res::HitUnread) => "mismatch-accepted",
            (Expect::Mismatch, Res::Err(..)) if cell.checker == 2 => "panic-swallowed",
            (Expect::Mismatch, _) => "mismatch-wrong-outcome",
            (Expect::Hit(_), Res::Err(..)) | (Expect::Hit(_), Res::Panic(_)) => "spurious-failure",
            (_, Res::Panic(_)) => "panic",
            _ => "result",
        };
        bad.push((sig.into(), format!("returned {}, expected {:?}", out.res.label(), m.result)));
    }
    let success = matches!(out.res, Res::Hit(_) | Res::HitUnread);
    if cell.checker == 1 && success && matches!(m.result, Expect::Hit(_)) {
        // every other present copy was an argument of some invocation
        let seen: std::collections::BTreeSet<u64> = run.check_log.iter().flat_map(|(a, b)| [*a, *b]).collect();
        for &lvl in &m.must_compare {
            let ino = run.copies[lvl].as_ref().unwrap().1;
            if !seen.contains(&ino) {
                bad.push((
                    "copy-not-checked".into(),
                    format!("the copy in level {} was never shown to the checker (log: {:?})", lvl, run.check_log),
                ));
            }
        }
        if !m.must_compare.is_empty() {
            let first_ino = run.copies[m.first.unwrap()].as_ref().unwrap().1;
            if !seen.contains(&first_ino) {
                bad.push(("first-not-checked".into(), "the first copy was never an argument of the checker".into()));
            }
        }
        if m.compares_populate {
            // one invocation must involve an inode that is not a planted copy (the populated temp)
            let planted: std::collections::BTreeSet<u64> = run.copies.iter().flatten().map(|c| c.1).collect();
            if !run.check_log.iter().any(|(a, b)| !planted.contains(a) || !planted.contains(b)) {
                bad.push(("populate-not-checked".into(), "the populated value was never compared with the accepted hit".into()));
            }
        }
    }
    if cell.checker == 0 {
        if !run.check_log.is_empty() {
            bad.push(("checker-called".into(), "checker invoked although none is configured".into()));
        }
        // later copies are not consulted
        if let Some(f) = m.first {
            let w = if cell.has_writer() { 1 } else { 0 };
            for lvl in (f + 1).max(w)..cell.contents.len() {
                let dir = run.level_dirs[lvl].to_string_lossy().into_owned();
                if run.trace.iter().any(|e| e.kind == Kind::Open && e.path.as_ref().map(|p| p.starts_with(&dir)).unwrap_or(false)) {
                    bad.push(("later-level-consulted".into(), format!("level {} opened after an earlier hit without a checker", lvl)));
                }
            }
            // populate is not called on an accepted hit
            let accepted = matches!(cell.op, MOp::Ensure | MOp::Gou(Act::Accept) | MOp::Gou(Act::Promote));
            if accepted && out.populate_calls != 0 {
                bad.push(("populate-on-hit".into(), "populate called on an accepted hit without a checker".into()));
            }
        }
    }
    bad
}

pub fn cells() -> Vec<Cell> {
    let mut out = Vec::new();
    for (w, r) in shapes() {
        let levels: Vec<_> = w.iter().copied().chain(r.iter().copied()).collect();
        if levels.is_empty() {
            continue;
        }
        for contents in content_products(&levels) {
            let mut ops: Vec<(MOp, u8)> = vec![(MOp::Get, 0)];
            for pop in [1u8, 2, 3, 4, 5] {
                ops.push((MOp::Ensure, pop));
                for a in [Act::Accept, Act::Promote, Act::Replace] {
                    ops.push((MOp::Gou(a), pop));
                }
            }
            for (op, pop) in ops {
                for checker in [0u8, 1, 2, 3] {
                    out.push(Cell {
                        writer: w,
                        readers: r.clone(),
                        contents: contents.clone(),
                        op,
                        pop,
                        checker,
                        umask: 0o022,
                        auto_sync: true,
                        size: crate::world::Size::One,
                    });
                }
            }
        }
    }
    out
}

/// Fails the first open of a path with the given suffix.
pub struct FailOpenOf {
    pub suffix: String,
    pub errno: i32,
    pub done: std::sync::atomic::AtomicBool,
}

impl crate::shim::Controller for FailOpenOf {
    fn before(&self, ev: &crate::shim::Ev) -> crate::shim::Action {
        if ev.kind == Kind::Open
            && ev.path.as_ref().map(|p| p.ends_with(&self.suffix)).unwrap_or(false)
            && !self.done.swap(true, std::sync::atomic::Ordering::SeqCst)
        {
            return crate::shim::Action::Fail(self.errno);
        }
        crate::shim::Action::Proceed
    }
}

/// A copy that cannot be opened (EACCES, EIO, EMFILE) cannot have been accepted by the checker:
/// the lookup must not succeed as if that level did not hold the key.
fn unreadable_copy_cases(cell: &Cell, run: &CellRun, rep: &mut Report) {
    let m = model(cell);
    if cell.checker != 1 || m.must_compare.is_empty() || !matches!(run.outcome.res, Res::Hit(_)) {
        return;
    }
    let w = if cell.has_writer() { 1 } else { 0 };
    for &lvl in &m.must_compare {
        if lvl < w {
            continue;
        }
        let dirname = format!("r{}", lvl - w);
        let rel = run.copies[lvl].as_ref().unwrap().0.clone();
        for errno in [libc::EACCES, libc::EIO] {
            let ctl = std::sync::Arc::new(FailOpenOf {
                suffix: format!("/{}/{}", dirname, rel),
                errno,
                done: std::sync::atomic::AtomicBool::new(false),
            });
            CONTROLLER.with(|c| *c.borrow_mut() = Some(ctl.clone() as std::sync::Arc<dyn crate::shim::Controller>));
            let r2 = run_cell(cell);
            CONTROLLER.with(|c| *c.borrow_mut() = None);
            rep.evaluations += 1;
            rep.states += 1;
            rep.traces += 1;
            rep.transitions += r2.trace.len() as u64;
            rep.count("unreadable_copy_cases", 1);
            let fired = ctl.done.load(std::sync::atomic::Ordering::SeqCst);
            if fired && matches!(r2.outcome.res, Res::Hit(_) | Res::HitUnread) {
                rep.violation(
                    "checker:unreadable-copy-skipped",
                    format!(
                        "{}: opening the copy in level {} failed with errno {}, yet the lookup succeeded ({}) without that copy ever being shown to the checker",
                        cell.to_json(),
                        lvl,
                        errno,
                        r2.outcome.res.label()
                    ),
                    serde_json::json!({"cell": cell.to_json(), "unreadable_level": lvl, "errno": errno}),
                );
            }
        }
    }
}

fn record(cell: &Cell, rep: &mut Report) {
    rep.evaluations += 1;
    rep.states += 1;
    rep.traces += 1;
    let run = run_cell(cell);
    rep.transitions += run.trace.len() as u64;
    rep.outcomes.insert(world::fnv(format!("{}|{}|{}", cell.op.label(), cell.checker, run.outcome.res.label()).as_bytes()));
    let vals = cell.level_vals();
    let present: Vec<_> = vals.iter().flatten().collect();
    if cell.checker != 0 && present.len() >= 2 {
        rep.count("nontrivial_count", 1);
        if present.iter().any(|v| *v != present[0]) {
            rep.count("cells_with_disagreeing_copies", 1);
        }
    }
    for (sig, msg) in check(&run) {
        rep.violation(format!("checker:{}", sig), format!("{}: {}", cell.to_json(), msg), cell.to_json());
    }
    // the same cell through a builder driven differently: a checker set first and then cleared (or overridden by
    // the configured one), and the options given in the opposite order; nothing of that may change an answer
    if matches!(cell.op, MOp::Get | MOp::Ensure | MOp::Gou(_)) && cell.contents.iter().filter(|&&c| c != 0).count() >= 1 {
        for style in [3u8, 4] {
            crate::ops::BUILDER_STYLE.with(|b| b.set(style));
            let r2 = run_cell(cell);
            crate::ops::BUILDER_STYLE.with(|b| b.set(0));
            rep.evaluations += 1;
            rep.states += 1;
            rep.traces += 1;
            rep.transitions += r2.trace.len() as u64;
            rep.count("builder_style_cells", 1);
            let mut seen = std::collections::BTreeSet::new();
            for (sig, msg) in check(&r2) {
                if seen.insert(sig.clone()) {
                    let mut case = cell.to_json();
                    case["builder_style"] = serde_json::json!(style);
                    rep.violation(format!("checker:{}", sig), format!("{} [builder style {}]: {}", cell.to_json(), style, msg), case);
                }
            }
        }
    }
    unreadable_copy_cases(cell, &run, rep);
    // one directory registered twice on the read side, as a plain and as a sharded cache: two views, two levels
    if cell.readers.len() >= 2 && aliasable(cell.readers[0], cell.readers[1]) && KEY_VARIANT.with(|k| k.get()) == 0 {
        ALIASED_READERS.with(|a| a.set(true));
        let r2 = run_cell(cell);
        ALIASED_READERS.with(|a| a.set(false));
        rep.evaluations += 1;
        rep.states += 1;
        rep.traces += 1;
        rep.transitions += r2.trace.len() as u64;
        rep.count("aliased_directory_cells", 1);
        let mut seen = std::collections::BTreeSet::new();
        for (sig, msg) in check(&r2) {
            // (which level a path belongs to cannot be told from the path when two levels share a directory)
            if sig == "later-level-consulted" {
                continue;
            }
            if seen.insert(sig.clone()) {
                let mut case = cell.to_json();
                case["aliased_readers"] = serde_json::json!(true);
                rep.violation(format!("checker:{}", sig), format!("{} [the first two read-only levels are views of one directory]: {}", cell.to_json(), msg), case);
            }
        }
    }
    // a copy that sits in its level's secondary shard, again with keys whose two hash images coincide (the secondary
    // shard then comes from the distinctness fix-up, wrapping around for the last shard)
    if cell.contents.iter().any(|&c| c >= 3) && KEY_VARIANT.with(|k| k.get()) == 0 {
        for variant in [1u8, 2] {
            KEY_VARIANT.with(|k| k.set(variant));
            let r2 = run_cell(cell);
            KEY_VARIANT.with(|k| k.set(0));
            rep.evaluations += 1;
            rep.states += 1;
            rep.traces += 1;
            rep.transitions += r2.trace.len() as u64;
            rep.count("coinciding_image_cells", 1);
            let mut seen = std::collections::BTreeSet::new();
            for (sig, msg) in check(&r2) {
                if seen.insert(sig.clone()) {
                    let mut case = cell.to_json();
                    case["key_variant"] = serde_json::json!(variant);
                    rep.violation(format!("checker:{}", sig), format!("{} [key variant {}]: {}", cell.to_json(), variant, msg), case);
                }
            }
        }
    }
}

/// Copies of very different sizes: the library's byte-equality checkers must reject a first copy
/// that is a strict prefix of a later one (empty, or cut at a multiple of any plausible chunk size),
/// and the reverse, and accept identical copies of every size.
fn size_cases(shard: Shard, rep: &mut Report) {
    use crate::ops::{Checker, Dirs, Front, Op, Pop, StackCfg};
    use crate::world::Scratch;
    let full: Vec<u8> = (0..(131072 + 5)).map(|i| (i % 251) as u8).collect();
    let cuts = [0usize, 1, 4096, 65536, 131072, 131072 + 4];
    let mut no = 0u64;
    for &cut in &cuts {
        for reverse in [false, true] {
            for writer in [false, true] {
                for checker in [Checker::ByteEq, Checker::Panicking, Checker::Counting] {
                    for opk in 0..2u8 {
                        no += 1;
                        if !shard.mine(no) {
                            continue;
                        }
                        crate::run::reset_env();
                        let sc = Scratch::new();
                        let dirs = Dirs::under(&sc.root, 2);
                        let (first, later): (&[u8], &[u8]) = if reverse { (&full[..], &full[..cut]) } else { (&full[..cut], &full[..]) };
                        let old = crate::run::base_time_ns() as i128 - 86_400_000_000_000;
                        let first_dir = if writer { dirs.write.clone() } else { dirs.reads[0].clone() };
                        crate::world::plant(&first_dir.join("key"), first, 0o444, old - 120_000_000_000, old);
                        crate::world::plant(&dirs.reads[1].join("key"), later, 0o444, old - 120_000_000_000, old);
                        let cfg = StackCfg {
                            writer: if writer { Some((Front::Plain, 1 << 40)) } else { None },
                            readers: vec![Front::Plain, Front::Plain],
                            checker,
                            auto_sync: true,
                        };
                        let cache = crate::ops::build(&cfg, &dirs, None);
                        let k = crate::ops::K::new("key", 1, 2);
                        let op = if opk == 0 { Op::GetNoRead(k) } else { Op::Ensure(k, Pop::NotFound) };
                        let (r, trace) = crate::run::as_participant(0, 0, || crate::ops::exec(&cache, &dirs, &op, &Default::default()));
                        rep.evaluations += 1;
                        rep.states += 1;
                        rep.traces += 1;
                        rep.transitions += trace.len() as u64;
                        rep.count("size_cases", 1);
                        let res = match r {
                            Ok(o) => o.res,
                            Err(p) => Res::Panic(p),
                        };
                        let accepted = matches!(res, Res::Hit(_) | Res::HitUnread);
                        let identical = first == later;
                        let bad = if identical { !accepted } else { accepted };
                        if bad {
                            rep.violation(
                                if identical { "checker:identical-copies-rejected" } else { "checker:different-sizes-accepted" },
                                format!(
                                    "first copy of {} bytes, later copy of {} bytes (the shorter is a prefix of the longer), checker {:?}, {}: returned {}",
                                    first.len(),
                                    later.len(),
                                    checker,
                                    op.label(),
                                    res.label()
                                ),
                                serde_json::json!({"size_case": true, "cut": cut, "reverse": reverse, "writer": writer}),
                            );
                        }
                    }
                }
            }
        }
    }
}

pub fn run(_tier: Tier, shard: Shard, rep: &mut Report) {
    set_tier(_tier);
    rep.rule = "full matrix: every stack of 1-3 levels (write side optional, each level plain or sharded(3)) x per-level content \
        {nothing, A, B} (sharded: primary or secondary shard) x {get, ensure, get_or_update x {Accept, Promote, Replace}} x populate \
        {A, B, NotFound, other error} x checker {none, inode-logging byte equality, panicking byte equality, library byte equality}; \
        oracle: success iff all present copies (and the populated value when compared) are identical, every redundant copy's inode \
        appears in the checker's invocation log, errors/panics reach the caller, no checker => later levels not opened and populate \
        not called on an accepted hit; for every successful checker cell, each redundant copy in a read-only level is made \
        unreadable in turn (its open fails with EACCES / EIO): the lookup must then not succeed; copies of very different sizes (first copy empty or cut at 1, 4096, 65536, 131072 \
        bytes of a 131077-byte value, and the reverse) through the library's own checkers; cells whose first two read-only levels differ in kind again with both naming one and the same directory (a plain and a sharded view of it); cells with a copy in a secondary shard again with keys whose two hash images coincide (first shard, and last shard with the fix-up wrapping). Non-trivial = checker configured and >= 2 copies present."
        .into();
    rep.assumptions = vec!["checker invocations are identified by the (dev, inode) of both file arguments".into()];
    let all = cells();
    for (i, cell) in all.iter().enumerate() {
        if !shard.mine(i as u64) {
            continue;
        }
        record(cell, rep);
        if i % 9001 == 0 {
            rep.sample(cell.to_json());
        }
    }
    rep.fact("cells_total", serde_json::json!(all.len()));
    size_cases(shard, rep);
}

pub fn replay(case: &Value, rep: &mut Report) {
    if case.get("size_case").is_some() {
        size_cases(Shard { index: 0, count: 1 }, rep);
        return;
    }
    let cell = case.get("cell").unwrap_or(case);
    // (key variants are re-run by record itself)
    record(&Cell::from_json(cell), rep);
}
