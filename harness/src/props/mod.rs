pub mod c08;
