//! C02 — a process crash at any point leaves every cache directory valid and usable.
//!
//! For every scenario and every call index k of its fault-free execution, a
//! forked child runs the operation and the shim `_exit`s *instead of*
//! executing call k.  The parent then examines the surviving tree.
use crate::ops;
use crate::props::scn::{self, Scn};
use crate::report::{Report, Shard, Tier};
use crate::run;
use crate::shim::{self, Action, Controller, Ev};
use serde_json::{json, Value};
use std::sync::atomic::{AtomicU64, Ordering::SeqCst};
use std::sync::Arc;

pub struct DieAt {
    pub k: u64,
    pub n: AtomicU64,
}

impl Controller for DieAt {
    fn before(&self, _ev: &Ev) -> Action {
        if self.n.fetch_add(1, SeqCst) == self.k {
            Action::Die
        } else {
            Action::Proceed
        }
    }
}

/// Fails call `k1` (if it has kind `kind`) as told, then dies instead of executing call `k2`.
pub struct FailThenDie {
    pub k1: u64,
    pub kind: shim::Kind,
    pub action: Action,
    pub k2: u64,
    pub n: AtomicU64,
}

impl Controller for FailThenDie {
    fn before(&self, ev: &Ev) -> Action {
        let i = self.n.fetch_add(1, SeqCst);
        if i == self.k1 && ev.kind == self.kind {
            return self.action;
        }
        if i == self.k2 {
            return Action::Die;
        }
        Action::Proceed
    }
}

/// An error path is a path too: a publication step (rename/link) is refused (EXDEV, EMLINK, ...), the operation
/// does whatever it does about that, and the process dies at any later call.  Same oracle as `crash_at`.
fn fault_then_crash_section(tier: Tier, shard: Shard, rep: &mut Report, no: &mut u64) {
    use crate::props::c18::{plausible, FailAt};
    use std::sync::Mutex;
    for scn in scn::all_scenarios() {
        if scn.debris() || matches!(scn.op.as_str(), "get" | "touch" | "accept") {
            continue;
        }
        let (n, trace, _res) = fault_free(&scn);
        for k1 in 0..n {
            if !matches!(trace[k1].kind, shim::Kind::Rename | shim::Kind::Link) {
                continue;
            }
            let actions: Vec<Action> = if tier == Tier::Thorough { plausible(&trace[k1], false) } else { vec![Action::Fail(libc::EXDEV)] };
            for a in actions {
                // the faulted, crash-free run tells how many calls follow
                let w = scn::setup(&scn);
                let cache = w.cache();
                let force = w.force_maintenance;
                let ctl = Arc::new(FailAt { faults: vec![(k1 as u64, a)], kinds: vec![Some(trace[k1].kind)], n: AtomicU64::new(0), hit: Mutex::new(vec![]) });
                shim::set_controller(Some(ctl.clone()));
                let (_r, t) = run::as_participant(0, 0, || {
                    if force {
                        run::trigger_fire_next(u64::MAX);
                    } else {
                        run::trigger_never();
                    }
                    ops::exec(&cache, &w.dirs, &w.op, &Default::default())
                });
                shim::set_controller(None);
                drop(w);
                for k2 in (k1 + 1)..=t.len() {
                    *no += 1;
                    if !shard.mine(*no) {
                        continue;
                    }
                    rep.evaluations += 1;
                    rep.states += 1;
                    rep.traces += 1;
                    rep.count("fault_then_crash_states", 1);
                    let w = scn::setup(&scn);
                    let before = w.snapshot();
                    let cache = w.cache();
                    let pid = unsafe { libc::fork() };
                    if pid == 0 {
                        shim::set_controller(Some(Arc::new(FailThenDie { k1: k1 as u64, kind: trace[k1].kind, action: a, k2: k2 as u64, n: AtomicU64::new(0) })));
                        let _ = run::as_participant(0, 0, || {
                            if force {
                                run::trigger_fire_next(u64::MAX);
                            } else {
                                run::trigger_never();
                            }
                            ops::exec(&cache, &w.dirs, &w.op, &Default::default())
                        });
                        unsafe { libc::_exit(0) };
                    }
                    let mut status: libc::c_int = 0;
                    unsafe { libc::waitpid(pid, &mut status, 0) };
                    shim::clock_set_ticks(shim::clock_ticks() + 10_000);
                    let after = w.snapshot();
                    rep.transitions += k2 as u64;
                    let mut bad = scn::tree_violations(&w, &before, &after);
                    bad.extend(scn::followup_violations(&w, false));
                    for (sig, msg) in bad {
                        rep.violation(
                            format!("crash:after-fault-{}", sig),
                            format!("{} with call {} ({}) answered {:?}, dying instead of call {}: {}", scn.to_json(), k1, trace[k1].func, a, k2, msg),
                            json!({"fault_then_crash": true, "scenario": scn.to_json()}),
                        );
                    }
                }
            }
        }
    }
}

/// Number of intercepted calls of the fault-free execution, and its trace.
pub fn fault_free(scn: &Scn) -> (usize, Vec<Ev>, ops::Res) {
    let w = scn::setup(scn);
    let cache = w.cache();
    let force = w.force_maintenance;
    let (r, trace) = run::as_participant(0, 0, || {
        if force {
            run::trigger_fire_next(u64::MAX);
        } else {
            run::trigger_never();
        }
        ops::exec(&cache, &w.dirs, &w.op, &Default::default())
    });
    let res = match r {
        Ok(o) => o.res,
        Err(p) => ops::Res::Panic(p),
    };
    (trace.len(), trace, res)
}

/// Runs the scenario with the process dying instead of call `k`. Returns violations
/// and whether the child actually died at k.
pub fn crash_at(scn: &Scn, k: u64, second: Option<u64>, rep: &mut Report) -> (Vec<(String, String)>, bool) {
    crash_at_opt(scn, k, second, rep, true)
}

/// `check_reclaim`: whether the debris of this crash must be gone two hours later (see `followup_violations`).
pub fn crash_at_opt(scn: &Scn, k: u64, second: Option<u64>, rep: &mut Report, check_reclaim: bool) -> (Vec<(String, String)>, bool) {
    let w = scn::setup(scn);
    let before = w.snapshot();
    let cache = w.cache();
    let force = w.force_maintenance;
    let pid = unsafe { libc::fork() };
    if pid == 0 {
        // child: single-threaded copy of a single-threaded parent
        shim::set_controller(Some(Arc::new(DieAt { k, n: AtomicU64::new(0) })));
        let _ = run::as_participant(0, 0, || {
            if force {
                run::trigger_fire_next(u64::MAX);
            } else {
                run::trigger_never();
            }
            ops::exec(&cache, &w.dirs, &w.op, &Default::default())
        });
        unsafe { libc::_exit(0) };
    }
    let mut status: libc::c_int = 0;
    unsafe { libc::waitpid(pid, &mut status, 0) };
    let code = if libc::WIFEXITED(status) { libc::WEXITSTATUS(status) } else { -1 };
    let died = code == 137;
    let mut bad = Vec::new();
    if code != 137 && code != 0 {
        bad.push(("child-abnormal".into(), format!("child ended with status {:#x}", status)));
    }
    // the survivors' clock is past anything the dead process stamped
    shim::clock_set_ticks(shim::clock_ticks() + 10_000);
    let after = w.snapshot();
    rep.transitions += k;
    bad.extend(scn::tree_violations(&w, &before, &after));
    if let Some(k2) = second {
        // crash during recovery: a second process dies inside its own maintenance + set
        let pid = unsafe { libc::fork() };
        if pid == 0 {
            shim::set_controller(Some(Arc::new(DieAt { k: k2, n: AtomicU64::new(0) })));
            let c2 = w.cache();
            let _ = run::as_participant(1, 0, || {
                run::trigger_fire_next(u64::MAX);
                ops::exec(&c2, &w.dirs, &ops::Op::Set(scn::the_key(), crate::world::Val::new(20, crate::world::Size::One)), &Default::default())
            });
            unsafe { libc::_exit(0) };
        }
        unsafe { libc::waitpid(pid, &mut status, 0) };
        shim::clock_set_ticks(shim::clock_ticks() + 10_000);
        let after2 = w.snapshot();
        for (s, m) in scn::tree_violations(&w, &before, &after2) {
            bad.push((format!("second-crash-{}", s), m));
        }
    }
    bad.extend(scn::followup_violations(&w, check_reclaim));
    (bad, died)
}

/// Values staged in the cache's own `.kismet_temp` and dated one day ahead of the local clock (copied with their
/// timestamps, or written by a host whose clock runs ahead), handed to set/put by path and as temp-file objects, the
/// process dying at every call.  Once the library has stamped the file (its first timestamp update of the staged file
/// succeeded), the file's age is the library's doing: left behind by the crash, it is debris like any other and must be
/// gone after a maintenance two hours later.  (Before that stamp the file still carries the application's date, and is
/// only required to stay confined and harmless.)
fn future_dated_source_section(shard: Shard, rep: &mut Report, no: &mut u64) {
    const DAY: i64 = 86_400_000_000_000;
    for scn in scn::all_scenarios() {
        if !matches!(scn.op.as_str(), "set" | "put" | "set_temp_file" | "put_temp_file") || scn.debris() || !matches!(scn.front.as_str(), "plain" | "stack") {
            continue;
        }
        ops::set_staged_source(Some(DAY));
        let (n, trace, res) = fault_free(&scn);
        if res.is_err() || res.is_panic() {
            rep.violation("crash:staged-source-failed", format!("{} with a staged, future-dated source: {}", scn.to_json(), res.label()), json!({"future_dated_source": true}));
        }
        for k in 0..=(n as u64) {
            *no += 1;
            if !shard.mine(*no) {
                continue;
            }
            let stamped = trace[..(k as usize).min(trace.len())]
                .iter()
                .any(|e| e.kind == shim::Kind::Utimens && e.ok() && e.sets_mtime && e.path.as_deref().map(|p| p.contains("/.kismet_temp/")).unwrap_or(false));
            rep.evaluations += 1;
            rep.states += 1;
            rep.traces += 1;
            rep.count("future_dated_source_crash_states", 1);
            if stamped {
                rep.count("future_dated_source_crash_states_after_the_stamp", 1);
            }
            let (bad, _died) = crash_at_opt(&scn, k, None, rep, stamped);
            let at = trace.get(k as usize).map(|e| e.func).unwrap_or("end");
            for (sig, msg) in bad {
                rep.violation(
                    format!("crash:{}", sig),
                    format!("{} with the value staged in .kismet_temp and dated a day ahead, dying instead of call {} ({}): {}", scn.to_json(), k, at, msg),
                    json!({"future_dated_source": true, "scenario": scn.to_json()}),
                );
            }
        }
        ops::set_staged_source(None);
    }
    ops::set_staged_source(None);
}

fn case_json(scn: &Scn, k: u64, second: Option<u64>) -> Value {
    json!({"scenario": scn.to_json(), "die_instead_of_call": k, "second_crash_at": second})
}

fn record(scn: &Scn, k: u64, second: Option<u64>, n: usize, trace: &[Ev], rep: &mut Report) {
    rep.evaluations += 1;
    rep.states += 1;
    rep.traces += 1;
    let (bad, died) = crash_at(scn, k, second, rep);
    if died {
        rep.count("crash_states", 1);
        // non-trivial: the process had already changed something and had not finished
        let first_mut = trace.iter().position(|e| {
            use shim::Kind::*;
            e.ok() && matches!(e.kind, Rename | Link | Unlink | Mkdir | Chmod | Fchmod | Utimens | Write | CopyRange) || (e.kind == Open && (e.flags as i32 & libc::O_CREAT) != 0)
        });
        if let Some(f) = first_mut {
            if (k as usize) > f && (k as usize) < n {
                rep.nontrivial.insert(crate::world::fnv(format!("{}|{}|{:?}", scn.to_json(), k, second).as_bytes()));
            }
        }
    }
    let at = trace.get(k as usize).map(|e| e.func).unwrap_or("end");
    for (sig, msg) in bad {
        rep.violation(
            format!("crash:{}", sig),
            format!("{} dying instead of call {} ({}): {}", scn.to_json(), k, at, msg),
            case_json(scn, k, second),
        );
    }
}

pub fn run(tier: Tier, shard: Shard, rep: &mut Report) {
    rep.rule = "scenario = operation {set, put, set_temp_file, put_temp_file, ensure, get_or_update Replace/Accept, get, touch, \
        multi-chunk set/ensure, promotion} x pre-state {cache directory missing, empty (shard directories missing), key present, key \
        in its secondary shard, over capacity with read-marked and unmarked entries (maintenance evicts and re-queues), stale+fresh \
        debris in .kismet_temp, combinations} x front-end {plain, sharded, stacked}; for EVERY call index k of the fault-free trace a \
        forked child runs the operation and _exits instead of executing call k. Oracle on the surviving tree: every key-named file is \
        a complete read-only value for that key; everything else new is under .kismet_temp or is a kismet directory; a fresh handle's \
        maintenance brings an over-full directory down to its capacity, keeps young temp files and removes stale ones, and 2 h later reclaims all debris of the maintained directory; \
        get/touch/put/set/ensure through a fresh handle obey register semantics. Thorough adds a second crash at every call of the \
        recovering process's set+maintenance. Error paths too: each publication step (rename/link) of each write scenario is \
        refused with EXDEV (thorough: every plausible errno) and the process dies at each later call; same oracle. And set/put by path and by temp-file object (plain and stacked) with the value staged in the cache's own .kismet_temp and dated one day ahead of the local clock, dying at every call: same oracle, the two-hour reclaim clause applying from the library's own stamp of the file onwards. Non-trivial = death after the first mutating call and before the last call."
        .into();
    rep.assumptions = vec![
        "process death, not power loss: the kernel state survives intact (kismet does not sync directories)".into(),
        "the dying process is a forked copy of a single-threaded worker; _exit runs no destructors".into(),
    ];
    let scns = scn::all_scenarios();
    let mut no = 0u64;
    for scn in &scns {
        let (n, trace, res) = fault_free(scn);
        if res.is_panic() {
            rep.violation("crash:fault-free-panic", format!("{}: {}", scn.to_json(), res.label()), case_json(scn, u64::MAX, None));
        }
        for k in 0..=(n as u64) {
            no += 1;
            if !shard.mine(no) {
                continue;
            }
            record(scn, k, None, n, &trace, rep);
            if no % 1777 == 0 {
                rep.sample(json!({"case": case_json(scn, k, None), "call": trace.get(k as usize).map(|e| e.brief().replace("/dev/shm/", ""))}));
            }
        }
        if tier == Tier::Thorough && !scn.front.starts_with("stack") {
            // depth 2: for each first crash, the recovering set dies at each of its own calls
            // (bounded: recovery traces are <= ~60 calls)
            for k in 0..=(n as u64) {
                for k2 in (0..60u64).step_by(1) {
                    no += 1;
                    if !shard.mine(no) {
                        continue;
                    }
                    record(scn, k, Some(k2), n, &trace, rep);
                    rep.count("second_crash_states", 1);
                }
            }
        }
    }
    fault_then_crash_section(tier, shard, rep, &mut no);
    future_dated_source_section(shard, rep, &mut no);
    rep.fact("scenarios", json!(scns.len()));
    rep.fact("crash_points_total", json!(no));
}

pub fn replay(case: &Value, rep: &mut Report) {
    if case.get("future_dated_source").is_some() {
        let mut no = 0;
        future_dated_source_section(Shard { index: 0, count: 1 }, rep, &mut no);
        return;
    }
    if case.get("fault_then_crash").is_some() {
        let mut no = 0;
        fault_then_crash_section(Tier::Thorough, Shard { index: 0, count: 1 }, rep, &mut no);
        return;
    }
    let scn = Scn::from_json(&case["scenario"]);
    let k = case["die_instead_of_call"].as_u64().unwrap_or(0);
    let second = case["second_crash_at"].as_u64();
    let (n, trace, _) = fault_free(&scn);
    record(&scn, k, second, n, &trace, rep);
}
