//! C09 — reads mark entries as used without reordering; writes enqueue them fresh.
//!
//! E4 breadth-first search over operation sequences under every emulated access-time policy
//! and timestamp granularity; after every step the (mtime order, read mark) of every entry is
//! compared with an abstract queue, and after every marking step the *real* prune is run on a
//! clone of the directory to see that the next maintenance recognises the entry as used.
use crate::ops::{self, Dirs, Front, Op, Res, StackCfg, K};
use crate::report::{Report, Shard, Tier};
use crate::run;
use crate::shim;
use crate::world::{self, Scratch, Snapshot, Val};
use serde_json::{json, Value};
use std::collections::{BTreeMap, HashSet};
use std::path::{Path, PathBuf};

#[derive(Clone, Copy, Debug, PartialEq, Eq, Hash)]
pub struct Config {
    /// 0 plain, 1 sharded(2), 2 stacked (plain writer + a read-only level)
    pub front: u8,
    /// shim::ATIME_*
    pub policy: usize,
    pub gran_ns: i64,
    pub step_ns: i64,
    pub nkeys: usize,
    /// initial population: 0 = empty directory; 1 = every key present, a day old, distinct ages, all read since insertion
    /// (so that the first maintenance re-queues several entries at once); 2 = the same, none read; 3 = entries put there
    /// by another tool (cp, rsync, tar): mtime a day old at .9 s of its second, atime 0.4 s earlier in the same second;
    /// 4 = (sharded front-end) every key present, unread, in its *secondary* shard, which is then the directory observed:
    /// marking operations must find and mark the entries there (no maintenance symbols: nothing leaves that directory)
    pub init: u8,
}

impl Config {
    fn label(&self) -> String {
        format!(
            "{}/{}/g{}ms/step{}ms/k{}{}",
            ["plain", "sharded", "stack"][self.front as usize],
            ["noatime", "relatime", "strict"][self.policy],
            self.gran_ns / 1_000_000,
            self.step_ns / 1_000_000,
            self.nkeys,
            ["", "/all-read", "/all-unread", "/foreign", "/in-secondary-shard"][self.init as usize]
        )
    }
    fn to_json(&self) -> Value {
        json!({"front": self.front, "policy": self.policy, "gran_ns": self.gran_ns, "step_ns": self.step_ns, "nkeys": self.nkeys, "init": self.init})
    }
    fn from_json(v: &Value) -> Config {
        Config {
            front: v["front"].as_u64().unwrap() as u8,
            policy: v["policy"].as_u64().unwrap() as usize,
            gran_ns: v["gran_ns"].as_i64().unwrap(),
            step_ns: v["step_ns"].as_i64().unwrap(),
            nkeys: v["nkeys"].as_u64().unwrap() as usize,
            init: v["init"].as_u64().unwrap_or(0) as u8,
        }
    }
    fn keys(&self) -> Vec<K> {
        let mut v = vec![ops::key_for_shards("k1", 0, 1, 2), ops::key_for_shards("k2", 0, 1, 2), ops::key_for_shards("k3", 0, 1, 2)];
        v.truncate(self.nkeys);
        v
    }
}

#[derive(Clone, Copy, Debug, PartialEq, Eq, Hash)]
pub enum Sym {
    Set(u8, u8),
    Put(u8),
    GetRead(u8),
    GetDrop(u8),
    Touch(u8),
    Maintain(u8),
    /// (stacked front-end) ensure: a hit marks; a key held only by the read-only level (k1) is promoted, i.e. inserted
    /// fresh and unmarked; a miss everywhere is populated, inserted and then re-opened by the lookup that returns it
    Ensure(u8),
    /// a set (of value 0) / a put on which the handle's own maintenance fires, through a handle whose capacity is one
    /// less than the number of entries in the directory (so that the pass has an entry to evict, and re-queues the
    /// marked ones it meets first)
    SetMaint(u8),
    PutMaint(u8),
}

impl Sym {
    fn to_json(&self) -> Value {
        json!(format!("{:?}", self))
    }
    fn from_json(v: &Value) -> Sym {
        let s = v.as_str().unwrap();
        let nums: Vec<u8> = s.chars().filter(|c| c.is_ascii_digit() || *c == ',').collect::<String>().split(',').filter(|x| !x.is_empty()).map(|x| x.parse().unwrap()).collect();
        if s.starts_with("SetMaint") {
            Sym::SetMaint(nums[0])
        } else if s.starts_with("PutMaint") {
            Sym::PutMaint(nums[0])
        } else if s.starts_with("Set") {
            Sym::Set(nums[0], nums[1])
        } else if s.starts_with("Put") {
            Sym::Put(nums[0])
        } else if s.starts_with("GetRead") {
            Sym::GetRead(nums[0])
        } else if s.starts_with("GetDrop") {
            Sym::GetDrop(nums[0])
        } else if s.starts_with("Ensure") {
            Sym::Ensure(nums[0])
        } else if s.starts_with("Touch") {
            Sym::Touch(nums[0])
        } else {
            Sym::Maintain(nums[0])
        }
    }
}

fn alphabet(cfg: &Config) -> Vec<Sym> {
    let mut v = Vec::new();
    for k in 0..cfg.nkeys as u8 {
        v.push(Sym::Set(k, 0));
        v.push(Sym::Set(k, 1));
        v.push(Sym::Put(k));
        v.push(Sym::GetRead(k));
        v.push(Sym::GetDrop(k));
        v.push(Sym::Touch(k));
        if cfg.front == 2 {
            v.push(Sym::Ensure(k));
        }
        if cfg.init != 4 {
            v.push(Sym::SetMaint(k));
            v.push(Sym::PutMaint(k));
        }
    }
    if cfg.init != 4 {
        for c in 0..3u8 {
            v.push(Sym::Maintain(c));
        }
    }
    v
}

#[derive(Clone, Debug, PartialEq)]
struct MEntry {
    name: String,
    val: Val,
    marked: bool,
}

struct Live {
    sc: Scratch,
    dirs: Dirs,
    scfg: StackCfg,
    cache: kismet_cache::Cache,
    /// the directory all keys live in
    home: PathBuf,
    /// abstract queue, oldest first
    model: Vec<MEntry>,
}

fn open_live(cfg: &Config) -> Live {
    run::reset_env();
    shim::set_atime_policy(cfg.policy);
    shim::set_granularity_ns(cfg.gran_ns);
    // the clock phase relative to the granularity must not depend on when the process started
    let base = (run::base_time_ns() / 60_000_000_000) * 60_000_000_000;
    shim::clock_virtual(base, cfg.step_ns);
    let sc = Scratch::new();
    let dirs = Dirs::under(&sc.root, if cfg.front == 2 { 1 } else { 0 });
    let front = if cfg.front == 1 { Front::Sharded(2) } else { Front::Plain };
    let scfg = StackCfg {
        writer: Some((front, 1 << 40)),
        readers: if cfg.front == 2 { vec![Front::Plain] } else { vec![] },
        checker: ops::Checker::None,
        auto_sync: true,
    };
    let home = if cfg.front == 1 { dirs.write.join(ops::shard_dir_name(if cfg.init == 4 { 1 } else { 0 })) } else { dirs.write.clone() };
    if cfg.front == 2 {
        let old = base as i128 - 86_400_000_000_000;
        world::plant(&dirs.reads[0].join("other"), b"bystander", 0o444, old - 120_000_000_000, old);
        world::plant(&dirs.reads[0].join("k1"), &Val::one(20).bytes(), 0o444, old - 120_000_000_000, old);
    }
    let mut model = Vec::new();
    if cfg.init != 0 {
        let day = base as i128 - 86_400_000_000_000;
        for (i, k) in cfg.keys().iter().enumerate() {
            let m = day - ((cfg.nkeys - i) as i128) * 60_000_000_000 + if cfg.init == 3 { 900_000_000 } else { 0 };
            let val = Val::one(10 + i as u8);
            let a = match cfg.init {
                1 => m + 5_000_000_000,
                3 => m - 400_000_000,
                _ => m - 120_000_000_000,
            };
            world::plant(&home.join(&k.name), &val.bytes(), 0o444, a, m);
            model.push(MEntry { name: k.name.clone(), val, marked: cfg.init == 1 });
        }
    }
    let cache = ops::build(&scfg, &dirs, None);
    Live { sc, dirs, scfg, cache, home, model }
}

fn floor(t: i128, g: i64) -> i128 {
    if g <= 1 {
        t
    } else {
        t.div_euclid(g as i128) * g as i128
    }
}

/// name -> (mtime, atime, content, ino) of the key-named files of the home directory
fn dir_state(live: &Live, g: i64) -> BTreeMap<String, (i128, i128, Vec<u8>, u64)> {
    let snap: Snapshot = world::snapshot(&live.home);
    let mut m = BTreeMap::new();
    for (rel, n) in snap {
        if n.kind == 'f' && !rel.contains('/') && !rel.starts_with('.') {
            m.insert(rel, (floor(n.meta.mtime, g), floor(n.meta.atime, g), n.content.unwrap_or_default(), n.meta.ino));
        }
    }
    m
}

/// Runs the real prune on a clone of the home directory with capacity n-1 and reports whether
/// `name` survived and whether it was re-queued.
fn clone_and_prune(live: &Live, name: &str) -> Result<(bool, bool), String> {
    let clone = live.sc.path("clone");
    shim::passthrough(|| {
        let _ = std::fs::remove_dir_all(&clone);
        std::fs::create_dir_all(&clone).unwrap();
    });
    let snap = world::snapshot(&live.home);
    let mut n = 0;
    for (rel, node) in &snap {
        if node.kind == 'f' && !rel.contains('/') && !rel.starts_with('.') {
            world::plant(&clone.join(rel), node.content.as_deref().unwrap_or(&[]), node.meta.perm(), node.meta.atime, node.meta.mtime);
            n += 1;
        }
    }
    if n < 2 {
        return Ok((true, false));
    }
    let before = world::lstat(&clone.join(name)).map(|m| m.mtime);
    let ticks = shim::clock_ticks();
    let c2 = clone.clone();
    let (r, _t) = run::as_participant(7, 99, move || kismet_cache::raw_cache::prune(c2, n - 1));
    // the probe must not disturb the exploration's clock
    shim::clock_set_ticks(ticks);
    match r {
        Err(p) => return Err(format!("prune panicked: {}", p)),
        Ok(Err(e)) => return Err(format!("prune failed: {}", e)),
        Ok(Ok(_)) => {}
    }
    let after = world::lstat(&clone.join(name)).map(|m| m.mtime);
    Ok((after.is_some(), after.is_some() && after != before))
}

fn name_of_key(keys: &[ops::K], k: u8) -> String {
    keys[k as usize].name.clone()
}

fn step(live: &mut Live, cfg: &Config, sym: &Sym, rep: &mut Report, check: bool) -> Vec<(String, String)> {
    let mut bad = Vec::new();
    let keys = cfg.keys();
    let g = cfg.gran_ns;
    let before = dir_state(live, g);
    let set_vals = [Val::one(0), Val::one(1)];
    let put_val = Val::one(2);
    let (res, trace): (Result<Res, String>, Vec<shim::Ev>) = match sym {
        Sym::Maintain(c) => {
            let home = live.home.clone();
            let cap = *c as usize;
            let (r, t) = run::as_participant(0, 0, move || kismet_cache::raw_cache::prune(home, cap));
            (
                match r {
                    Ok(Ok(_)) => Ok(Res::Unit),
                    Ok(Err(e)) if e.kind() == std::io::ErrorKind::NotFound => Ok(Res::Unit),
                    Ok(Err(e)) => Err(format!("prune failed: {}", e)),
                    Err(p) => Err(format!("prune panicked: {}", p)),
                },
                t,
            )
        }
        Sym::SetMaint(k) | Sym::PutMaint(k) => {
            let n = before.len().max(2);
            let mut scfg = live.scfg.clone();
            scfg.writer = scfg.writer.map(|(f, _)| (f, if cfg.front == 1 { 2 * (n - 1) } else { n - 1 }));
            let cache = ops::build(&scfg, &live.dirs, None);
            let key = keys[*k as usize].clone();
            let op = if matches!(sym, Sym::SetMaint(_)) { Op::Set(key, set_vals[0]) } else { Op::Put(key, put_val) };
            let dirs = &live.dirs;
            let (r, t) = run::as_participant(0, 0, || {
                run::trigger_fire_next(u64::MAX);
                run::shard_draws(&[], Some(0));
                ops::exec(&cache, dirs, &op, &Default::default())
            });
            (r.map(|o| o.res), t)
        }
        _ => {
            let op = match sym {
                Sym::SetMaint(_) | Sym::PutMaint(_) => unreachable!(),
                Sym::Set(k, v) => Op::Set(keys[*k as usize].clone(), set_vals[*v as usize]),
                Sym::Put(k) => Op::Put(keys[*k as usize].clone(), put_val),
                Sym::GetRead(k) => Op::Get(keys[*k as usize].clone()),
                Sym::GetDrop(k) => Op::GetNoRead(keys[*k as usize].clone()),
                Sym::Touch(k) => Op::Touch(keys[*k as usize].clone()),
                Sym::Ensure(k) => Op::Ensure(keys[*k as usize].clone(), ops::Pop::Value(Val::one(3))),
                Sym::Maintain(_) => unreachable!(),
            };
            // sharded: a fresh handle per operation (as a fresh process would have), so that in-memory
            // load estimates do not spread the keys over both shards: all entries share one queue
            if cfg.front == 1 {
                live.cache = ops::build(&live.scfg, &live.dirs, None);
            }
            let cache = &live.cache;
            let dirs = &live.dirs;
            let (r, t) = run::as_participant(0, 0, || {
                run::trigger_never();
                ops::exec(cache, dirs, &op, &Default::default())
            });
            (r.map(|o| o.res), t)
        }
    };
    rep.transitions += trace.len() as u64;
    let after = dir_state(live, g);
    let res = match res {
        Ok(r) => r,
        Err(e) => {
            bad.push(("error".into(), e));
            return bad;
        }
    };
    if res.is_err() || res.is_panic() {
        bad.push(("error".into(), format!("{:?} returned {}", sym, res.label())));
        return bad;
    }
    // --- model transition
    let name_of = |k: u8| keys[k as usize].name.clone();
    let pos = |model: &Vec<MEntry>, n: &str| model.iter().position(|e| e.name == n);
    let mut marking: Option<String> = None;
    let mut inserting: Option<String> = None;
    if let Sym::SetMaint(k) | Sym::PutMaint(k) = sym {
        // maintenance first, then the write's own effect.  Which entries the pass evicted or re-queued is C07's
        // business; what is checked here is this property's last sentence: after a set, or a put that inserts, the
        // entry carries the newest queue position in its directory and is not marked.
        let n = name_of_key(&keys, *k);
        let inserted = matches!(sym, Sym::SetMaint(_)) || !before.contains_key(&n);
        if check && inserted {
            match after.get(&n) {
                None => bad.push(("entry-set".into(), format!("after {:?} the directory does not hold {}", sym, n))),
                Some(s) => {
                    if s.1 >= s.0 {
                        bad.push(("spurious-mark".into(), format!("after {:?}: the entry just written is marked as read", sym)));
                    }
                    for (other, o) in &after {
                        if other != &n && o.0 > s.0 {
                            bad.push((
                                "fresh-entry-not-newest".into(),
                                format!("after {:?} (maintenance firing on that write): {} was written last but {} carries a newer modification time", sym, n, other),
                            ));
                        }
                    }
                }
            }
        }
        let mut v: Vec<(i128, String)> = after.iter().map(|(n, s)| (s.0, n.clone())).collect();
        v.sort();
        live.model = v
            .into_iter()
            .map(|(_, n)| {
                let s = &after[&n];
                MEntry { val: world::identify(&s.2).unwrap_or(Val::one(25)), marked: s.1 >= s.0, name: n }
            })
            .collect();
        return bad;
    }
    match sym {
        Sym::SetMaint(_) | Sym::PutMaint(_) => unreachable!(),
        Sym::Maintain(_) => {
            // which entries go is C07's business: resynchronise the abstract queue from the directory
            let mut v: Vec<(i128, String)> = after.iter().map(|(n, s)| (s.0, n.clone())).collect();
            v.sort();
            live.model = v
                .into_iter()
                .map(|(_, n)| {
                    let s = &after[&n];
                    MEntry { val: world::identify(&s.2).unwrap_or(Val::one(25)), marked: s.1 >= s.0, name: n }
                })
                .collect();
            return bad;
        }
        Sym::Set(k, v) => {
            let n = name_of(*k);
            if let Some(i) = pos(&live.model, &n) {
                live.model.remove(i);
            }
            live.model.push(MEntry { name: n.clone(), val: set_vals[*v as usize], marked: false });
            inserting = Some(n);
        }
        Sym::Put(k) => {
            let n = name_of(*k);
            match pos(&live.model, &n) {
                Some(i) => {
                    live.model[i].marked = true;
                    marking = Some(n);
                }
                None => {
                    live.model.push(MEntry { name: n.clone(), val: put_val, marked: false });
                    inserting = Some(n);
                }
            }
        }
        Sym::GetRead(k) | Sym::GetDrop(k) | Sym::Touch(k) => {
            let n = name_of(*k);
            if let Some(i) = pos(&live.model, &n) {
                live.model[i].marked = true;
                marking = Some(n);
            }
        }
        Sym::Ensure(k) => {
            let n = name_of(*k);
            match pos(&live.model, &n) {
                Some(i) => {
                    live.model[i].marked = true;
                    marking = Some(n);
                }
                None if n == "k1" => {
                    // promoted from the read-only level: a fresh, unread entry
                    live.model.push(MEntry { name: n.clone(), val: Val::one(20), marked: false });
                    inserting = Some(n);
                }
                None => {
                    // populated, inserted, then handed back through a lookup of the new entry (a read)
                    live.model.push(MEntry { name: n.clone(), val: Val::one(3), marked: true });
                    inserting = Some(n);
                }
            }
        }
    }
    if !check {
        return bad;
    }
    // --- the directory against the abstract queue
    let model_names: Vec<&String> = live.model.iter().map(|e| &e.name).collect();
    let disk_names: Vec<&String> = after.keys().collect();
    let mut sorted_model = model_names.clone();
    sorted_model.sort();
    if sorted_model != disk_names {
        bad.push(("entry-set".into(), format!("directory holds {:?}, the queue model {:?}", disk_names, model_names)));
        return bad;
    }
    for e in &live.model {
        let s = &after[&e.name];
        if s.2 != e.val.bytes() {
            bad.push(("content".into(), format!("{} holds {}, expected {}", e.name, world::describe_bytes(&s.2), e.val.label())));
        }
        let on_disk_marked = s.1 >= s.0;
        if on_disk_marked != e.marked {
            bad.push((
                if e.marked { "mark-lost".into() } else { "spurious-mark".into() },
                format!(
                    "after {:?}: {} is {} on disk (atime {} mtime) but the queue model says {}",
                    sym,
                    e.name,
                    if on_disk_marked { "marked as read" } else { "not marked" },
                    if s.1 >= s.0 { ">=" } else { "<" },
                    if e.marked { "read since it was queued" } else { "not read" }
                ),
            ));
        }
    }
    for w in live.model.windows(2) {
        if after[&w[0].name].0 > after[&w[1].name].0 {
            bad.push(("queue-order".into(), format!("{} was queued before {} but has a newer mtime", w[0].name, w[1].name)));
        }
    }
    if let Some(n) = &marking {
        // queue position and content unchanged; nobody else disturbed
        let (b, a) = (&before[n], &after[n]);
        if a.0 != b.0 {
            bad.push(("marking-reordered".into(), format!("{:?} changed the modification time (queue position) of {}", sym, n)));
        }
        if a.2 != b.2 || a.3 != b.3 {
            bad.push(("marking-rewrote".into(), format!("{:?} changed the content or inode of {}", sym, n)));
        }
        for (other, b) in &before {
            if other != n && after.get(other) != Some(b) {
                bad.push(("bystander-changed".into(), format!("{:?} on {} also changed {}", sym, n, other)));
            }
        }
        // the next maintenance (the real one, on a clone) recognises the entry as recently used
        match clone_and_prune(live, n) {
            Err(e) => bad.push(("probe".into(), e)),
            Ok((survived, requeued)) => {
                let others_unmarked = live.model.iter().any(|e| &e.name != n && !e.marked);
                let oldest = live.model.first().map(|e| &e.name == n).unwrap_or(false) && {
                    // strictly oldest (no tie with the next entry)
                    live.model.len() < 2 || after[&live.model[0].name].0 < after[&live.model[1].name].0
                };
                if others_unmarked && !survived {
                    bad.push((
                        "not-recognised-as-used".into(),
                        format!("after {:?}, a maintenance that must evict one entry evicted {} although an entry never read since insertion was available", sym, n),
                    ));
                }
                if others_unmarked && oldest && survived && !requeued {
                    bad.push(("not-requeued".into(), format!("{} is the oldest entry and was read, but maintenance did not move it to the back", n)));
                }
            }
        }
    }
    if let Some(n) = &inserting {
        let a = &after[n];
        if after.values().any(|o| o.0 > a.0) {
            bad.push(("insert-not-newest".into(), format!("after {:?}, {} does not carry the newest queue position in its directory", sym, n)));
        }
        for (other, b) in &before {
            if other != n && after.get(other) != Some(b) {
                bad.push(("bystander-changed".into(), format!("{:?} on {} also changed {}", sym, n, other)));
            }
        }
    }
    bad
}

fn canon(live: &Live, cfg: &Config) -> String {
    let st = dir_state(live, cfg.gran_ns);
    let mut times: Vec<i128> = st.values().map(|s| s.0).collect();
    times.sort();
    times.dedup();
    let mut s = String::new();
    for (n, v) in &st {
        let rank = times.iter().position(|t| *t == v.0).unwrap();
        s.push_str(&format!("{}={}@{}{};", n, world::describe_bytes(&v.2), rank, if v.1 >= v.0 { "*" } else { "" }));
    }
    // clock phase, and whether the newest stamp equals "now" (the next stamp may tie with it)
    let now = shim::clock_peek_ns() as i128;
    let g = cfg.gran_ns.max(1) as i128;
    s.push_str(&format!("|phase{}", now.rem_euclid(g)));
    if let Some(newest) = times.last() {
        s.push_str(if *newest == floor(now, cfg.gran_ns) { "|tie-possible" } else { "" });
    }
    s
}

fn replay_history(cfg: &Config, hist: &[Sym], rep: &mut Report) -> (Live, Vec<(String, String)>) {
    let mut live = open_live(cfg);
    let mut scratch = Report::new("scratch");
    let mut bad = Vec::new();
    for (i, sym) in hist.iter().enumerate() {
        let last = i + 1 == hist.len();
        let b = step(&mut live, cfg, sym, if last { rep } else { &mut scratch }, last);
        if last {
            bad = b;
        }
    }
    (live, bad)
}

fn case_json(cfg: &Config, hist: &[Sym]) -> Value {
    json!({"config": cfg.to_json(), "config_label": cfg.label(), "history": hist.iter().map(|s| s.to_json()).collect::<Vec<_>>()})
}

fn bfs(cfg: &Config, depth: usize, shard: Shard, rep: &mut Report, wall_cap_s: f64) {
    let alpha = alphabet(cfg);
    let t0 = std::time::Instant::now();
    let mut seen: HashSet<u64> = HashSet::new();
    let mut frontier: Vec<Vec<Sym>> = vec![vec![]];
    let mut completed = 0;
    let mut capped = false;
    let had_work = (0..alpha.len()).any(|i| shard.mine(i as u64));
    'outer: for d in 1..=depth {
        let mut next = Vec::new();
        for hist in &frontier {
            for (si, sym) in alpha.iter().enumerate() {
                if d == 1 && !shard.mine(si as u64) {
                    continue;
                }
                if t0.elapsed().as_secs_f64() > wall_cap_s {
                    capped = true;
                    break 'outer;
                }
                let mut h = hist.clone();
                h.push(*sym);
                let (live, bad) = replay_history(cfg, &h, rep);
                rep.evaluations += 1;
                rep.traces += 1;
                for (sig, msg) in bad {
                    rep.violation(format!("queue:{}", sig), format!("{} after {:?}: {}", cfg.label(), h, msg), case_json(cfg, &h));
                }
                let key = canon(&live, cfg);
                let kh = world::fnv(format!("{}|{}", cfg.label(), key).as_bytes());
                if seen.insert(kh) {
                    rep.states += 1;
                    rep.outcomes.insert(kh);
                    if live.model.iter().any(|e| e.marked) && live.model.len() >= 2 {
                        rep.nontrivial.insert(kh);
                    }
                    if rep.samples.len() < 3 && h.len() == 3 && shard.index == 0 {
                        rep.sample(json!({"case": case_json(cfg, &h), "state": key}));
                    }
                    next.push(h);
                }
            }
        }
        completed = d;
        if next.is_empty() {
            if had_work {
                rep.count(&format!("subtrees_at_fixpoint[{}]", cfg.label()), 1);
            }
            break;
        }
        frontier = next;
    }
    if had_work {
        rep.count(&format!("subtrees[{}]", cfg.label()), 1);
        rep.fact(&format!("min_completed_depth[{}]", cfg.label()), json!(completed));
    }
    if capped {
        rep.exhaustive = false;
        rep.fact(&format!("capped[{}]", cfg.label()), json!(true));
    }
}

fn grans() -> Vec<(i64, i64)> {
    let ms = 1_000_000i64;
    vec![(1, ms), (1, 0), (1000 * ms, 400 * ms), (1000 * ms, 1500 * ms), (2000 * ms, 700 * ms), (2000 * ms, 3000 * ms)]
}

pub fn configs(tier: Tier) -> Vec<(Config, usize)> {
    let mut v = Vec::new();
    let g = grans();
    if tier == Tier::Quick {
        // a pairwise-covering selection of front-end x policy x granularity
        let picks: [(u8, usize, usize); 12] = [
            (0, 0, 0), (0, 1, 2), (0, 2, 4), (1, 0, 3), (1, 1, 5), (1, 2, 1),
            (2, 0, 4), (2, 1, 0), (2, 2, 3), (0, 0, 5), (1, 1, 1), (2, 2, 2),
        ];
        for (f, p, gi) in picks {
            v.push((Config { front: f, policy: p, gran_ns: g[gi].0, step_ns: g[gi].1, nkeys: 2, init: 0 }, 4));
        }
        // from populated directories (three entries, all read / none read since insertion): the first maintenance
        // re-queues or evicts several entries at once
        for (f, p, gi, init) in [(0u8, 0usize, 0usize, 1u8), (1, 2, 1, 1), (2, 1, 2, 1), (0, 1, 4, 1), (0, 2, 0, 2), (1, 0, 3, 2)] {
            v.push((Config { front: f, policy: p, gran_ns: g[gi].0, step_ns: g[gi].1, nkeys: 3, init }, 3));
        }
        // entries created by other tools (sub-second distance between atime and mtime), nanosecond timestamps
        for (f, p, gi) in [(0u8, 0usize, 0usize), (1, 1, 0), (2, 2, 1), (0, 2, 1), (2, 0, 0)] {
            v.push((Config { front: f, policy: p, gran_ns: g[gi].0, step_ns: g[gi].1, nkeys: 2, init: 3 }, 3));
        }
        // sharded: entries living in their secondary shard, looked up and written through fresh handles
        for (p, gi) in [(0usize, 0usize), (1, 2), (2, 1)] {
            v.push((Config { front: 1, policy: p, gran_ns: g[gi].0, step_ns: g[gi].1, nkeys: 2, init: 4 }, 3));
        }
    } else {
        for f in 0..3u8 {
            for p in 0..3usize {
                for (gn, st) in &g {
                    v.push((Config { front: f, policy: p, gran_ns: *gn, step_ns: *st, nkeys: 2, init: 0 }, 8));
                    if f == 0 {
                        v.push((Config { front: f, policy: p, gran_ns: *gn, step_ns: *st, nkeys: 3, init: 0 }, 5));
                    }
                    v.push((Config { front: f, policy: p, gran_ns: *gn, step_ns: *st, nkeys: 3, init: 1 }, 4));
                    if f == 0 {
                        v.push((Config { front: f, policy: p, gran_ns: *gn, step_ns: *st, nkeys: 3, init: 2 }, 4));
                    }
                    if *gn == 1 {
                        v.push((Config { front: f, policy: p, gran_ns: *gn, step_ns: *st, nkeys: 2, init: 3 }, 5));
                    }
                    if f == 1 {
                        v.push((Config { front: f, policy: p, gran_ns: *gn, step_ns: *st, nkeys: 2, init: 4 }, 5));
                    }
                }
            }
        }
    }
    v
}

/// A marking operation (touch, put onto an existing key, get) that races with a set must not hand
/// the replaced entry's queue position to the new entry.
fn concurrent_programs() -> Vec<(crate::sched::Program, crate::props::e1::Mode)> {
    use crate::props::e1::{self, api, planted, Mode};
    use crate::world::Size;
    let k = e1::key1();
    let mut out = Vec::new();
    for (front, cfg, loc) in [
        ("plain", e1::plain_cfg(1 << 40), "k".to_string()),
        ("sharded", e1::sharded_cfg(1 << 40), format!("{}/k", ops::shard_dir_name(0))),
    ] {
        let pre = vec![planted(&loc, Val::one(0), false, 3), planted(&loc.replace("k", "other"), Val::one(5), false, 1)];
        let v = |t: usize| e1::wval(t, 0, Size::One);
        for (name, marker) in [("touch", Op::Touch(k.clone())), ("put", Op::Put(k.clone(), v(0))), ("get", Op::Get(k.clone()))] {
            out.push((
                crate::sched::Program {
                    name: format!("mark-{}-{}|set", front, name),
                    cfg: cfg.clone(),
                    pre: pre.clone(),
                    threads: e1::own_handles(vec![vec![api(marker)], vec![api(Op::Set(k.clone(), v(1)))]], false),
                    create_write_dir: true,
                },
                crate::props::e1::side_bound(),
            ));
        }
        // the key is absent: a put inserts it while another participant looks it up, touches it or puts it too.  A
        // participant that found the entry came after its insertion, so its mark is the last word on the entry.
        let bystander = vec![planted(&loc.replace("k", "other"), Val::one(5), false, 1)];
        for (name, racer) in [("touch", Op::Touch(k.clone())), ("put", Op::Put(k.clone(), v(1))), ("get", Op::Get(k.clone()))] {
            out.push((
                crate::sched::Program {
                    name: format!("insert-{}-put|{}", front, name),
                    cfg: cfg.clone(),
                    pre: bystander.clone(),
                    threads: e1::own_handles(vec![vec![api(Op::Put(k.clone(), v(0)))], vec![api(racer)]], false),
                    create_write_dir: true,
                },
                crate::props::e1::side_bound(),
            ));
        }
    }
    out
}

fn concurrent_check(x: &crate::sched::Execution) -> Vec<(String, String)> {
    let mut bad = Vec::new();
    // programs "insert-*": both participants succeeded and the second one found the entry => it is marked at the end
    let inserting = x.history.len() == 2 && x.history.iter().all(|r| !r.outcome.res.is_err() && !r.outcome.res.is_panic()) && matches!(x.history.iter().find(|r| r.tid == 0).map(|r| &r.op), Some(crate::sched::POp::Api(Op::Put(..))));
    if inserting {
        let racer = x.history.iter().find(|r| r.tid == 1);
        let found = match racer.map(|r| (&r.op, &r.outcome.res)) {
            Some((crate::sched::POp::Api(Op::Touch(_)), crate::ops::Res::Bool(true))) => true,
            Some((crate::sched::POp::Api(Op::Get(_)), crate::ops::Res::Hit(_))) => true,
            // two puts: whichever lost the insertion marked the winner's entry afterwards
            Some((crate::sched::POp::Api(Op::Put(..)), crate::ops::Res::Unit)) => true,
            _ => false,
        };
        if found {
            for (rel, n) in &x.final_snapshot {
                if n.kind == 'f' && (rel == "w/k" || (rel.starts_with("w/") && rel.ends_with("/k") && !rel.contains(".kismet_temp"))) && n.meta.mtime - n.meta.atime >= 60_000_000_000 {
                    // (the library clears a mark by setting atime two minutes before mtime.  A racer that read its clock a
                    // few calls before the inserter stamped the file leaves atime a few milliseconds short of mtime: that
                    // is the racer's own, stale, mark - a concurrent effect outside this property's sequential quantifier,
                    // see DESIGN 9.4 - and is not what is flagged here.  Flagged: the mark was there and the inserter's
                    // stamp, applied after the entry became visible, wiped it.)
                    bad.push((
                        "mark-lost-to-late-stamp".into(),
                        format!("{}: a participant found the entry after its insertion (its operation succeeded on the existing key), yet the entry ends up carrying a freshly cleared mark (atime two minutes before mtime): it was stamped after it became visible", rel),
                    ));
                }
            }
        }
        return bad;
    }
    // the planted entries are a day old; anything set during the execution is stamped "now"
    let threshold = run::base_time_ns() as i128 - 3_600_000_000_000;
    let setv = crate::props::e1::wval(1, 0, world::Size::One).bytes();
    for (rel, n) in &x.final_snapshot {
        if n.kind == 'f' && rel.starts_with("w/") && rel.ends_with("/k") || rel == "w/k" {
            if n.content.as_deref() == Some(&setv[..]) && n.meta.mtime < threshold {
                bad.push((
                    "set-entry-with-old-queue-position".into(),
                    format!("{} holds the value just set but carries the replaced entry's modification time (a day old)", rel),
                ));
            }
        }
    }
    bad
}

/// For each marking operation (touch, put onto an existing key, get read / unread) on each front-end and
/// atime policy: every call of the operation fails once in turn; if the operation still reports
/// success, the entry must be marked and its mtime untouched.
fn fault_section(shard: Shard, rep: &mut Report) {
    use crate::props::c18::{plausible, FailAt};
    use crate::shim::Controller;
    use std::sync::atomic::AtomicU64;
    use std::sync::{Arc, Mutex};
    let ms = 1_000_000i64;
    let mut no = 0u64;
    for front in 0..3u8 {
        for policy in 0..3usize {
            let cfg = Config { front, policy, gran_ns: 1, step_ns: ms, nkeys: 2, init: 0 };
            for marker in [Sym::Touch(0), Sym::Put(0), Sym::GetRead(0), Sym::GetDrop(0)] {
                // fault-free run to learn the marker's calls
                let mut scratch = Report::new("scratch");
                let mut live = open_live(&cfg);
                step(&mut live, &cfg, &Sym::Set(0, 0), &mut scratch, false);
                step(&mut live, &cfg, &Sym::Set(1, 0), &mut scratch, false);
                let t0 = shim::trace_len();
                step(&mut live, &cfg, &marker, &mut scratch, false);
                let trace = shim::trace_since(t0);
                drop(live);
                for (k, ev) in trace.iter().enumerate() {
                    for a in plausible(ev, false).into_iter().take(2) {
                        no += 1;
                        if !shard.mine(no) {
                            continue;
                        }
                        let mut live = open_live(&cfg);
                        step(&mut live, &cfg, &Sym::Set(0, 0), &mut scratch, false);
                        step(&mut live, &cfg, &Sym::Set(1, 0), &mut scratch, false);
                        let before = dir_state(&live, cfg.gran_ns);
                        let ctl = Arc::new(FailAt { faults: vec![(k as u64, a)], kinds: vec![Some(ev.kind)], n: AtomicU64::new(0), hit: Mutex::new(vec![]) });
                        shim::set_controller(Some(ctl.clone() as Arc<dyn Controller>));
                        let bad = step(&mut live, &cfg, &marker, &mut scratch, false);
                        shim::set_controller(None);
                        rep.evaluations += 1;
                        rep.states += 1;
                        rep.traces += 1;
                        rep.count("marking_fault_cases", 1);
                        if ctl.hit.lock().unwrap().is_empty() || bad.iter().any(|b| b.0 == "error") {
                            continue; // the fault did not apply, or the operation reported the failure
                        }
                        let after = dir_state(&live, cfg.gran_ns);
                        let name = cfg.keys()[0].name.clone();
                        if let (Some(b), Some(s)) = (before.get(&name), after.get(&name)) {
                            // (a lookup marks on a best-effort basis: the library deliberately ignores a failure of
                            // its re-touch, and the lookup's effect - the handle - is achieved; touch and put onto
                            // an existing key have no other effect than the mark)
                            let marking_is_the_effect = matches!(marker, Sym::Touch(_) | Sym::Put(_));
                            if s.1 < s.0 && marking_is_the_effect {
                                rep.violation(
                                    "queue:success-without-mark",
                                    format!("{}: {:?} with call {} ({}) failing {:?} reported success but left the entry unmarked (atime < mtime)", cfg.label(), marker, k, ev.func, a),
                                    json!({"fault_section": true}),
                                );
                            }
                            if s.0 != b.0 {
                                rep.violation(
                                    "queue:marking-reordered",
                                    format!("{}: {:?} with call {} ({}) failing {:?} changed the entry's modification time", cfg.label(), marker, k, ev.func, a),
                                    json!({"fault_section": true}),
                                );
                            }
                        }
                    }
                }
            }
        }
    }
}

pub fn run(tier: Tier, shard: Shard, rep: &mut Report) {
    rep.rule = "breadth-first search over operation sequences on 2 (3) keys of one directory: {set k A|B, put k C, get k + read to the end, \
        get k dropped unread, touch k, (stacked) ensure k with k1 also held by the read-only level, maintenance with capacity 0/1/2, set k / put k through a handle of capacity n-1 whose maintenance fires on that write} x front-end {plain, sharded, stacked} x emulated access-time \
        policy {noatime, relatime, strict} x (timestamp granularity, clock step) in {(1 ns, 1 ms), (1 ns, frozen), (1 s, 0.4 s), (1 s, \
        1.5 s), (2 s, 0.7 s), (2 s, 3 s)}; states deduplicated on (name, value, mtime rank with ties, read mark, clock phase); after every \
        step the directory is compared with an abstract queue (a hit/touch/put-on-existing sets the mark and changes neither mtime nor \
        content nor any other entry; a set or inserting put carries the newest mtime and no mark; mtime order = queue order), and after \
        every marking step the real prune is run on a clone of the directory with capacity n-1: the entry must survive when an unread \
        entry exists, and be re-queued when it was the oldest. Quick: a pairwise-covering dozen of the 54 configurations to depth 4 from \
        the empty directory, plus six configurations to depth 3 from a directory already holding three day-old entries (all read since \
        insertion, so that one maintenance re-queues several entries, or none read) and five from a directory holding entries made by \
        other tools (atime a fraction of a second behind mtime, inside the same second) and three (sharded) from entries living in \
        their secondary shard; thorough: all of them to depth 8 or fixpoint, and \
        all populated starts to depth 4. Plus: touch / put-on-existing / get racing with a set of the same key (all schedules with \
        <= 2 preemptions): the entry that ends up holding the set's value never carries the replaced entry's modification time; and touch / get / put racing with a put that inserts the key: whoever found the entry has marked it for good. And: every call of a marking operation failing once in turn (3 front-ends x 3 atime policies): an operation \
        that still reports success has set the mark and left the mtime alone. \
        Non-trivial = states with >= 2 entries and a read mark."
        .into();
    rep.assumptions = vec![
        "kernel atime behaviour is emulated by the shim (files are opened O_NOATIME): strict = every read stamps atime, relatime = only when atime <= mtime, noatime = never; one virtual clock serves user space and the emulated kernel".into(),
        "granularity is emulated by flooring timestamps written by futimens/utimensat and returned by stat".into(),
    ];
    rep.max_samples = 3;
    let cfgs = configs(tier);
    let wall = if tier == Tier::Quick { 150.0 } else { 1800.0 };
    let per = wall / cfgs.len() as f64;
    for (cfg, depth) in cfgs {
        bfs(&cfg, depth, shard, rep, per);
    }
    let _: Option<&Path> = None;
    run::reset_env();
    let progs = concurrent_programs();
    let mut chk = |_pi: usize, x: &crate::sched::Execution| concurrent_check(x);
    crate::props::e1::explore_all("C09", &progs, shard, rep, &|_| crate::sched::RunOpts::default(), &mut chk, 500_000);
    fault_section(shard, rep);
}

pub fn replay(case: &Value, rep: &mut Report) {
    if case.get("fault_section").is_some() {
        fault_section(Shard { index: 0, count: 1 }, rep);
        return;
    }
    if case.get("program").is_some() {
        let progs: Vec<crate::sched::Program> = concurrent_programs().into_iter().map(|p| p.0).collect();
        let mut chk = |x: &crate::sched::Execution| concurrent_check(x);
        crate::props::e1::replay_case("C09", &progs, case, rep, &|| crate::sched::RunOpts::default(), &mut chk);
        return;
    }
    let cfg = Config::from_json(&case["config"]);
    let hist: Vec<Sym> = case["history"].as_array().unwrap().iter().map(Sym::from_json).collect();
    let (_l, bad) = replay_history(&cfg, &hist, rep);
    rep.evaluations += 1;
    rep.states += 1;
    rep.traces += 1;
    for (sig, msg) in bad {
        rep.violation(format!("queue:{}", sig), format!("{} after {:?}: {}", cfg.label(), hist, msg), case_json(&cfg, &hist));
    }
}
