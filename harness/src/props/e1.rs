//! Shared driver for the schedule-exploration properties (C01, C04, C05, C06).
use crate::ops::{Checker, Front, Op, Pop, StackCfg, K};
use crate::report::{Report, Shard};
use crate::sched::{self, Execution, POp, Planted, Program, RunOpts, ThreadSpec};
use crate::world::{self, Size, Val};
use serde_json::{json, Value};

#[derive(Clone, Copy, Debug, PartialEq, Eq)]
pub enum Mode {
    Bounded(usize),
    Sleep,
}

impl Mode {
    pub fn label(&self) -> String {
        match self {
            Mode::Bounded(b) => format!("preemption-bound-{}", b),
            Mode::Sleep => "unbounded-sleep-sets".into(),
        }
    }
}

/// set by the driver: the tier of the current run
pub static THOROUGH: std::sync::atomic::AtomicBool = std::sync::atomic::AtomicBool::new(false);

/// Preemption bound of the schedule-exploration sections that accompany the non-E1 properties: every
/// schedule with <= 2 preemptions in quick, <= 3 in thorough.
pub fn side_bound() -> Mode {
    if THOROUGH.load(std::sync::atomic::Ordering::SeqCst) {
        Mode::Bounded(3)
    } else {
        Mode::Bounded(2)
    }
}

pub type Checkfn<'a> = &'a mut dyn FnMut(&Execution) -> Vec<(String, String)>;
pub type ProgCheckfn<'a> = &'a mut dyn FnMut(usize, &Execution) -> Vec<(String, String)>;

pub fn case_json(prog: &Program, choices: &[usize]) -> Value {
    json!({"program": prog.name, "program_text": prog.to_json(), "choices": choices})
}

fn sync_dir() -> Option<std::path::PathBuf> {
    std::env::var("KVERIF_SYNC_DIR").ok().map(std::path::PathBuf::from)
}

struct Acc {
    violations: Vec<(String, String, Vec<usize>)>,
    outcomes: std::collections::BTreeSet<u64>,
    nontrivial: std::collections::BTreeSet<u64>,
    transitions: u64,
    sample: Option<Value>,
}

/// Explores every program, this worker's share.  Pass 1: the programs are dealt round-robin
/// to the workers, each expanding "its" programs' trees breadth-first into a frontier of open
/// nodes (written to the sync directory).  Barrier.  Pass 2: every worker explores, depth-first,
/// its round-robin share of every program's frontier.
pub fn explore_all(
    prop: &str,
    progs: &[(Program, Mode)],
    shard: Shard,
    rep: &mut Report,
    mk_opts_for: &dyn Fn(usize) -> RunOpts,
    check: ProgCheckfn,
    cap: u64,
) {
    crate::sched::install_hooks();
    crate::sched::pin_to_cpu(shard.index);
    let n = shard.count;
    let dir = sync_dir();
    if n > 1 && dir.is_none() {
        eprintln!("MACHINERY: KVERIF_SYNC_DIR is required with more than one worker");
        std::process::exit(2);
    }
    let split = (n as usize) * 24;
    let mut frontiers: Vec<Option<Vec<sched::Item>>> = vec![None; progs.len()];
    let mut stats: Vec<sched::ExploreStats> = progs.iter().map(|_| sched::new_stats()).collect();
    let mut accs: Vec<Acc> = progs
        .iter()
        .map(|_| Acc { violations: vec![], outcomes: Default::default(), nontrivial: Default::default(), transitions: 0, sample: None })
        .collect();
    let search_of = |m: Mode| match m {
        Mode::Bounded(b) => sched::Search::Bounded(b),
        Mode::Sleep => sched::Search::Sleep,
    };
    macro_rules! mk_check {
        ($pi:expr, $prog:expr, $acc:expr) => {
            |x: &Execution, _prefix: &[usize]| {
                $acc.transitions += x.trace.len() as u64;
                $acc.outcomes.insert(world::fnv(format!("{}|{}", $prog.name, sched::outcome_key(x)).as_bytes()));
                if sched::preemptions(&x.points) > 0 {
                    $acc.nontrivial.insert(world::fnv(format!("{}|{:?}", $prog.name, x.choices).as_bytes()));
                }
                if let Some(d) = &x.divergence {
                    eprintln!("MACHINERY: {} in program {}", d, $prog.name);
                    std::process::exit(3);
                }
                if $acc.sample.is_none() && sched::preemptions(&x.points) >= 1 {
                    $acc.sample = Some(json!({"program": $prog.to_json(), "choices": x.choices, "outcome": sched::outcome_key(x)}));
                }
                let mut bad = check($pi, x);
                if x.hang {
                    bad.push(("hang".into(), "execution made no progress for 20 s".into()));
                }
                for (sig, msg) in bad {
                    if $acc.violations.len() < 20 && !$acc.violations.iter().any(|v| v.0 == sig) {
                        $acc.violations.push((sig, msg, x.choices.clone()));
                    }
                }
            }
        };
    }
    // pass 1
    for (pi, (prog, mode)) in progs.iter().enumerate() {
        if (pi as u64) % n != shard.index {
            continue;
        }
        let mk_opts = &|| mk_opts_for(pi);
        // determinism self-test: the default schedule twice
        let a = sched::run_schedule(prog, &[], mk_opts());
        let b = sched::run_schedule(prog, &[], mk_opts());
        if sched::canonical(&a) != sched::canonical(&b) {
            eprintln!("MACHINERY: nondeterministic execution of program {}", prog.name);
            eprintln!("--- first\n{}\n--- second\n{}", sched::canonical(&a), sched::canonical(&b));
            std::process::exit(3);
        }
        rep.count("determinism_selftests", 1);
        rep.count("programs", 1);
        let acc = &mut accs[pi];
        let mut chk = mk_check!(pi, prog, acc);
        let items = sched::expand_frontier(prog, search_of(*mode), mk_opts, split, &mut chk, &mut stats[pi]);
        if let Some(d) = &dir {
            let tmp = d.join(format!("{}-{}.tmp", prop, pi));
            std::fs::write(&tmp, serde_json::to_vec(&sched::items_to_json(&items)).unwrap()).expect("write frontier");
            std::fs::rename(&tmp, d.join(format!("{}-{}.json", prop, pi))).expect("publish frontier");
        }
        frontiers[pi] = Some(items);
    }
    // pass 2 (waiting for each program's frontier as needed)
    for (pi, (prog, mode)) in progs.iter().enumerate() {
        let items = match frontiers[pi].take() {
            Some(i) => i,
            None => {
                let path = dir.as_ref().unwrap().join(format!("{}-{}.json", prop, pi));
                let deadline = std::time::Instant::now() + std::time::Duration::from_secs(1800);
                loop {
                    if let Ok(b) = std::fs::read(&path) {
                        break sched::items_from_json(&serde_json::from_slice(&b).expect("frontier json"));
                    }
                    if std::time::Instant::now() > deadline {
                        eprintln!("MACHINERY: timed out waiting for the frontier of program {}", prog.name);
                        std::process::exit(2);
                    }
                    std::thread::sleep(std::time::Duration::from_millis(5));
                }
            }
        };
        let mk_opts = &|| mk_opts_for(pi);
        let mine: Vec<sched::Item> = items.into_iter().enumerate().filter(|(i, _)| (*i as u64) % n == shard.index).map(|(_, it)| it).collect();
        let acc = &mut accs[pi];
        let mut chk = mk_check!(pi, prog, acc);
        let complete = sched::explore_items(prog, search_of(*mode), mk_opts, mine, &mut chk, &mut stats[pi], cap);
        sched::add_stats(rep, prog, &stats[pi], complete, &mode.label());
    }
    for (pi, (prog, mode)) in progs.iter().enumerate() {
        let acc = &mut accs[pi];
        rep.evaluations += stats[pi].executions;
        rep.traces += stats[pi].executions;
        rep.states += stats[pi].executions + stats[pi].sleep_blocked;
        rep.transitions += acc.transitions;
        rep.outcomes.extend(acc.outcomes.iter().copied());
        rep.nontrivial.extend(acc.nontrivial.iter().copied());
        if let Some(s) = acc.sample.take() {
            rep.sample(s);
        }
        for (sig, msg, choices) in std::mem::take(&mut acc.violations) {
            // confirm by replaying the exact schedule: the same schedule must fail every time
            let again = sched::run_schedule(prog, &choices, mk_opts_for(pi));
            let still = check(pi, &again);
            if !still.iter().any(|(s, _)| *s == sig) && sig != "hang" {
                eprintln!("MACHINERY: violation {} of {} did not reproduce on replay", sig, prog.name);
                std::process::exit(3);
            }
            rep.violation(format!("{}:{}", prop_prefix(prop), sig), format!("program {} [{}]: {}", prog.name, mode.label(), msg), case_json(prog, &choices));
        }
    }
    // settings a program's name switched on do not outlive the exploration
    crate::ops::set_staged_source(None);
    crate::shim::set_dtype_unknown(false);
}

fn prop_prefix(prop: &str) -> &'static str {
    match prop {
        p if p.starts_with("C01") => "content",
        "C03" => "durability",
        "C13" => "stack",
        "C07" => "prune",
        "C10" => "growth",
        "C19" => "exposure",
        "C16" => "names",
        "C20" => "resources",
        "C09" => "queue",
        "C04" => "history",
        "C05" => "concurrency",
        _ => "progress",
    }
}

pub fn replay_case(prop: &str, progs: &[Program], case: &Value, rep: &mut Report, mk_opts: &dyn Fn() -> RunOpts, check: Checkfn) {
    let name = case["program"].as_str().unwrap_or("");
    let prog = match progs.iter().find(|p| p.name == name) {
        Some(p) => p,
        None => {
            eprintln!("unknown program {}", name);
            std::process::exit(2);
        }
    };
    let choices: Vec<usize> = case["choices"].as_array().unwrap().iter().map(|c| c.as_u64().unwrap() as usize).collect();
    let x = sched::run_schedule(prog, &choices, mk_opts());
    rep.evaluations += 1;
    rep.states += 1;
    rep.traces += 1;
    rep.transitions += x.trace.len() as u64;
    for (sig, msg) in check(&x) {
        rep.violation(format!("{}:{}", prop_prefix(prop), sig), format!("program {}: {}", prog.name, msg), case_json(prog, &choices));
    }
}

// ---- program-building helpers ------------------------------------------------

pub fn key1() -> K {
    crate::ops::key_for_shards("k", 0, 1, 2)
}
pub fn key2() -> K {
    crate::ops::key_for_shards("j", 0, 1, 2)
}

pub fn plain_cfg(capacity: usize) -> StackCfg {
    StackCfg { writer: Some((Front::Plain, capacity)), readers: vec![], checker: Checker::None, auto_sync: true }
}
pub fn sharded_cfg(capacity: usize) -> StackCfg {
    StackCfg { writer: Some((Front::Sharded(2), capacity)), readers: vec![], checker: Checker::None, auto_sync: true }
}
pub fn stack_cfg(capacity: usize) -> StackCfg {
    StackCfg { writer: Some((Front::Plain, capacity)), readers: vec![Front::Plain], checker: Checker::None, auto_sync: true }
}

pub fn own_handles(threads: Vec<Vec<POp>>, fire: bool) -> Vec<ThreadSpec> {
    threads.into_iter().enumerate().map(|(i, ops)| ThreadSpec { ops, handle: i, fire }).collect()
}
pub fn shared_handle(threads: Vec<Vec<POp>>, fire: bool) -> Vec<ThreadSpec> {
    threads.into_iter().map(|ops| ThreadSpec { ops, handle: 0, fire }).collect()
}

/// Writer-distinct value for op `idx` of thread `tid`.
pub fn wval(tid: usize, idx: usize, size: Size) -> Val {
    Val::new((1 + tid * 4 + idx) as u8, size)
}

pub fn api(op: Op) -> POp {
    POp::Api(op)
}

pub fn planted(rel: &str, val: Val, read_marked: bool, age: i64) -> Planted {
    Planted { rel: rel.to_string(), val, read_marked, age }
}

/// Single-letter op codes used to build program alphabets: s set, p put, g get, t touch, e ensure.
pub fn op_from_code(c: char, k: &K, v: Val) -> POp {
    api(match c {
        's' => Op::Set(k.clone(), v),
        'p' => Op::Put(k.clone(), v),
        'g' => Op::Get(k.clone()),
        't' => Op::Touch(k.clone()),
        'S' => Op::SetTemp(k.clone(), v),
        'P' => Op::PutTemp(k.clone(), v),
        'r' => Op::Gou(k.clone(), crate::ops::Act::Replace, Pop::Value(v)),
        _ => Op::Ensure(k.clone(), Pop::Value(v)),
    })
}
