//! C13 — stacked caches resolve lookups in order and apply hit actions as documented.
use crate::ops::Res;
use crate::props::stackmx::*;
use crate::report::{Report, Shard, Tier};
use crate::shim::Kind;
use crate::world;
use serde_json::Value;

/// The oracle: reference-model comparison of one cell run (no checker configured).
pub fn check(run: &CellRun) -> Vec<(String, String)> {
    let cell = &run.cell;
    let m = model(cell);
    let mut bad = Vec::new();
    let out = &run.outcome;
    if let Res::Panic(p) = &out.res {
        if m.result != Expect::Mismatch {
            bad.push(("panic".into(), format!("panicked: {}", p)));
            return bad;
        }
    }
    if !result_matches(cell, &m.result, &out.res) {
        bad.push(("result".into(), format!("returned {}, expected {:?}", out.res.label(), m.result)));
    }
    // judge
    match m.judge {
        Some(primary) => {
            if out.judge.len() != 1 {
                bad.push(("judge-count".into(), format!("judge called {} times, expected once", out.judge.len())));
            } else {
                let (p, bytes) = &out.judge[0];
                if *p != primary {
                    bad.push((
                        "hit-kind".into(),
                        format!("hit reported as {}, expected {}", if *p { "Primary" } else { "Secondary" }, if primary { "Primary" } else { "Secondary" }),
                    ));
                }
                let want = m.first.and_then(|i| cell.level_vals()[i]).map(|v| v.bytes());
                if Some(bytes.clone()) != want {
                    bad.push(("judge-file".into(), format!("judge was handed {}", world::describe_bytes(bytes))));
                }
            }
        }
        None => {
            if !out.judge.is_empty() {
                bad.push(("judge-count".into(), "judge called although there was no hit to judge".into()));
            }
        }
    }
    if !matches!(m.result, Expect::Mismatch) {
        if out.populate_calls != m.populate_calls {
            bad.push((
                "populate-count".into(),
                format!("populate called {} times, expected {}", out.populate_calls, m.populate_calls),
            ));
        } else if cell.op != MOp::Ensure && m.populate_calls == 1 {
            let got = out.populate_old.first().cloned().unwrap_or(None);
            let want = m.populate_old.clone().unwrap_or(None).map(|v| v.bytes());
            if got != want {
                bad.push((
                    "populate-old".into(),
                    format!(
                        "populate received old={:?}, expected {:?}",
                        got.as_ref().map(|b| world::describe_bytes(b)),
                        want.as_ref().map(|b| world::describe_bytes(b))
                    ),
                ));
            }
        }
    }
    // read-only levels: identical; only the first copy's atime may change
    let w = if cell.has_writer() { 1 } else { 0 };
    let nlevels = cell.contents.len();
    for lvl in w..nlevels {
        let snap_idx = lvl - w + 1;
        let d = world::diff(&run.before[snap_idx], &run.after[snap_idx], false);
        for (kind, rel) in d {
            let is_first_copy = m.first == Some(lvl) && run.copies[lvl].as_ref().map(|c| c.0 == rel).unwrap_or(false);
            // (with a checker configured every copy is read for the comparison)
            let is_copy = run.copies[lvl].as_ref().map(|c| c.0 == rel).unwrap_or(false);
            if kind == "atime" && (is_first_copy || (cell.checker != 0 && is_copy)) {
                continue;
            }
            bad.push((
                "read-level-changed".into(),
                format!("read-only level {} changed: {} {}", lvl - w, kind, rel),
            ));
        }
    }
    // no level after the first hit is consulted (no checker)
    if cell.checker == 0 {
        if let Some(f) = m.first {
            for lvl in (f + 1).max(w)..nlevels {
                let dir = run.level_dirs[lvl].to_string_lossy().into_owned();
                if let Some(e) = run.trace.iter().find(|e| {
                    matches!(e.kind, Kind::Open | Kind::Utimens | Kind::Stat) && e.path.as_ref().map(|p| p.starts_with(&dir)).unwrap_or(false)
                }) {
                    bad.push((
                        "later-level-consulted".into(),
                        format!("level {} was accessed after an earlier hit: {}", lvl, e.func),
                    ));
                }
            }
        }
    }
    // touch marks the first copy
    if cell.op == MOp::Touch {
        if let Some(f) = m.first {
            let snap_idx = if cell.has_writer() { f } else { f + 1 };
            let rel = &run.copies[f].as_ref().unwrap().0;
            let b = &run.before[snap_idx][rel];
            let a = run.after[snap_idx].get(rel);
            match a {
                Some(a) if a.meta.atime > b.meta.atime && a.meta.mtime == b.meta.mtime => {}
                _ => bad.push(("touch-no-mark".into(), "touch did not advance the access time of the first copy only".into())),
            }
        }
    }
    // write level afterwards
    let entries = write_entries(run);
    match (cell.has_writer(), m.write_after) {
        (false, _) => {
            if !run.after[0].is_empty() {
                bad.push(("write-dir-created".into(), "something was created at the unconfigured write path".into()));
            }
        }
        (true, None) => {
            if !entries.is_empty() {
                bad.push(("unexpected-publication".into(), format!("write cache holds {:?}", entries.iter().map(|e| &e.0).collect::<Vec<_>>())));
            }
        }
        (true, Some(v)) => {
            if entries.len() != 1 {
                bad.push((
                    "write-copies".into(),
                    format!("write cache holds {} copies of the key, expected exactly 1", entries.len()),
                ));
            } else {
                let (rel, node) = &entries[0];
                if node.content.as_deref() != Some(&v.bytes()[..]) {
                    bad.push((
                        "write-content".into(),
                        format!(
                            "write cache holds {} for the key, expected {}",
                            world::describe_bytes(node.content.as_deref().unwrap_or(&[])),
                            v.label()
                        ),
                    ));
                }
                if node.meta.perm() & 0o222 != 0 {
                    bad.push(("write-mode".into(), format!("published entry is writable: {:o}", node.meta.perm())));
                }
                let prior = run.before[0].get(rel);
                if m.published {
                    if prior.map(|p| p.meta.ino) == Some(node.meta.ino) {
                        bad.push(("not-republished".into(), "entry should have been (re)published but the inode is unchanged".into()));
                    }
                } else if let Some(p) = prior {
                    if p.meta.ino != node.meta.ino || p.meta.mtime != node.meta.mtime {
                        bad.push(("overwritten".into(), "existing write-cache entry was replaced or re-stamped".into()));
                    }
                }
            }
        }
    }
    // no temporary file remains anywhere, the source is consumed
    for (i, snap) in run.after.iter().enumerate() {
        for (k, n) in snap {
            if n.kind == 'f' && k.contains(".kismet_temp/") {
                bad.push(("temp-leak".into(), format!("temporary file left behind in level {}: {}", i, k)));
            }
        }
    }
    if run.tmp_snapshot_after.iter().any(|(_, n)| n.kind == 'f') {
        bad.push(("source-not-consumed".into(), "the source file handed to set/put still exists".into()));
    }
    bad
}

pub fn cells() -> Vec<Cell> {
    let mut out = Vec::new();
    for (w, r) in shapes() {
        let levels: Vec<_> = w.iter().copied().chain(r.iter().copied()).collect();
        for contents in content_products(&levels) {
            let mut ops: Vec<(MOp, u8)> = vec![
                (MOp::Get, 0),
                (MOp::Touch, 0),
                (MOp::Set, 0),
                (MOp::Put, 0),
                (MOp::SetTemp, 0),
                (MOp::PutTemp, 0),
            ];
            for pop in [0u8, 3u8, 4u8, 5u8] {
                ops.push((MOp::Ensure, pop));
                for a in [crate::ops::Act::Accept, crate::ops::Act::Promote, crate::ops::Act::Replace] {
                    ops.push((MOp::Gou(a), pop));
                }
            }
            // the hit actions with a (byte-equality, counting) checker configured: populate then yields the value of the
            // first copy (comparison passes), another value (mismatch: the call fails, nothing changes) or NotFound
            // (comparison skipped); the judge's verdict applies all the same
            let mut checked: Vec<(MOp, u8)> = Vec::new();
            for pop in [1u8, 2, 3] {
                checked.push((MOp::Ensure, pop));
                for a in [crate::ops::Act::Accept, crate::ops::Act::Promote, crate::ops::Act::Replace] {
                    checked.push((MOp::Gou(a), pop));
                }
            }
            for (op, pop) in checked {
                out.push(Cell {
                    writer: w,
                    readers: r.clone(),
                    contents: contents.clone(),
                    op,
                    pop,
                    checker: 1,
                    umask: 0o022,
                    auto_sync: true,
                    size: crate::world::Size::One,
                });
            }
            for (op, pop) in ops {
                for size in matrix_sizes() {
                    // (the size only matters where a new value is written)
                    if size != crate::world::Size::One && !(matches!(op, MOp::Set | MOp::Put | MOp::SetTemp | MOp::PutTemp) || (pop == 0 && op.uses_populate())) {
                        continue;
                    }
                    out.push(Cell {
                        writer: w,
                        readers: r.clone(),
                        contents: contents.clone(),
                        op,
                        pop,
                        checker: 0,
                        umask: 0o022,
                        auto_sync: true,
                        size,
                    });
                }
            }
        }
    }
    out
}

fn record(cell: &Cell, rep: &mut Report) {
    rep.evaluations += 1;
    rep.states += 1;
    rep.traces += 1;
    let run = run_cell(cell);
    rep.transitions += run.trace.len() as u64;
    rep.outcomes.insert(world::fnv(format!("{}|{}", cell.op.label(), run.outcome.res.label()).as_bytes()));
    if cell.contents.iter().filter(|&&c| c != 0).count() >= 1 && cell.contents.len() >= 2 {
        rep.count("nontrivial_count", 1);
    }
    for (sig, msg) in check(&run) {
        rep.violation(format!("stack:{}", sig), format!("{}: {}", cell.to_json(), msg), cell.to_json());
    }
    // the same cell with a write level that is exactly full of recently read entries while the operation's
    // maintenance fires: whatever the operation stores (a promoted copy, a populated or replaced value, a set/put) is
    // still in the write cache when it returns
    if cell.has_writer() && cell.contents[0] == 0 && cell.checker == 0 && cell.pop == 0 && !matches!(cell.op, MOp::Get | MOp::Touch) {
        CROWDED_WRITER.with(|c| c.set(true));
        let r2 = run_cell(cell);
        CROWDED_WRITER.with(|c| c.set(false));
        rep.evaluations += 1;
        rep.states += 1;
        rep.traces += 1;
        rep.transitions += r2.trace.len() as u64;
        rep.count("crowded_writer_cells", 1);
        let mut seen = std::collections::BTreeSet::new();
        for (sig, msg) in check(&r2) {
            if seen.insert(sig.clone()) {
                let mut case = cell.to_json();
                case["crowded_writer"] = serde_json::json!(true);
                rep.violation(format!("stack:{}", sig), format!("{} [write level full of read entries, maintenance firing]: {}", cell.to_json(), msg), case);
            }
        }
    }
    // the same lookup cell with every planted copy holding the empty value (0 bytes is a value like any other)
    let w0 = if cell.has_writer() { 1 } else { 0 };
    if matches!(cell.op, MOp::Get | MOp::Touch | MOp::Ensure | MOp::Gou(_)) && cell.contents.iter().skip(w0).any(|&c| c != 0) && cell.checker == 0 && cell.pop == 0 {
        PLANTED_SIZE.with(|s| s.set(world::Size::Empty));
        let r2 = run_cell(cell);
        let found = check(&r2);
        PLANTED_SIZE.with(|s| s.set(world::Size::Five));
        rep.evaluations += 1;
        rep.states += 1;
        rep.traces += 1;
        rep.transitions += r2.trace.len() as u64;
        rep.count("empty_value_cells", 1);
        let mut seen = std::collections::BTreeSet::new();
        for (sig, msg) in found {
            if seen.insert(sig.clone()) {
                let mut case = cell.to_json();
                case["planted_empty"] = serde_json::json!(true);
                rep.violation(format!("stack:{}", sig), format!("{} [the planted copies are empty files]: {}", cell.to_json(), msg), case);
            }
        }
    }
    // the same cell with the handle built before any of its directories existed
    if matches!(cell.op, MOp::Get | MOp::Touch | MOp::Ensure | MOp::Gou(_)) && cell.contents.iter().any(|&c| c != 0) && cell.checker == 0 {
        LATE_DIRS.with(|l| l.set(true));
        let r2 = run_cell(cell);
        LATE_DIRS.with(|l| l.set(false));
        rep.evaluations += 1;
        rep.states += 1;
        rep.traces += 1;
        rep.transitions += r2.trace.len() as u64;
        rep.count("late_directory_cells", 1);
        let mut seen = std::collections::BTreeSet::new();
        for (sig, msg) in check(&r2) {
            if seen.insert(sig.clone()) {
                let mut case = cell.to_json();
                case["late_dirs"] = serde_json::json!(true);
                rep.violation(format!("stack:{}", sig), format!("{} [handle built before its directories existed]: {}", cell.to_json(), msg), case);
            }
        }
    }
    // the same cell through a builder driven differently: a checker set first and then cleared (or overridden by
    // the configured one), and the options given in the opposite order; nothing of that may change an answer
    if matches!(cell.op, MOp::Get | MOp::Ensure | MOp::Gou(_)) && cell.contents.iter().filter(|&&c| c != 0).count() >= 1 {
        for style in [3u8, 4] {
            crate::ops::BUILDER_STYLE.with(|b| b.set(style));
            let r2 = run_cell(cell);
            crate::ops::BUILDER_STYLE.with(|b| b.set(0));
            rep.evaluations += 1;
            rep.states += 1;
            rep.traces += 1;
            rep.transitions += r2.trace.len() as u64;
            rep.count("builder_style_cells", 1);
            let mut seen = std::collections::BTreeSet::new();
            for (sig, msg) in check(&r2) {
                if seen.insert(sig.clone()) {
                    let mut case = cell.to_json();
                    case["builder_style"] = serde_json::json!(style);
                    rep.violation(format!("stack:{}", sig), format!("{} [builder style {}]: {}", cell.to_json(), style, msg), case);
                }
            }
        }
    }
    unreadable_first_copy_cases(cell, &run, rep);
    unstampable_level_cases(cell, &run, rep);
}

/// Every attempt to stamp a file of a read-only level is refused (EPERM: files owned by someone else; EROFS: a
/// read-only mount): marking a hit as used is best effort there, and the stack resolves exactly as otherwise.
fn unstampable_level_cases(cell: &Cell, run: &CellRun, rep: &mut Report) {
    let m = model(cell);
    let w = if cell.has_writer() { 1 } else { 0 };
    let lookup = matches!(cell.op, MOp::Get | MOp::Ensure | MOp::Gou(_)) && cell.pop == 0 && cell.checker == 0;
    if !lookup || !matches!(m.first, Some(f) if f >= w) {
        return;
    }
    let _ = run;
    for errno in [libc::EPERM, libc::EROFS] {
        let ctl = std::sync::Arc::new(RefuseSuffix { errno, hits: std::sync::atomic::AtomicU64::new(0) });
        CONTROLLER.with(|c| *c.borrow_mut() = Some(ctl.clone() as std::sync::Arc<dyn crate::shim::Controller>));
        let r2 = run_cell(cell);
        CONTROLLER.with(|c| *c.borrow_mut() = None);
        rep.evaluations += 1;
        rep.states += 1;
        rep.traces += 1;
        rep.transitions += r2.trace.len() as u64;
        rep.count("unstampable_level_cases", 1);
        let mut seen = std::collections::BTreeSet::new();
        for (sig, msg) in check(&r2) {
            if seen.insert(sig.clone()) {
                rep.violation(
                    format!("stack:{}", sig),
                    format!("{} [timestamps of the read-only levels cannot be set: errno {}]: {}", cell.to_json(), errno, msg),
                    serde_json::json!({"cell": cell.to_json(), "unstampable": errno}),
                );
            }
        }
    }
}

/// (read-only levels live in directories named r0, r1, ... under the case's scratch root)
struct RefuseSuffix {
    errno: i32,
    hits: std::sync::atomic::AtomicU64,
}

impl crate::shim::Controller for RefuseSuffix {
    fn before(&self, ev: &crate::shim::Ev) -> crate::shim::Action {
        let in_ro = ev.path.as_ref().map(|p| p.contains("/r0/") || p.contains("/r1/") || p.contains("/r2/")).unwrap_or(false);
        if ev.kind == Kind::Utimens && in_ro {
            self.hits.fetch_add(1, std::sync::atomic::Ordering::SeqCst);
            return crate::shim::Action::Fail(self.errno);
        }
        crate::shim::Action::Proceed
    }
}

/// Lookup order under a failure: when the first level holding the key cannot be read (EACCES, EIO,
/// EMFILE on opening its copy), the lookup fails; it does not resolve to a copy further down the
/// stack (nor to a miss), and nothing is promoted or populated on the strength of that later copy.
fn unreadable_first_copy_cases(cell: &Cell, run: &CellRun, rep: &mut Report) {
    let m = model(cell);
    let lookup = matches!(cell.op, MOp::Get | MOp::Ensure | MOp::Gou(_)) && cell.pop == 0;
    let first = match m.first {
        Some(f) if lookup => f,
        _ => return,
    };
    if !cell.contents.iter().enumerate().any(|(l, &c)| l > first && c != 0) {
        return; // no later copy to fall through to
    }
    let w = if cell.has_writer() { 1 } else { 0 };
    let dirname = if first < w { "w".to_string() } else { format!("r{}", first - w) };
    let rel = run.copies[first].as_ref().unwrap().0.clone();
    for errno in [libc::EACCES, libc::EIO, libc::EMFILE] {
        let ctl = std::sync::Arc::new(crate::props::c14::FailOpenOf {
            suffix: format!("/{}/{}", dirname, rel),
            errno,
            done: std::sync::atomic::AtomicBool::new(false),
        });
        CONTROLLER.with(|c| *c.borrow_mut() = Some(ctl.clone() as std::sync::Arc<dyn crate::shim::Controller>));
        let r2 = run_cell(cell);
        CONTROLLER.with(|c| *c.borrow_mut() = None);
        rep.evaluations += 1;
        rep.states += 1;
        rep.traces += 1;
        rep.transitions += r2.trace.len() as u64;
        rep.count("unreadable_first_copy_cases", 1);
        if !ctl.done.load(std::sync::atomic::Ordering::SeqCst) {
            continue;
        }
        let mut bad: Vec<(String, String)> = Vec::new();
        if !r2.outcome.res.is_err() {
            bad.push(("fell-through-unreadable-level".into(), format!("returned {} instead of the error", r2.outcome.res.label())));
        }
        if r2.outcome.populate_calls != 0 || !r2.outcome.judge.is_empty() {
            bad.push(("fell-through-unreadable-level".into(), format!("judge consulted {} times, populate called {} times", r2.outcome.judge.len(), r2.outcome.populate_calls)));
        }
        for (b, a) in r2.before.iter().zip(r2.after.iter()) {
            let d = world::diff(b, a, true);
            if !d.is_empty() {
                bad.push(("fell-through-unreadable-level".into(), format!("a cache directory was modified: {:?}", d)));
            }
        }
        if let Some((_, msg)) = bad.first() {
            rep.violation(
                "stack:fell-through-unreadable-level",
                format!("{}: opening the first copy (level {}) failed with errno {}: {}", cell.to_json(), first, errno, msg),
                serde_json::json!({"cell": cell.to_json(), "unreadable_level": first, "errno": errno}),
            );
        }
    }
}

/// Replace (and a miss) must store and return the caller's own new value even when another writer
/// publishes the key while the value is being populated.
fn concurrent_programs() -> Vec<(crate::sched::Program, crate::props::e1::Mode)> {
    use crate::ops::{Act, Op, Pop};
    use crate::props::e1::{self, api, planted, Mode};
    use crate::world::{Size, Val};
    let k = e1::key1();
    let mut out = Vec::new();
    for (front, cfg) in [("stack", e1::stack_cfg(1 << 40)), ("plain", e1::plain_cfg(1 << 40))] {
        let ro = planted("@k", Val::new(21, Size::Five), false, 50);
        let own = planted("k", Val::new(0, Size::Five), false, 3);
        let v = |t: usize| e1::wval(t, 0, Size::One);
        let mut add = |name: &str, pre: Vec<crate::sched::Planted>, other: Op| {
            let pre = if front == "stack" { pre } else { pre.into_iter().filter(|p| !p.rel.starts_with('@')).collect() };
            out.push((
                crate::sched::Program {
                    name: format!("replace-{}-{}", front, name),
                    cfg: cfg.clone(),
                    pre,
                    threads: e1::own_handles(vec![vec![api(Op::Gou(k.clone(), Act::Replace, Pop::Value(v(0))))], vec![api(other)]], false),
                    create_write_dir: true,
                },
                crate::props::e1::side_bound(),
            ));
        };
        add("secondary|set", vec![ro.clone()], Op::Set(k.clone(), v(1)));
        add("secondary|put", vec![ro.clone()], Op::Put(k.clone(), v(1)));
        add("primary|set", vec![ro.clone(), own.clone()], Op::Set(k.clone(), v(1)));
        add("secondary|ensure", vec![ro.clone()], Op::Ensure(k.clone(), Pop::Value(v(1))));
    }
    out
}

fn concurrent_check(x: &crate::sched::Execution) -> Vec<(String, String)> {
    use crate::ops::{Act, Op, Pop};
    let mut bad = Vec::new();
    for r in &x.history {
        if let crate::sched::POp::Api(Op::Gou(_, Act::Replace, Pop::Value(v))) = &r.op {
            // when there was something to replace (judge consulted) or nothing at all (miss), the call returns
            // its own freshly populated value
            match &r.outcome.res {
                Res::Hit(b) if b == &v.bytes() => {}
                Res::Hit(b) if r.outcome.judge.is_empty() => {
                    // a miss: put semantics, the winner's value may legitimately come back
                    let _ = b;
                }
                other => bad.push((
                    "replace-returned-other-value".into(),
                    format!("get_or_update with Replace (judge consulted: {}) returned {}, not the value it populated ({})", !r.outcome.judge.is_empty(), other.label(), v.label()),
                )),
            }
        }
    }
    bad
}


/// Entries that are symbolic links to regular files (a read-only level deployed as a link farm over a
/// content-addressed store, or a value handed to `set` as a link): a link is a copy like any other.  Stacks of up to
/// three levels, each holding nothing / a regular copy / a linked copy (every level its own value), under get, touch
/// and ensure: the first copy found is returned (ensure: without populating), touch reports it, and the mark lands
/// on the first copy only.
fn symlinked_copy_section(shard: Shard, rep: &mut Report) {
    use crate::ops::{self, Front, Op, Pop, StackCfg};
    use crate::world::{Scratch, Size, Val};
    let writers: [Option<Front>; 3] = [None, Some(Front::Plain), Some(Front::Sharded(NSHARDS))];
    let reader_sets: Vec<Vec<Front>> = vec![vec![], vec![Front::Plain], vec![Front::Sharded(NSHARDS)], vec![Front::Plain, Front::Plain], vec![Front::Plain, Front::Sharded(NSHARDS)], vec![Front::Sharded(NSHARDS), Front::Plain]];
    let mut no = 0u64;
    for w in writers {
        for readers in &reader_sets {
            let levels: Vec<Front> = w.iter().copied().chain(readers.iter().copied()).collect();
            if levels.is_empty() {
                continue;
            }
            for code in 0..3u32.pow(levels.len() as u32) {
                let contents: Vec<u8> = (0..levels.len()).map(|i| ((code / 3u32.pow(i as u32)) % 3) as u8).collect();
                if !contents.contains(&2) {
                    continue; // no linked copy: the main matrix
                }
                for opno in 0..3u8 {
                    if opno == 2 && w.is_none() && false {
                        continue;
                    }
                    no += 1;
                    if !shard.mine(no) {
                        continue;
                    }
                    let opname = ["get", "touch", "ensure"][opno as usize];
                    let case = serde_json::json!({"symlinked": true, "writer": w.map(|f| f.label()), "readers": readers.iter().map(|f| f.label()).collect::<Vec<_>>(), "contents": contents, "op": opname});
                    crate::run::reset_env();
                    let sc = Scratch::new();
                    let dirs = ops::Dirs::under(&sc.root, readers.len());
                    let old = crate::run::base_time_ns() as i128 - 86_400_000_000_000;
                    let mut level_dirs = Vec::new();
                    if w.is_some() {
                        level_dirs.push(dirs.write.clone());
                    }
                    level_dirs.extend(dirs.reads.iter().cloned());
                    let k = the_key();
                    // where a copy's bytes live: the entry itself, or the file it links to
                    let mut payloads: Vec<Option<std::path::PathBuf>> = Vec::new();
                    for (i, (&front, &c)) in levels.iter().zip(contents.iter()).enumerate() {
                        crate::shim::passthrough(|| std::fs::create_dir_all(&level_dirs[i]).unwrap());
                        if c == 0 {
                            payloads.push(None);
                            continue;
                        }
                        let entry = ops::candidate_dirs(&level_dirs[i], front, &k)[0].join("key");
                        let v = Val::new(i as u8, Size::Five);
                        let m = old - (i as i128) * 1_000_000_000;
                        if c == 1 {
                            world::plant(&entry, &v.bytes(), 0o444, m - 120_000_000_000, m);
                            payloads.push(Some(entry));
                        } else {
                            let payload = sc.path(&format!("store/blob{}", i));
                            world::plant(&payload, &v.bytes(), 0o444, m - 120_000_000_000, m);
                            crate::shim::passthrough(|| {
                                std::fs::create_dir_all(entry.parent().unwrap()).unwrap();
                                std::os::unix::fs::symlink(&payload, &entry).unwrap();
                            });
                            world::set_times(&entry, m - 120_000_000_000, m);
                            payloads.push(Some(payload));
                        }
                    }
                    let cfg = StackCfg { writer: w.map(|f| (f, writer_capacity(f))), readers: readers.clone(), checker: ops::Checker::None, auto_sync: true };
                    let cache = ops::build(&cfg, &dirs, None);
                    let before: Vec<Option<world::Meta>> = payloads.iter().map(|p| p.as_ref().and_then(|p| world::lstat(p))).collect();
                    let op = match opno {
                        0 => Op::Get(k.clone()),
                        1 => Op::Touch(k.clone()),
                        _ => Op::Ensure(k.clone(), Pop::Value(Val::new(9, Size::One))),
                    };
                    let (o, trace) = crate::run::as_participant(0, 0, || ops::exec(&cache, &dirs, &op, &Default::default()));
                    rep.evaluations += 1;
                    rep.states += 1;
                    rep.traces += 1;
                    rep.transitions += trace.len() as u64;
                    rep.count("symlinked_copy_cases", 1);
                    rep.count("nontrivial_count", 1);
                    let o = match o {
                        Ok(o) => o,
                        Err(p) => {
                            rep.violation("stack:symlinked-copy", format!("{}: panicked: {}", case, p), case.clone());
                            continue;
                        }
                    };
                    let after: Vec<Option<world::Meta>> = payloads.iter().map(|p| p.as_ref().and_then(|p| world::lstat(p))).collect();
                    let first = contents.iter().position(|&c| c != 0).unwrap();
                    let want = Val::new(first as u8, Size::Five).bytes();
                    let mut bad: Vec<String> = Vec::new();
                    match (opno, &o.res) {
                        (0, Res::Hit(b)) | (2, Res::Hit(b)) if *b == want => {}
                        (1, Res::Bool(true)) => {}
                        (_, r) => bad.push(format!("returned {}, the first copy (level {}) holds {}", r.label(), first, world::describe_bytes(&want))),
                    }
                    if opno == 2 && o.populate_calls != 0 && !(w.is_some() && first > 0 && false) {
                        // ensure = get_or_update with Promote on a read-side hit and Accept on a write-side hit: no populate
                        bad.push(format!("populate was called {} times although a copy exists", o.populate_calls));
                    }
                    for (i, (b, a)) in before.iter().zip(after.iter()).enumerate() {
                        let (b, a) = match (b, a) {
                            (Some(b), Some(a)) => (b, a),
                            (None, None) => continue,
                            _ => {
                                bad.push(format!("the copy of level {} appeared or disappeared", i));
                                continue;
                            }
                        };
                        if a.mtime != b.mtime {
                            bad.push(format!("the copy of level {} was re-stamped", i));
                        }
                        if i == first {
                            if a.atime <= b.atime {
                                bad.push(format!("the first copy (level {}) was not marked as used", i));
                            }
                        } else if a.atime != b.atime {
                            bad.push(format!("the copy of level {} (not the first one) was marked", i));
                        }
                    }
                    if let Some(m) = bad.first() {
                        rep.violation("stack:symlinked-copy", format!("{}: {}", case, m), case.clone());
                    }
                }
            }
        }
    }
}

pub fn run(_tier: Tier, shard: Shard, rep: &mut Report) {
    set_tier(_tier);
    rep.rule = "full matrix: write side {none, plain, sharded(3)} x read-only list {[], [p], [s], [p,p], [p,s], [s,p], [s,s]} x \
        per-level content {nothing, A, B} (sharded levels: value in the primary or the secondary shard) x operation {get, touch, \
        set, put, set_temp_file, put_temp_file, ensure, get_or_update x {Accept, Promote, Replace}} x populate {value, NotFound, other error}, no \
        checker, the writing cells again with the write level exactly full of recently read entries and maintenance firing; the lookup cells again with the handle built before any of its directories existed, and with every planted copy an empty file; \
        and the hit actions again with a byte-equality checker and populate {value of the first copy, other value, NotFound} (and, for every lookup cell with a later copy, the first copy's open failing with EACCES/EIO/EMFILE: the lookup must fail \
        rather than resolve further down the stack); oracle = stack-resolution reference model on result, judge arguments, populate arguments, per-level before/after \
        snapshots, trace (no level after the first hit is touched), temp-file and source residue. Plus: get_or_update with Replace racing with another writer of the same key (all \
        schedules with <= 2 preemptions): it must return the value it populated. Plus stacks of up to three levels where copies are symbolic links to regular files \
        (nothing / regular / linked per level, get, touch, ensure): a linked copy is a copy. Non-trivial = >= 2 levels and at least one copy present."
        .into();
    rep.assumptions = vec!["value identities A/B/C are 5-byte/1-byte files; sizes are varied in C03/C01".into()];
    let all = cells();
    for (i, cell) in all.iter().enumerate() {
        if !shard.mine(i as u64) {
            continue;
        }
        record(cell, rep);
        if i % 2503 == 0 {
            rep.sample(cell.to_json());
        }
    }
    rep.fact("cells_total", serde_json::json!(all.len()));
    symlinked_copy_section(shard, rep);
    let progs = concurrent_programs();
    let mut chk = |_pi: usize, x: &crate::sched::Execution| concurrent_check(x);
    crate::props::e1::explore_all("C13", &progs, shard, rep, &|_| crate::sched::RunOpts::default(), &mut chk, 500_000);
}

pub fn replay(case: &Value, rep: &mut Report) {
    if case.get("program").is_some() {
        let progs: Vec<crate::sched::Program> = concurrent_programs().into_iter().map(|p| p.0).collect();
        let mut chk = |x: &crate::sched::Execution| concurrent_check(x);
        crate::props::e1::replay_case("C13", &progs, case, rep, &|| crate::sched::RunOpts::default(), &mut chk);
        return;
    }
    if case.get("symlinked").is_some() {
        symlinked_copy_section(Shard { index: 0, count: 1 }, rep);
        return;
    }
    if case.get("cell").is_some() {
        record(&Cell::from_json(&case["cell"]), rep);
        return;
    }
    // (builder styles 3 and 4 are re-run by record itself)
    record(&Cell::from_json(case), rep);
}
