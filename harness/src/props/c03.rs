//! C03 — with auto_sync, data is durable before it is visible and immutable afterwards.
use crate::ops::{Act, Front, Res};
use crate::props::stackmx::*;
use crate::report::{Report, Shard, Tier};
use crate::shim::{self, Action, Controller, Ev, Kind};
use crate::world::{self, Size};
use serde_json::{json, Value};
use std::sync::atomic::{AtomicI64, Ordering::SeqCst};
use std::sync::Arc;

/// Fails the n-th fsync/fdatasync of the operation with `errno`.
pub struct FsyncFault {
    pub nth: i64,
    pub errno: i32,
    seen: AtomicI64,
}

impl Controller for FsyncFault {
    fn before(&self, ev: &Ev) -> Action {
        if ev.kind == Kind::Fsync {
            let k = self.seen.fetch_add(1, SeqCst);
            if k == self.nth {
                return Action::Fail(self.errno);
            }
        }
        Action::Proceed
    }
}

/// Fails the n-th call of one kind with `errno` (used by several properties' fault sections).
pub struct NthKindFault {
    pub kind: Kind,
    pub nth: i64,
    pub errno: i32,
    seen: AtomicI64,
}

impl NthKindFault {
    pub fn new(kind: Kind, nth: i64, errno: i32) -> NthKindFault {
        NthKindFault { kind, nth, errno, seen: AtomicI64::new(0) }
    }
}

impl Controller for NthKindFault {
    fn before(&self, ev: &Ev) -> Action {
        if ev.kind == self.kind {
            let k = self.seen.fetch_add(1, SeqCst);
            if k == self.nth {
                return Action::Fail(self.errno);
            }
        }
        Action::Proceed
    }
}

#[derive(Clone, Debug)]
pub struct Case {
    pub cell: Cell,
    pub planted: Size,
    pub maintain: bool,
    /// (which fsync, errno) to fail, if any
    pub fault: Option<(i64, i32)>,
    /// how the builder is obtained (ops::BUILDER_STYLE): auto-sync is the default whichever way
    pub builder: u8,
    /// any single fault instead: (index of the call in the fault-free trace, its kind, what happens)
    pub any_fault: Option<(u64, Kind, Action)>,
    /// permission bits the application gave a by-path source before the call (0 = as created, 0600)
    pub source_mode: u32,
    /// the write level is exactly full of entries read since their insertion (stackmx::CROWDED_WRITER): the
    /// operation's maintenance has entries to re-queue
    pub crowded: bool,
}

impl Case {
    fn to_json(&self) -> Value {
        json!({"cell": self.cell.to_json(), "planted": size_code(self.planted), "maintain": self.maintain,
               "fault": self.fault.map(|f| json!([f.0, f.1])), "builder": self.builder, "source_mode": self.source_mode, "crowded": self.crowded,
               "any_fault": self.any_fault.map(|(k, kind, a)| json!([k, format!("{:?}", kind), crate::props::c18::action_json(&a)]))})
    }
    fn from_json(v: &Value) -> Case {
        Case {
            cell: Cell::from_json(&v["cell"]),
            planted: code_size(v["planted"].as_u64().unwrap()),
            maintain: v["maintain"].as_bool().unwrap(),
            fault: v["fault"].as_array().map(|a| (a[0].as_i64().unwrap(), a[1].as_i64().unwrap() as i32)),
            builder: v["builder"].as_u64().unwrap_or(0) as u8,
            source_mode: v["source_mode"].as_u64().unwrap_or(0) as u32,
            crowded: v["crowded"].as_bool().unwrap_or(false),
            // (the kind is re-derived from the fault-free trace on replay)
            any_fault: v["any_fault"].as_array().map(|a| (a[0].as_u64().unwrap(), Kind::Other, crate::props::c18::action_from(&a[2]))),
        }
    }
}

fn size_code(s: Size) -> u64 {
    match s {
        Size::Empty => 0,
        Size::One => 1,
        Size::Five => 5,
        Size::Chunks => 3,
        Size::Large => 12,
    }
}
fn code_size(c: u64) -> Size {
    match c {
        0 => Size::Empty,
        1 => Size::One,
        5 => Size::Five,
        12 => Size::Large,
        _ => Size::Chunks,
    }
}

fn run_case(case: &Case) -> CellRun {
    PLANTED_SIZE.with(|s| s.set(case.planted));
    FORCE_MAINTENANCE.with(|f| f.set(case.maintain));
    CONTROLLER.with(|c| {
        *c.borrow_mut() = case.fault.map(|(nth, errno)| {
            Arc::new(FsyncFault { nth, errno, seen: AtomicI64::new(0) }) as Arc<dyn Controller>
        });
        if let Some((k, kind, a)) = case.any_fault {
            *c.borrow_mut() = Some(Arc::new(crate::props::c18::FailAt {
                faults: vec![(k, a)],
                kinds: vec![if kind == Kind::Other { None } else { Some(kind) }],
                n: std::sync::atomic::AtomicU64::new(0),
                hit: std::sync::Mutex::new(vec![]),
            }) as Arc<dyn Controller>);
        }
    });
    crate::ops::BUILDER_STYLE.with(|b| b.set(case.builder));
    crate::ops::SOURCE_MODE.with(|m| m.set(case.source_mode));
    CROWDED_WRITER.with(|c| c.set(case.crowded));
    let run = run_cell(&case.cell);
    CROWDED_WRITER.with(|c| c.set(false));
    crate::ops::SOURCE_MODE.with(|m| m.set(0));
    crate::ops::BUILDER_STYLE.with(|b| b.set(0));
    PLANTED_SIZE.with(|s| s.set(Size::Five));
    FORCE_MAINTENANCE.with(|f| f.set(false));
    CONTROLLER.with(|c| *c.borrow_mut() = None);
    run
}

fn is_publication(e: &Ev, write_root: &str) -> bool {
    // (a link/rename that took effect but was made to report failure has published all the same)
    matches!(e.kind, Kind::Rename | Kind::Link)
        && (e.ok() || e.effect_done)
        && e.path2.as_ref().map(|p| p.starts_with(write_root) && !p.contains("/.kismet_temp/")).unwrap_or(false)
}

fn is_content(e: &Ev, ino: u64) -> bool {
    e.ok() && e.ino == ino && matches!(e.kind, Kind::Write | Kind::CopyRange | Kind::Truncate)
}

/// The per-inode ordering invariant on a bare call trace (any number of participants).
pub fn order_violations(trace: &[Ev], root: &str, expect_flush: bool) -> Vec<(String, String)> {
    order_violations_opt(trace, root, expect_flush, true)
}

/// `strict_mode`: any chmod of a visible inode counts as re-moding it (what the fault-free paths
/// guarantee); otherwise only one that changes its mode bits (an error path that retries the whole
/// publication repeats the same read-only chmod on what is already visible: no mode changes).
pub fn order_violations_opt(trace: &[Ev], root: &str, expect_flush: bool, strict_mode: bool) -> Vec<(String, String)> {
    struct T<'a> {
        trace: &'a [Ev],
    }
    let run = T { trace };
    let mut bad = Vec::new();
    let pubs: Vec<(usize, &Ev)> = run.trace.iter().enumerate().filter(|(_, e)| is_publication(e, root)).collect();
    for (pi, p) in &pubs {
        let ino = p.ino;
        let last_content = run.trace[..*pi].iter().rposition(|e| is_content(e, ino));
        let lo = last_content.map(|i| i + 1).unwrap_or(0);
        let flushed = run.trace[lo..*pi].iter().any(|e| e.kind == Kind::Fsync && e.ok() && e.ino == ino);
        if expect_flush && !flushed {
            bad.push((
                "publish-before-flush".into(),
                format!("{} published inode {} with no successful fsync between its last content event and publication", p.func, ino),
            ));
        }
        if !expect_flush && flushed {
            bad.push(("control-flushed".into(), "auto_sync(false) still flushed (monitor control)".into()));
        }
        // read-only before it appears
        let last_mode = run.trace[..*pi]
            .iter()
            .rev()
            .find(|e| e.ok() && e.ino == ino && matches!(e.kind, Kind::Chmod | Kind::Fchmod));
        match last_mode {
            Some(e) if (e.arg & 0o222) == 0 => {}
            Some(e) => bad.push(("published-writable".into(), format!("last mode change before publication left mode {:o}", e.arg))),
            None => bad.push(("published-writable".into(), "no chmod/fchmod before publication".into())),
        }
        // immutable afterwards
        for e in &run.trace[*pi + 1..] {
            let remode = matches!(e.kind, Kind::Chmod | Kind::Fchmod) && (strict_mode || (e.arg & 0o222) != 0);
            if e.ino == ino && e.ok() && (is_content(e, ino) || remode) {
                bad.push(("modified-after-publication".into(), format!("{} on the published inode after it became visible", e.func)));
            }
            // (merely opening the published inode for writing changes nothing: filetime's path-touch
            // falls back to an O_WRONLY open; any write/truncate through it is a content event above)

        }
    }
    bad
}

/// The per-inode ordering invariant, on a fault-free run of one matrix cell.
pub fn check_order(run: &CellRun, expect_flush: bool) -> Vec<(String, String)> {
    check_order_opt(run, expect_flush, true)
}

pub fn check_order_opt(run: &CellRun, expect_flush: bool, strict_mode: bool) -> Vec<(String, String)> {
    let root = run.dirs.write.to_string_lossy().into_owned();
    let mut bad = order_violations_opt(&run.trace, &root, expect_flush, strict_mode);
    let pubs: Vec<(usize, &Ev)> = run.trace.iter().enumerate().filter(|(_, e)| is_publication(e, &root)).collect();
    // entries that were visible before the operation began are never written, truncated or re-moded by it (a mode
    // call that names such an entry by path can land on whatever another process has put there in the meantime)
    let visible_before: std::collections::BTreeMap<u64, &String> = run.before[0]
        .iter()
        .filter(|(rel, n)| n.kind == 'f' && !rel.contains(".kismet_temp") && !rel.rsplit('/').next().unwrap_or("").starts_with('.'))
        .map(|(rel, n)| (n.meta.ino, rel))
        .collect();
    for e in &run.trace {
        if !e.ok() || e.ino == 0 {
            continue;
        }
        if let Some(rel) = visible_before.get(&e.ino) {
            if is_content(e, e.ino) || matches!(e.kind, Kind::Chmod | Kind::Fchmod) {
                bad.push(("modified-after-publication".into(), format!("{} on {}, an entry that was already visible when the operation began", e.func, rel)));
            }
        }
    }
    // a fresh entry under the key name must come from a monitored publication
    for (rel, node) in write_entries(run) {
        let fresh = run.before[0].get(&rel).map(|b| b.meta.ino) != Some(node.meta.ino);
        if fresh && !pubs.iter().any(|(_, p)| p.ino == node.meta.ino) {
            bad.push(("unmonitored-publication".into(), format!("{} appeared without a rename/link publication event", rel)));
        }
        if fresh && node.meta.perm() & 0o222 != 0 {
            bad.push(("published-writable".into(), format!("{} visible with mode {:o}", rel, node.meta.perm())));
        }
    }
    bad
}

/// With the n-th fsync failing: error (or the documented panic), and no publication of that inode.
pub fn check_fault(run: &CellRun) -> Vec<(String, String)> {
    let mut bad = Vec::new();
    let root = run.dirs.write.to_string_lossy().into_owned();
    let failed = match run.trace.iter().find(|e| e.kind == Kind::Fsync && e.injected) {
        Some(e) => e.clone(),
        None => return bad,
    };
    let path_variant = matches!(run.cell.op, MOp::Set | MOp::Put);
    match &run.outcome.res {
        Res::Err(..) => {}
        Res::Panic(m) if path_variant && m.contains("auto_sync failed") => {}
        other => bad.push((
            "flush-failure-masked".into(),
            format!("fsync failed (errno {}) but the operation returned {}", failed.errno, other.label()),
        )),
    }
    if run.trace.iter().any(|e| is_publication(e, &root) && e.ino == failed.ino && e.seq > failed.seq) {
        bad.push(("published-after-failed-flush".into(), "the file whose flush failed was published anyway".into()));
    }
    for (rel, node) in write_entries(run) {
        if node.meta.ino == failed.ino {
            bad.push(("published-after-failed-flush".into(), format!("{} is the inode whose flush failed", rel)));
        }
    }
    bad
}

fn base_cases() -> Vec<Case> {
    let mut out = Vec::new();
    let p = Front::Plain;
    let s = Front::Sharded(NSHARDS);
    for writer in [p, s] {
        // (op, readers, contents-without-writer, write content)
        let mut paths: Vec<(MOp, Vec<Front>, Vec<u8>)> = vec![
            (MOp::Set, vec![], vec![0]),
            (MOp::Set, vec![], vec![1]),
            (MOp::Put, vec![], vec![0]),
            (MOp::Put, vec![], vec![1]),
            (MOp::SetTemp, vec![], vec![0]),
            (MOp::SetTemp, vec![], vec![2]),
            (MOp::PutTemp, vec![], vec![0]),
            (MOp::PutTemp, vec![], vec![2]),
            (MOp::Ensure, vec![], vec![0]),
            (MOp::Gou(Act::Accept), vec![], vec![0]),
            (MOp::Gou(Act::Replace), vec![], vec![1]),
            (MOp::Gou(Act::Replace), vec![p], vec![0, 1]),
            (MOp::Gou(Act::Promote), vec![p], vec![0, 1]),
            (MOp::Gou(Act::Promote), vec![s], vec![0, 1]),
            (MOp::Gou(Act::Promote), vec![s], vec![0, 4]),
            (MOp::Ensure, vec![p, s], vec![0, 0, 3]),
            // the key exists in a read-only level only: touch/lookup says "present", yet the write publishes
            (MOp::Put, vec![p], vec![0, 1]),
            (MOp::Set, vec![p], vec![0, 1]),
            (MOp::PutTemp, vec![p], vec![0, 2]),
            (MOp::SetTemp, vec![p], vec![0, 2]),
            (MOp::Put, vec![s], vec![0, 3]),
            (MOp::Put, vec![p, s], vec![0, 0, 4]),
            (MOp::Put, vec![p], vec![1, 1]),
        ];
        if writer == s {
            paths.push((MOp::Set, vec![], vec![3]));
            paths.push((MOp::Put, vec![], vec![4]));
        }
        for (op, readers, contents) in paths {
            for size in [Size::Empty, Size::One, Size::Chunks] {
                for maintain in [false, true] {
                    for auto_sync in [true, false] {
                        out.push(Case {
                            cell: Cell {
                                writer: Some(writer),
                                readers: readers.clone(),
                                contents: contents.clone(),
                                op,
                                pop: 0,
                                checker: 0,
                                umask: 0o022,
                                auto_sync,
                                size,
                            },
                            planted: if size == Size::Empty { Size::One } else { size },
                            maintain,
                            fault: None,
                            builder: 0,
                            any_fault: None,
                            source_mode: 0,
                            crowded: false,
                        });
                        // hit actions with a consistency checker configured (populate supplies the value the hit holds, so
                        // the comparison accepts): promotion and replacement publish all the same
                        if auto_sync && !maintain && size == Size::One && !readers.is_empty() && matches!(op, MOp::Ensure | MOp::Gou(_)) {
                            let held = contents.iter().copied().find(|&c| c != 0).unwrap_or(0);
                            if held != 0 {
                                for checker in [1u8, 3] {
                                    let mut c = out.last().unwrap().clone();
                                    c.cell.checker = checker;
                                    c.cell.pop = if matches!(held, 1 | 3) { 1 } else { 2 };
                                    out.push(c);
                                }
                            }
                        }
                        // maintenance with work to do: the write level full of entries read since their insertion
                        if maintain && size == Size::One {
                            let mut c = out.last().unwrap().clone();
                            c.crowded = true;
                            out.push(c);
                        }
                        // a by-path source the application has already made read-only (or otherwise re-moded)
                        if auto_sync && !maintain && matches!(op, MOp::Set | MOp::Put) {
                            for mode in [0o444u32, 0o400, 0o644, 0o640, 0o664, 0o666, 0o606] {
                                let mut c = out.last().unwrap().clone();
                                c.source_mode = mode;
                                out.push(c);
                            }
                        }
                        // auto-sync left at its default, with the builder obtained the other two ways
                        if auto_sync && !maintain && size == Size::One {
                            for builder in [1u8, 2] {
                                let mut c = out.last().unwrap().clone();
                                c.builder = builder;
                                out.push(c);
                            }
                        }
                    }
                }
            }
        }
    }
    out
}

fn record(case: &Case, rep: &mut Report) {
    rep.evaluations += 1;
    rep.states += 1;
    rep.traces += 1;
    let run = run_case(case);
    rep.transitions += run.trace.len() as u64;
    if std::env::var("KVERIF_DUMP_TRACE").is_ok() {
        for (i, e) in run.trace.iter().enumerate() {
            eprintln!("{:3} {}{}", i, e.brief(), if e.injected { "   <== injected" } else { "" });
        }
        eprintln!("result: {}", run.outcome.res.label());
    }
    let root = run.dirs.write.to_string_lossy().into_owned();
    let npubs = run.trace.iter().filter(|e| is_publication(e, &root)).count();
    if npubs > 0 {
        rep.count("nontrivial_count", 1);
    }
    let bad = if case.any_fault.is_some() {
        // whatever fails, and whatever the library does about it (give up, retry, fall back): an inode that
        // becomes visible under a key was flushed after its last content event and made read-only first
        rep.count("any_fault_cases", 1);
        let mut b = check_order_opt(&run, true, false);
        if let Res::Panic(p) = &run.outcome.res {
            if !p.contains("auto_sync failed") {
                b.push(("panic".into(), format!("panicked: {}", p)));
            }
        }
        b
    } else if case.fault.is_some() {
        rep.count("flush_fault_cases", 1);
        check_fault(&run)
    } else {
        if !case.cell.auto_sync {
            rep.count("control_cells_auto_sync_off", 1);
        }
        let mut b = check_order(&run, case.cell.auto_sync);
        if let Res::Panic(p) = &run.outcome.res {
            b.push(("panic".into(), format!("panicked: {}", p)));
        }
        if run.outcome.res.is_err() {
            b.push(("error".into(), format!("fault-free operation failed: {}", run.outcome.res.label())));
        }
        b
    };
    for (sig, msg) in bad {
        rep.violation(format!("durability:{}", sig), format!("{}: {}", case.to_json(), msg), case.to_json());
    }
}

pub fn run(_tier: Tier, shard: Shard, rep: &mut Report) {
    rep.rule = "every publishing path (set/put by path and by temp-file object onto absent and present keys, ensure and \
        get_or_update misses, Replace on a primary and on a secondary hit, Promote from plain and sharded read-only levels, key living \
        in the secondary shard; the hit actions also with a counting and with the library's byte-equality checker configured) x writer {plain, sharded} x value size {0 B, 1 B, 3 x 8 KiB} x maintenance {fires, does not, fires on a write level full of entries read since insertion} x \
        auto_sync {on, off as a control of the monitor}, the builder obtained by CacheBuilder::new(), by Default::default() and by \
        re-using a builder after take() (auto-sync never mentioned: it must default to on), by-path sources also handed over with \
        mode 0444, 0400, 0644, 0640, 0664, 0666 and 0606; per published inode the trace must show last content event < successful \
        fsync < chmod stripping write bits <= publication, and no content/mode event afterwards, nor any on an entry that was visible before the operation began. Then, for every auto_sync cell, each \
        fsync fails in turn with EIO and ENOSPC: the call must fail (or panic with the documented message for by-path set/put) and \
        that inode must never be published. Then every other call of each auto_sync cell fails in turn in every plausible way (short \
        writes, EXDEV/EMLINK/ESTALE on rename and link, failure after the effect, ...): whatever the library does about it, the same \
        per-inode order must hold for everything that becomes visible, and nothing may appear under a key without a monitored \
        publication. The same per-inode monitor also runs on every schedule with <= 2 preemptions of programs \
        where a write races with an outsider deleting the entry or with another writer (a decision not to flush must not rest on a \
        check another participant can invalidate). Non-trivial = the run contains a publication event."
        .into();
    rep.assumptions = vec![
        "durability is judged by call order (fsync before rename/link); what a disk does after a power loss is out of scope".into(),
        "fdatasync would be accepted as a flush".into(),
    ];
    let mut no = 0u64;
    for case in base_cases() {
        no += 1;
        let mine = shard.mine(no);
        if mine {
            record(&case, rep);
            if no % 97 == 0 {
                rep.sample(case.to_json());
            }
        }
        if !case.cell.auto_sync {
            continue;
        }
        // every fsync of the fault-free run fails in turn
        let probe = if mine { Some(run_case(&case)) } else { None };
        let nsync = match &probe {
            Some(r) => r.trace.iter().filter(|e| e.kind == Kind::Fsync).count(),
            None => 0,
        };
        for k in 0..nsync {
            for errno in [libc::EIO, libc::ENOSPC] {
                let mut c = case.clone();
                c.fault = Some((k as i64, errno));
                record(&c, rep);
            }
        }
        // every call of the fault-free run fails in turn, in every plausible way (EXDEV on rename/link included)
        if let Some(r) = &probe {
            if _tier == Tier::Thorough || (case.builder == 0 && case.cell.size != Size::Empty) {
                for (k, ev) in r.trace.iter().enumerate() {
                    if ev.kind == Kind::Fsync {
                        continue; // above
                    }
                    for a in crate::props::c18::plausible(ev, true) {
                        let mut c = case.clone();
                        c.any_fault = Some((k as u64, ev.kind, a));
                        record(&c, rep);
                    }
                }
            }
        }
    }
    rep.fact("base_cells", json!(no));
    let _ = shim::ORDER_SORTED;
    let _ = world::fnv(b"");
    concurrent(_tier, shard, rep);
}

/// The same monitor under concurrency: the decision "nothing will be published" must not
/// rest on a check that another participant can invalidate before the link/rename.
fn concurrent_programs() -> Vec<(crate::sched::Program, crate::props::e1::Mode)> {
    use crate::ops::{Op, Pop};
    use crate::props::e1::{self, api, planted, Mode};
    use crate::sched::POp;
    use crate::world::Val;
    let k = e1::key1();
    let mut out = Vec::new();
    for front in ["plain", "sharded"] {
        let cfg = if front == "plain" { e1::plain_cfg(1 << 40) } else { e1::sharded_cfg(1 << 40) };
        let loc = if front == "plain" { "k".to_string() } else { format!("{}/k", crate::ops::shard_dir_name(0)) };
        let pre = vec![planted(&loc, Val::one(0), false, 1)];
        let mk = |name: &str, threads: Vec<Vec<POp>>, pre: Vec<crate::sched::Planted>| crate::sched::Program {
            name: format!("durable-{}-{}", front, name),
            cfg: cfg.clone(),
            pre,
            threads: e1::own_handles(threads, false),
            create_write_dir: true,
        };
        let v = |t: usize| e1::wval(t, 0, Size::Five);
        out.push((mk("put|deleter", vec![vec![api(Op::Put(k.clone(), v(0)))], vec![POp::Unlink(loc.clone())]], pre.clone()), crate::props::e1::side_bound()));
        out.push((mk("puttemp|deleter", vec![vec![api(Op::PutTemp(k.clone(), v(0)))], vec![POp::Unlink(loc.clone())]], pre.clone()), crate::props::e1::side_bound()));
        out.push((mk("ensure|deleter", vec![vec![api(Op::Ensure(k.clone(), Pop::Value(v(0))))], vec![POp::Unlink(loc.clone())]], pre.clone()), crate::props::e1::side_bound()));
        out.push((mk("put|set", vec![vec![api(Op::Put(k.clone(), v(0)))], vec![api(Op::Set(k.clone(), v(1)))]], vec![]), crate::props::e1::side_bound()));
        out.push((mk("ensure|ensure", vec![vec![api(Op::Ensure(k.clone(), Pop::Value(v(0))))], vec![api(Op::Ensure(k.clone(), Pop::Value(v(1))))]], vec![]), crate::props::e1::side_bound()));
    }
    out
}

fn concurrent_check(x: &crate::sched::Execution) -> Vec<(String, String)> {
    let root = x.root.join("w").to_string_lossy().into_owned();
    order_violations(&x.trace, &root, true)
}

fn concurrent(_tier: Tier, shard: Shard, rep: &mut Report) {
    let progs = concurrent_programs();
    let mut chk = |_pi: usize, x: &crate::sched::Execution| concurrent_check(x);
    crate::props::e1::explore_all("C03", &progs, shard, rep, &|_| crate::sched::RunOpts::default(), &mut chk, 500_000);
}

pub fn replay(case: &Value, rep: &mut Report) {
    if case.get("program").is_some() {
        let progs: Vec<crate::sched::Program> = concurrent_programs().into_iter().map(|p| p.0).collect();
        let mut chk = |x: &crate::sched::Execution| concurrent_check(x);
        crate::props::e1::replay_case("C03", &progs, case, rep, &|| crate::sched::RunOpts::default(), &mut chk);
        return;
    }
    record(&Case::from_json(case), rep);
}
