//! C17 — maintenance deletes only cache entries and stale temporary files.
use crate::ops;
use crate::report::{Report, Shard, Tier};
use crate::run;
use crate::shim;
use crate::world::{self, Scratch, Snapshot};
use serde_json::{json, Value};
use std::path::Path;

const SEC: i128 = 1_000_000_000;
const LIMIT: i128 = 3600 * SEC;

#[derive(Clone, Debug)]
pub struct Case {
    /// key-named files: 0 old unread, 1 old read, 2 new unread
    pub keys: Vec<u8>,
    /// bit0 `.app` (old, unread), bit1 `.app2` (new), bit2 `.appdir/` with a file,
    /// bit3 `sub/` with a file, bit4 empty directory named like a key
    pub foreign: u8,
    /// `.kismet_temp` content: bit0 age limit-10s, bit1 limit-1s, bit2 exactly limit,
    /// bit3 limit+1s, bit4 limit+1h, bit5 old subdirectory, bit6 old hard link to entry k00,
    /// bit7 (also: a young symbolic link to a payload two limits old, and an old symbolic link to a young payload)
    /// a young (10 min) file that is a second hard link to an application file outside the cache (a value
    /// being staged by link rather than by copy)
    pub temps: u8,
    /// the .kismet_temp directory itself was last modified two hours ago (nothing created or removed there since),
    /// whatever the age of the files in it (a file created long ago and still being written is young)
    pub temp_dir_idle: bool,
    /// plain front-ends only: the application names the cache directory by the empty path (the working directory)
    pub empty_path: bool,
    pub capacity: usize,
    /// 0 plain set, 1 plain put, 2 sharded put, 3 sharded temp_dir(None), 4 stacked ensure (plain writer)
    pub via: u8,
}

impl Case {
    pub fn to_json(&self) -> Value {
        json!({"keys": self.keys, "foreign": self.foreign, "temps": self.temps, "capacity": self.capacity, "via": self.via, "temp_dir_idle": self.temp_dir_idle, "empty_path": self.empty_path})
    }
    pub fn from_json(v: &Value) -> Case {
        Case {
            keys: v["keys"].as_array().unwrap().iter().map(|x| x.as_u64().unwrap() as u8).collect(),
            foreign: v["foreign"].as_u64().unwrap() as u8,
            temps: v["temps"].as_u64().unwrap() as u8,
            temp_dir_idle: v["temp_dir_idle"].as_bool().unwrap_or(false),
            empty_path: v["empty_path"].as_bool().unwrap_or(false),
            capacity: v["capacity"].as_u64().unwrap() as usize,
            via: v["via"].as_u64().unwrap() as u8,
        }
    }
}

const TEMP_NAMES: [&str; 10] = ["t_young10", "t_young1", "t_exact", "t_old1", "t_old3600", "t_olddir", "t_oldlink", "t_younglink", "t_youngsym", "t_oldsym"];

fn materialise(dir: &Path, case: &Case, now: i128) {
    let day = 86_400 * SEC;
    shim::passthrough(|| std::fs::create_dir_all(dir).unwrap());
    for (i, &t) in case.keys.iter().enumerate() {
        let (a, m) = match t {
            0 => (now - day - 120 * SEC, now - day),
            1 => (now - day + 5 * SEC, now - day),
            _ => (now - 600 * SEC - 120 * SEC, now - 600 * SEC),
        };
        world::plant(&dir.join(format!("k{:02}", i)), format!("entry-{}", i).as_bytes(), 0o444, a, m);
    }
    if case.foreign & 1 != 0 {
        // the most evictable thing in the directory
        world::plant(&dir.join(".app"), b"application state", 0o644, now - 3 * day - 120 * SEC, now - 3 * day);
        // and one whose name is not valid UTF-8 (Latin-1 e-acute)
        use std::os::unix::ffi::OsStrExt;
        let odd = std::ffi::OsStr::from_bytes(b".caf\xe9_state");
        world::plant(&dir.join(odd), b"application state", 0o644, now - 4 * day - 120 * SEC, now - 4 * day);
    }
    if case.foreign & 2 != 0 {
        world::plant(&dir.join(".app2"), b"fresh application state", 0o600, now - 10 * SEC, now - 20 * SEC);
    }
    shim::passthrough(|| {
        if case.foreign & 4 != 0 {
            std::fs::create_dir_all(dir.join(".appdir")).unwrap();
            std::fs::write(dir.join(".appdir/data"), b"x").unwrap();
        }
        if case.foreign & 8 != 0 {
            std::fs::create_dir_all(dir.join("sub")).unwrap();
            std::fs::write(dir.join("sub/data"), b"y").unwrap();
        }
        if case.foreign & 16 != 0 {
            std::fs::create_dir_all(dir.join("keylike")).unwrap();
        }
    });
    if case.temps != 0 {
        let tdir = dir.join(".kismet_temp");
        shim::passthrough(|| std::fs::create_dir_all(&tdir).unwrap());
        // (the second one a tenth of a second short of the limit: the clock sits at .05 s of its second, see `run_case`,
        // so that this file's mtime falls in an earlier calendar second than "now - limit" although it is younger)
        let ages: [i128; 5] = [LIMIT - 10 * SEC, LIMIT - SEC / 10, LIMIT, LIMIT + SEC, LIMIT + 3600 * SEC];
        for (b, age) in ages.iter().enumerate() {
            if case.temps & (1 << b) != 0 {
                world::plant(&tdir.join(TEMP_NAMES[b]), b"tmp", 0o600, now - age, now - age);
            }
        }
        if case.temps & 32 != 0 {
            shim::passthrough(|| {
                std::fs::create_dir_all(tdir.join(TEMP_NAMES[5])).unwrap();
                std::fs::write(tdir.join(TEMP_NAMES[5]).join("inner"), b"z").unwrap();
            });
            world::set_times(&tdir.join(TEMP_NAMES[5]).join("inner"), now - 2 * LIMIT, now - 2 * LIMIT);
            world::set_times(&tdir.join(TEMP_NAMES[5]), now - 2 * LIMIT, now - 2 * LIMIT);
        }
        if case.temps & 128 != 0 {
            let blob = dir.parent().unwrap().join(".app_blob");
            world::plant(&blob, b"application blob", 0o644, now - 600 * SEC - 120 * SEC, now - 600 * SEC);
            shim::passthrough(|| std::fs::hard_link(&blob, tdir.join(TEMP_NAMES[7])).unwrap());
            // and two symbolic links: a young one to a payload that is two age limits old, an old one to a young
            // payload (the age that counts is the directory entry's own, not that of what it points to)
            let old_payload = dir.parent().unwrap().join(".app_old_payload");
            world::plant(&old_payload, b"old payload", 0o644, now - 2 * LIMIT, now - 2 * LIMIT);
            shim::passthrough(|| {
                std::os::unix::fs::symlink(&old_payload, tdir.join(TEMP_NAMES[8])).unwrap();
                std::os::unix::fs::symlink(&blob, tdir.join(TEMP_NAMES[9])).unwrap();
            });
            world::set_times(&tdir.join(TEMP_NAMES[8]), now - 600 * SEC, now - 600 * SEC);
            world::set_times(&tdir.join(TEMP_NAMES[9]), now - 2 * LIMIT, now - 2 * LIMIT);
        }
        if case.temps & 64 != 0 && !case.keys.is_empty() {
            shim::passthrough(|| {
                std::fs::hard_link(dir.join("k00"), tdir.join(TEMP_NAMES[6])).unwrap();
            });
            // shares the inode (and times) of k00, which is at least 600 s old: make k00 older than the limit
            let m = now - 2 * LIMIT;
            let a = if case.keys[0] == 1 { m + 5 * SEC } else { m - 120 * SEC };
            world::set_times(&dir.join("k00"), a, m);
        }
        if case.temp_dir_idle {
            world::set_times(&tdir, now - 2 * LIMIT, now - 2 * LIMIT);
        }
    }
}

fn judge(case: &Case, before: &Snapshot, after: &Snapshot, pruned: bool, cleaned: bool) -> Vec<(String, String)> {
    let mut bad = Vec::new();
    for (k, b) in before {
        let a = after.get(k);
        let base = k.rsplit('/').next().unwrap_or(k);
        let in_temp = k.starts_with(".kismet_temp/");
        let top_level = !k.contains('/');
        // directories never disappear
        if b.kind == 'd' {
            if a.map(|a| a.kind) != Some('d') {
                bad.push(("directory-removed".into(), format!("directory {:?} was removed", k)));
            }
            continue;
        }
        if in_temp && k.matches('/').count() == 1 {
            let idx = TEMP_NAMES.iter().position(|n| *n == base);
            match idx {
                Some(0) | Some(1) | Some(7) | Some(8) => {
                    if a.is_none() {
                        bad.push((
                            "young-temp-removed".into(),
                            format!("temporary file {} younger than the age limit was removed", base),
                        ));
                    }
                }
                Some(3) | Some(4) | Some(6) | Some(9) => {
                    // (a hard link shares its inode's mtime: if the published entry was
                    // re-queued by this very maintenance, the link is no longer old)
                    let still_old = a.map(|a| a.meta.mtime < b.meta.mtime + SEC).unwrap_or(false);
                    if a.is_some() && cleaned && still_old {
                        bad.push((
                            "old-temp-kept".into(),
                            format!("temporary file {} older than the age limit survived maintenance", base),
                        ));
                    }
                }
                _ => {}
            }
            continue;
        }
        if top_level && base.starts_with('k') && !base.starts_with("keylike") {
            // key-named entry: may be evicted or re-stamped (C07's business); content never changes
            if let Some(a) = a {
                if a.content != b.content {
                    bad.push(("entry-altered".into(), format!("entry {} changed content", k)));
                }
            } else if !pruned {
                bad.push(("entry-removed-without-prune".into(), format!("entry {} vanished", k)));
            }
            continue;
        }
        // everything else is foreign: application dot-files, files inside subdirectories
        match a {
            None => bad.push((
                if base.starts_with('.') { "dotfile-removed".into() } else { "foreign-removed".into() },
                format!("{:?} (not a cache entry, not a stale temp file) was removed", k),
            )),
            Some(a) => {
                if a.content != b.content
                    || a.meta.perm() != b.meta.perm()
                    || a.meta.mtime != b.meta.mtime
                    || a.meta.atime != b.meta.atime
                    || a.meta.ino != b.meta.ino
                {
                    bad.push((
                        if base.starts_with('.') { "dotfile-altered".into() } else { "foreign-altered".into() },
                        format!("{:?} was altered (content/mode/mtime/atime)", k),
                    ));
                }
            }
        }
    }
    let _ = case;
    bad
}

pub fn run_case(case: &Case, rep: &mut Report) -> Vec<(String, String)> {
    run::reset_env();
    // the clock at 50 ms past a whole second: ages just short of the limit then straddle a calendar second
    shim::clock_virtual((run::base_time_ns() / 1_000_000_000) * 1_000_000_000 + 50_000_000, 1_000_000);
    let sc = Scratch::new();
    let now = shim::clock_peek_ns() as i128;
    let mut bad = Vec::new();
    let src = sc.path("src");
    shim::passthrough(|| std::fs::write(&src, b"new").unwrap());
    let (dir, result, pruned, cleaned): (std::path::PathBuf, Result<std::io::Result<()>, String>, bool, bool) = match case.via {
        0 | 1 => {
            let dir = sc.path("cache");
            materialise(&dir, case, now);
            let cache = if case.empty_path {
                std::env::set_current_dir(&dir).unwrap();
                kismet_cache::plain::Cache::new(std::path::PathBuf::new(), case.capacity)
            } else {
                kismet_cache::plain::Cache::new(dir.clone(), case.capacity)
            };
            let via = case.via;
            let before = world::snapshot(&dir);
            let (r, trace) = run::as_participant(0, 0, || {
                run::trigger_fire_next(u64::MAX);
                if via == 0 {
                    cache.set("newkey", &src)
                } else {
                    cache.put("newkey", &src)
                }
            });
            rep.transitions += trace.len() as u64;
            if case.empty_path {
                std::env::set_current_dir("/").unwrap();
            }
            let after = world::snapshot(&dir);
            bad.extend(judge(case, &before, &after, true, true));
            (dir, r, true, true)
        }
        2 | 3 => {
            let root = sc.path("cache");
            let nshards = 2usize;
            let key = ops::key_for_shards("newkey", 0, 1, nshards);
            let dir = root.join(ops::shard_dir_name(0));
            materialise(&dir, case, now);
            let cap = case.capacity.max(1);
            let cache = kismet_cache::sharded::Cache::new(root.clone(), nshards, cap * nshards);
            let via = case.via;
            let before = world::snapshot(&dir);
            let (r, trace) = run::as_participant(0, 0, || {
                run::trigger_fire_next(u64::MAX);
                run::shard_draws(&[], Some(0));
                if via == 2 {
                    cache.put(key.key(), &src)
                } else {
                    cache.temp_dir(None).map(|_| ())
                }
            });
            rep.transitions += trace.len() as u64;
            let after = world::snapshot(&dir);
            bad.extend(judge(case, &before, &after, via == 2, true));
            (dir, r, via == 2, true)
        }
        _ => {
            let dir = sc.path("w");
            materialise(&dir, case, now);
            let dirs = ops::Dirs { write: dir.clone(), reads: vec![], app_tmp: sc.path("app_tmp") };
            shim::passthrough(|| std::fs::create_dir_all(&dirs.app_tmp).unwrap());
            let cache = ops::build(&ops::StackCfg::plain(case.capacity), &dirs, None);
            let before = world::snapshot(&dir);
            let (r, trace) = run::as_participant(0, 0, || {
                run::trigger_fire_next(u64::MAX);
                let o = ops::exec(
                    &cache,
                    &dirs,
                    &ops::Op::Ensure(ops::K::new("newkey", 1, 2), ops::Pop::Value(world::Val::one(3))),
                    &Default::default(),
                );
                match o.res {
                    ops::Res::Hit(_) => Ok(()),
                    other => Err(std::io::Error::new(std::io::ErrorKind::Other, other.label())),
                }
            });
            rep.transitions += trace.len() as u64;
            let after = world::snapshot(&dir);
            bad.extend(judge(case, &before, &after, true, true));
            (dir, r, true, true)
        }
    };
    let _ = (dir, pruned, cleaned);
    match result {
        Err(p) => bad.push(("panic".into(), format!("maintenance panicked: {}", p))),
        Ok(Err(e)) => bad.push(("error".into(), format!("operation failed: {}", e))),
        Ok(Ok(())) => {}
    }
    bad
}

fn record(case: &Case, rep: &mut Report) {
    rep.evaluations += 1;
    rep.states += 1;
    rep.traces += 1;
    if case.foreign != 0 || (case.temps & 0b11011011) != 0 {
        rep.count("nontrivial_count", 1);
    }
    for (sig, msg) in run_case(case, rep) {
        rep.violation(format!("maintenance:{}", sig), format!("{}: {}", case.to_json(), msg), case.to_json());
    }
}

pub fn run(tier: Tier, shard: Shard, rep: &mut Report) {
    let max_n = if tier == Tier::Quick { 3 } else { 4 };
    rep.rule = format!(
        "directory populations: every sequence of n <= {} key-named files over {{old unread, old read, new unread}} x \
         {} subsets of foreign objects (.app old, .app2 new, .appdir/, sub/, key-like directory) x {} subsets of \
         .kismet_temp contents (ages limit-10s, limit-0.1s with the clock 50 ms into its second, exactly limit, limit+1s, limit+1h, old subdirectory, young second hard link, and the .kismet_temp directory itself idle for two hours or not; plain caches also named by the empty path to an application file, old hard \
         link to a published entry) x capacity 0..=n+1 x maintenance forced through plain set, plain put, sharded put, \
         sharded temp_dir, stacked ensure. Non-trivial = a foreign object or a temp file with a decided fate is present.",
        max_n,
        32,
        if tier == Tier::Quick { 10 } else { 128 }
    );
    rep.assumptions = vec![
        "ages are exact because the harness owns the clock (1 ms per clock_gettime); the file aged exactly the limit is don't-care".into(),
        "which and how many key-named entries are evicted is C07's business; here they may only be evicted or re-stamped".into(),
    ];
    let temp_sets: Vec<u8> = if tier == Tier::Quick {
        vec![0, 127, 1, 2, 4, 8, 16, 32, 64, 0b0011011, 128, 255]
    } else {
        (0..128u8).chain([0u8, 1, 2, 8, 16, 32, 64, 127].iter().map(|x| x | 128)).collect()
    };
    let mut no = 0u64;
    for n in 0..=max_n {
        for code in 0..3u32.pow(n as u32) {
            let mut c = code;
            let keys: Vec<u8> = (0..n)
                .map(|_| {
                    let d = (c % 3) as u8;
                    c /= 3;
                    d
                })
                .collect();
            for foreign in 0..32u8 {
                for &temps in &temp_sets {
                    if temps & 64 != 0 && n == 0 {
                        continue;
                    }
                    for capacity in 0..=(n + 1) {
                        for via in 0..5u8 {
                            no += 1;
                            if !shard.mine(no) {
                                continue;
                            }
                            let case = Case { keys: keys.clone(), foreign, temps, capacity, via, temp_dir_idle: false, empty_path: false };
                            record(&case, rep);
                            if temps & 0b1000_0011 != 0 && foreign % 8 == 0 {
                                let mut idle = case.clone();
                                idle.temp_dir_idle = true;
                                record(&idle, rep);
                                rep.count("idle_temp_dir_cases", 1);
                            }
                            if via <= 1 && temps != 0 && foreign % 8 == 1 {
                                let mut ep = case.clone();
                                ep.empty_path = true;
                                record(&ep, rep);
                                rep.count("empty_path_cases", 1);
                            }
                            if no % 40009 == 0 {
                                rep.sample(case.to_json());
                            }
                        }
                    }
                }
            }
        }
    }
    rep.fact("max_n", json!(max_n));
    if shard.index == 0 {
        rep.sample(Case { keys: vec![2, 2], foreign: 1, temps: 0b11011, capacity: 1, via: 1, temp_dir_idle: false, empty_path: false }.to_json());
    }
}

pub fn replay(case: &Value, rep: &mut Report) {
    record(&Case::from_json(case), rep);
}
