//! C16 — keys are validated and confined to the cache directory.
use crate::ops::{self, Act, Front, Op, Pop, Res, StackCfg, K};
use crate::report::{Report, Shard, Tier};
use crate::run;
use crate::shim::{self, Kind};
use crate::world::{self, Scratch, Val};
use serde_json::{json, Value};
use std::io::ErrorKind;
use std::path::{Component, Path, PathBuf};

const ALPHABET: [&str; 6] = ["a", ".", "/", "\\", "\0", "é"];
const OPS: [&str; 8] = ["get", "touch", "set", "put", "ensure", "replace", "set_temp_file", "put_temp_file"];
const FRONTS: [&str; 3] = ["plain", "sharded", "stack"];

fn extras() -> Vec<String> {
    let mut v: Vec<String> = vec![
        "",
        "a/../../x",
        "a/../../sentinel.txt",
        "a/../.app",
        "a/../valid",
        "a/./b",
        "..",
        "a/",
        "a//b",
        "sub/file",
        "sub/../valid",
        "sub/../.app",
        "sub/../../sentinel.txt",
        "sub/../../x",
        "sub/..",
        "sub/new",
        "a/.kismet_temp",
        "valid/x",
        "a ",
        "a\n",
        "a\\..\\x",
        "é/é",
        "-rf",
        "~",
        "a/../../../../../../../../tmp/kverif_escape",
    ]
    .into_iter()
    .map(String::from)
    .collect();
    // first components of every interesting length (around NAME_MAX, PATH_MAX, powers of two), ASCII and
    // multi-byte, followed by every kind of tail: a validator that only looks at a prefix, or that reasons
    // about the whole name where the kernel reasons per component, shows up here
    for len in [1usize, 2, 63, 64, 127, 128, 253, 254, 255, 256, 257, 511, 512, 1023, 1024, 4094, 4095, 4096] {
        for multibyte in [false, true] {
            let head: String = if multibyte {
                let mut h = "€".repeat(len / 3);
                h.push_str(&"a".repeat(len - 3 * (len / 3)));
                h
            } else {
                "a".repeat(len)
            };
            for tail in ["/", "/b", "/../../x", "/../../sentinel.txt", "/./b", "/../valid", "/../.app", "\\b"] {
                v.push(format!("{}{}", head, tail));
            }
        }
    }
    v.push("a".repeat(255));
    v.push("a".repeat(256));
    v.push("a".repeat(5000));
    v.push(format!("{}/{}", "a".repeat(100), "b".repeat(4000)));
    v
}

fn names(max_len: usize) -> Vec<String> {
    let mut out = extras();
    let mut cur: Vec<String> = vec![String::new()];
    for _ in 0..max_len {
        let mut next = Vec::new();
        for s in &cur {
            for a in ALPHABET.iter() {
                next.push(format!("{}{}", s, a));
            }
        }
        out.extend(next.iter().cloned());
        cur = next;
    }
    out
}

/// `front` may carry the suffix "+maint": the same world, but over capacity (capacity 1 per directory, three
/// entries each), with stale debris in every .kismet_temp and the maintenance trigger about to fire, so that a
/// call that reaches maintenance before rejecting its name does change something.
thread_local! {
    /// a single fault to inject into the next `run_case` (call index in its trace, the call's kind, what happens)
    static FAULT: std::cell::Cell<Option<(u64, Kind, shim::Action)>> = const { std::cell::Cell::new(None) };
    /// the trace of the last `run_case`
    static LAST_TRACE: std::cell::RefCell<Vec<shim::Ev>> = const { std::cell::RefCell::new(Vec::new()) };
}

fn build_world(sc: &Scratch, front: &str) -> (StackCfg, ops::Dirs, PathBuf) {
    let maintain = front.ends_with("+maint");
    let front = front.trim_end_matches("+maint");
    let cap = |n: usize| if maintain { n } else { 1usize << 40 };
    let outer = sc.path("outer");
    let now = run::base_time_ns() as i128;
    let old = now - 86_400_000_000_000;
    world::plant(&outer.join("sentinel.txt"), b"outside", 0o644, old, old + 1_000_000_000);
    world::plant(&outer.join("x"), b"outside-x", 0o644, old, old + 1_000_000_000);
    world::plant(&outer.join("sdir/inner.txt"), b"outside-inner", 0o644, old, old + 1_000_000_000);
    let cache = outer.join("cache");
    let dirs = ops::Dirs {
        write: cache.clone(),
        reads: vec![outer.join("ro"), outer.join("ros")],
        app_tmp: sc.path("app_tmp"),
    };
    shim::passthrough(|| std::fs::create_dir_all(&dirs.app_tmp).unwrap());
    let cfg = match front {
        "plain" => StackCfg { writer: Some((Front::Plain, cap(1))), readers: vec![], checker: ops::Checker::None, auto_sync: true },
        "sharded" => StackCfg { writer: Some((Front::Sharded(3), cap(3))), readers: vec![], checker: ops::Checker::None, auto_sync: true },
        _ => StackCfg {
            writer: Some((Front::Plain, cap(1))),
            readers: vec![Front::Plain, Front::Sharded(3)],
            checker: ops::Checker::None,
            auto_sync: true,
        },
    };
    // contents of the cache directory (same for every front-end: a sharded cache's
    // root may also hold plain entries and application files)
    let entry_times = (old - 120_000_000_000, old);
    world::plant(&cache.join("valid"), &Val::one(0).bytes(), 0o444, entry_times.0, entry_times.1);
    world::plant(&cache.join(".app"), b"app", 0o644, old, old + 1_000_000_000);
    world::plant(&cache.join("sub/file"), b"nested", 0o644, old, old + 1_000_000_000);
    shim::passthrough(|| {
        std::fs::create_dir_all(cache.join(".kismet_temp")).unwrap();
        std::fs::create_dir_all(cache.join("a")).ok();
    });
    // "a" exists as a directory in half the worlds? No: keep worlds uniform; remove it.
    shim::passthrough(|| {
        let _ = std::fs::remove_dir(cache.join("a"));
    });
    if front == "sharded" {
        for s in 0..3 {
            let d = cache.join(ops::shard_dir_name(s));
            world::plant(&d.join("valid"), &Val::one(0).bytes(), 0o444, entry_times.0, entry_times.1);
            world::plant(&d.join("sub/file"), b"nested", 0o644, old, old + 1_000_000_000);
            world::plant(&d.join(".app"), b"app", 0o644, old, old + 1_000_000_000);
        }
    }
    if front == "stack" {
        world::plant(&dirs.reads[0].join("valid"), &Val::one(1).bytes(), 0o444, entry_times.0, entry_times.1);
        world::plant(&dirs.reads[0].join("sub/file"), b"nested", 0o644, old, old + 1_000_000_000);
        for s in 0..3 {
            let d = dirs.reads[1].join(ops::shard_dir_name(s));
            world::plant(&d.join("valid"), &Val::one(2).bytes(), 0o444, entry_times.0, entry_times.1);
        }
    }
    if maintain {
        let mut homes = vec![cache.clone()];
        if front == "sharded" {
            homes.extend((0..3).map(|s| cache.join(ops::shard_dir_name(s))));
        }
        for d in homes {
            world::plant(&d.join("valid2"), &Val::one(3).bytes(), 0o444, entry_times.0 - 600_000_000_000, entry_times.1 - 600_000_000_000);
            world::plant(&d.join("valid3"), &Val::one(4).bytes(), 0o444, entry_times.1 - 300_000_000_000 + 5_000_000_000, entry_times.1 - 300_000_000_000);
            world::plant(&d.join(".kismet_temp/stale"), b"debris", 0o600, old, old);
            // the dot-prefixed namespace is the application's, whatever the bytes after the dot (Latin-1 e-acute here);
            // old and unread: the most evictable thing in the directory if it were taken for an entry
            use std::os::unix::ffi::OsStrExt;
            let odd = std::ffi::OsStr::from_bytes(b".app_state\xe9");
            world::plant(&d.join(odd), b"application state", 0o644, old - 7_200_000_000_000 - 120_000_000_000, old - 7_200_000_000_000);
        }
    }
    (cfg, dirs, outer)
}

fn make_op(opname: &str, k: K) -> Op {
    let v = Val::one(5);
    match opname {
        "get" => Op::Get(k),
        "touch" => Op::Touch(k),
        "set" => Op::Set(k, v),
        "put" => Op::Put(k, v),
        "ensure" => Op::Ensure(k, Pop::Value(v)),
        "replace" => Op::Gou(k, Act::Replace, Pop::Value(v)),
        "set_temp_file" => Op::SetTemp(k, v),
        _ => Op::PutTemp(k, v),
    }
}

fn lexical_normalise(p: &Path) -> PathBuf {
    let mut out = PathBuf::new();
    for c in p.components() {
        match c {
            Component::ParentDir => {
                out.pop();
            }
            Component::CurDir => {}
            other => out.push(other.as_os_str()),
        }
    }
    out
}

/// Is `p` (normalised, absolute) a place kismet may mutate under cache root `root`?
fn allowed_mutation(p: &Path, roots: &[PathBuf], app_tmp: &Path, name: &str) -> bool {
    if p.starts_with(app_tmp) {
        return true;
    }
    for root in roots {
        if p == root.as_path() {
            return true; // creating the cache directory itself
        }
        if let Ok(rel) = p.strip_prefix(root) {
            let comps: Vec<String> = rel.components().map(|c| c.as_os_str().to_string_lossy().into_owned()).collect();
            let is_shard = |s: &str| s.starts_with(".kismet_") && s != ".kismet_temp";
            let ok = match comps.len() {
                1 => comps[0] == name || comps[0] == ".kismet_temp" || is_shard(&comps[0]),
                2 => {
                    (comps[0] == ".kismet_temp") || (is_shard(&comps[0]) && (comps[1] == name || comps[1] == ".kismet_temp"))
                }
                3 => is_shard(&comps[0]) && comps[1] == ".kismet_temp",
                _ => false,
            };
            return ok;
        }
    }
    false
}

fn is_mutating(e: &shim::Ev) -> bool {
    match e.kind {
        Kind::Open => {
            let f = e.flags as i32;
            (f & libc::O_ACCMODE) != libc::O_RDONLY || (f & (libc::O_CREAT | libc::O_TRUNC)) != 0
        }
        Kind::Rename | Kind::Link | Kind::Symlink | Kind::Unlink | Kind::Rmdir | Kind::Mkdir | Kind::Chmod | Kind::Truncate => true,
        Kind::Utimens => true,
        _ => false,
    }
}

pub fn run_case(name: &str, opname: &str, front: &str, rep: &mut Report) -> Vec<(String, String)> {
    run::reset_env();
    let sc = Scratch::new();
    // "plain@" / "plain@.": the same world, the cache directory named by the empty path / by "." from inside it
    let spelled: Option<&str> = if front.contains("@.") {
        Some(".")
    } else if front.contains('@') {
        Some("")
    } else {
        None
    };
    // "plain~" / "sharded~": the write side is configured as `outer/current`, a symbolic link to the cache directory of
    // the world; after the handle is built the link is re-pointed at a second, empty directory.  The configured path
    // now names that directory: this is where the operation acts, and the old one is none of its business any more.
    let retarget = front.contains('~');
    // "plain%" / "sharded%": every `.kismet_temp` of the write side is a regular file (the name is taken): whatever
    // the library then does about staging, nothing lands among the entries under another name than the key's
    let squatted = front.contains('%');
    let front_owned = front.replace("@.", "").replace('@', "").replace('~', "").replace('%', "");
    let front = front_owned.as_str();
    let (cfg, mut dirs, outer) = build_world(&sc, front);
    let old_cache = dirs.write.clone();
    if squatted {
        let mut homes = vec![dirs.write.clone()];
        if front == "sharded" {
            homes.extend((0..3).map(|s| dirs.write.join(ops::shard_dir_name(s))));
        }
        shim::passthrough(|| {
            for h in homes {
                std::fs::create_dir_all(&h).unwrap();
                let t = h.join(".kismet_temp");
                let _ = std::fs::remove_dir_all(&t);
                std::fs::write(&t, b"not a directory").unwrap();
            }
        });
    }
    if retarget {
        let link = outer.join("current");
        shim::passthrough(|| {
            std::fs::create_dir_all(outer.join("cache2")).unwrap();
            std::os::unix::fs::symlink("cache", &link).unwrap();
        });
        dirs.write = link;
    }
    let cache = match spelled {
        Some(sp) => {
            std::env::set_current_dir(&dirs.write).unwrap();
            let named = ops::Dirs { write: PathBuf::from(sp), reads: dirs.reads.clone(), app_tmp: dirs.app_tmp.clone() };
            ops::build(&cfg, &named, None)
        }
        None => ops::build(&cfg, &dirs, None),
    };
    if retarget {
        shim::passthrough(|| {
            std::fs::remove_file(&dirs.write).unwrap();
            std::os::unix::fs::symlink("cache2", &dirs.write).unwrap();
        });
    }
    let op = make_op(opname, K::new(name, 1, 2));
    let before = world::snapshot(&sc.root);
    let maintain = front.ends_with("+maint");
    if let Some((k, kind, a)) = FAULT.with(|f| f.get()) {
        shim::set_controller(Some(std::sync::Arc::new(crate::props::c18::FailAt {
            faults: vec![(k, a)],
            kinds: vec![Some(kind)],
            n: std::sync::atomic::AtomicU64::new(0),
            hit: std::sync::Mutex::new(vec![]),
        })));
    }
    let (out, trace) = run::as_participant(0, 0, || {
        if maintain {
            run::trigger_fire_next(u64::MAX);
        } else {
            run::trigger_never();
        }
        ops::exec(&cache, &dirs, &op, &Default::default())
    });
    shim::set_controller(None);
    if spelled.is_some() {
        std::env::set_current_dir("/").unwrap();
    }
    LAST_TRACE.with(|t| *t.borrow_mut() = trace.clone());
    rep.transitions += trace.len() as u64;
    let after = world::snapshot(&sc.root);
    let mut bad = Vec::new();
    if maintain {
        // an accepted name's maintenance legitimately evicts and reclaims; a rejected name modifies nothing
        let res = match out {
            Ok(o) => o.res,
            Err(p) => Res::Panic(p),
        };
        if let Res::Panic(p) = &res {
            bad.push(("panic".into(), format!("panicked: {}", p)));
        }
        // (the statement's own set: empty, or first byte '.', '/' or '\\'; a name refused later by the operating
        // system, NUL or over-long, has been accepted by the cache and its maintenance is ordinary business)
        let reserved = name.is_empty() || matches!(name.as_bytes()[0], b'.' | b'/' | b'\\');
        if reserved && !matches!(&res, Res::Err(ErrorKind::InvalidInput, _, _)) {
            bad.push(("reserved-accepted".into(), format!("reserved name was not rejected with InvalidInput: {}", res.label())));
        }
        // whatever the name: nothing in the dot-prefixed namespace of a cache directory is deleted or re-stamped
        for (kind, rel) in world::diff(&before, &after, true) {
            let base = rel.rsplit('/').next().unwrap_or(&rel).to_string();
            let in_temp = rel.contains(".kismet_temp");
            if base.starts_with('.') && !base.starts_with(".kismet_") && !in_temp && rel.starts_with("outer/cache") {
                bad.push(("dot-namespace-touched".into(), format!("{} {} (an application file in the dot-prefixed namespace)", kind, rel)));
            }
        }
        if reserved {
            let delta: Vec<(String, String)> = world::diff(&before, &after, false).into_iter().filter(|d| !d.1.starts_with("app_tmp")).collect();
            if !delta.is_empty() {
                bad.push(("rejected-modified".into(), format!("the name was rejected (InvalidInput) but the call still modified: {:?}", delta)));
            }
        }
        return bad;
    }
    let populate_calls = out.as_ref().map(|o| o.populate_calls).unwrap_or(0);
    let res = match out {
        Ok(o) => o.res,
        Err(p) => Res::Panic(p),
    };
    if let Res::Panic(p) = &res {
        bad.push(("panic".into(), format!("panicked: {}", p)));
    }
    let delta = world::diff(&before, &after, false);
    // differences under app_tmp are the application's own business
    let mut delta: Vec<(String, String)> = delta.into_iter().filter(|d| !d.1.starts_with("app_tmp")).collect();
    if retarget {
        let old_rel = old_cache.strip_prefix(&sc.root).unwrap().to_string_lossy().into_owned();
        for d in delta.iter().filter(|d| d.1 == old_rel || d.1.starts_with(&format!("{}/", old_rel))) {
            bad.push(("retargeted-root".into(), format!("the configured path no longer names {}, yet the call changed it: {} {}", old_rel, d.0, d.1.chars().take(100).collect::<String>())));
        }
        // what the link now points at is the configured directory: judge its changes under the configured name
        // (following the link stamps the link's own access time: the kernel's doing)
        delta = delta
            .into_iter()
            .filter(|d| !(d.0 == "atime" && d.1 == "outer/current"))
            // (the new directory is empty: the cache's own skeleton - shard and temp directories - is created on first
            // use, also by an operation that then fails)
            .filter(|d| !(d.0 == "+" && d.1.strip_prefix("outer/cache2/").map(|r| r.split('/').all(|c| c.starts_with(".kismet_"))).unwrap_or(false)))
            .filter(|d| !(d.1 == old_rel || d.1.starts_with(&format!("{}/", old_rel))))
            .map(|(k, rel)| (k, if rel == "outer/cache2" || rel.starts_with("outer/cache2/") { rel.replacen("outer/cache2", "outer/current", 1) } else { rel }))
            .collect();
    }
    let reserved = name.is_empty() || matches!(name.as_bytes()[0], b'.' | b'/' | b'\\');
    let is_err = res.is_err();
    let invalid_input = matches!(&res, Res::Err(ErrorKind::InvalidInput, _, _));
    if reserved {
        if !invalid_input {
            bad.push((
                "reserved-accepted".into(),
                format!("reserved name was not rejected with InvalidInput: {}", res.label()),
            ));
        }
        if !delta.is_empty() {
            bad.push(("reserved-modified".into(), format!("rejected name still modified: {:?}", delta)));
        }
        // "modify nothing" also covers what is created and removed again before the call returns (a temporary file
        // populated for a key that does not exist, directories): no mutating call at all outside the application's
        // own source file, and the populate callback is never run for such a name
        let app = dirs.app_tmp.to_string_lossy().into_owned();
        if let Some(e) = trace.iter().find(|e| is_mutating(e) && e.ok() && !e.path.as_ref().map(|p| p.starts_with(&app)).unwrap_or(false)) {
            bad.push(("reserved-modified".into(), format!("rejected name, yet the call issued {} on {:?}", e.func, e.path.as_deref().unwrap_or("").replace(sc.root.to_str().unwrap_or(""), ""))));
        }
        if populate_calls != 0 {
            bad.push(("reserved-modified".into(), format!("rejected name, yet populate was called {} times", populate_calls)));
        }
    } else if is_err {
        if !delta.is_empty() {
            bad.push((
                "error-modified".into(),
                format!("operation failed ({}) but modified: {:?}", res.label(), delta),
            ));
        }
    } else if !res.is_panic() {
        // success: every difference confined to the expected path + kismet's own structure
        let roots: Vec<PathBuf> = std::iter::once(dirs.write.clone()).chain(dirs.reads.iter().cloned()).collect();
        let has_sep = name.contains('/');
        for d in &delta {
            let abs = sc.root.join(&d.1);
            // atime changes on the found entry itself are fine
            let ok = !has_sep && allowed_mutation(&abs, &roots[..1], &dirs.app_tmp, name)
                || (d.0 == "atime" && !has_sep && roots.iter().any(|r| allowed_mutation(&abs, std::slice::from_ref(r), &dirs.app_tmp, name)));
            if !ok {
                bad.push((
                    if has_sep { "separator-escape".into() } else { "stray-effect".into() },
                    format!("accepted name: effect outside the expected entry: {} {}", d.0, d.1.chars().take(120).collect::<String>()),
                ));
            }
        }
        if op.is_write() && !has_sep {
            let cands = match cfg.writer {
                Some((f, _)) => ops::candidate_dirs(&dirs.write, f, op.key()),
                None => vec![],
            };
            let found = cands.iter().filter(|c| world::lstat(&c.join(name)).map(|m| m.is_file()).unwrap_or(false)).count();
            if found != 1 {
                bad.push((
                    "not-stored".into(),
                    format!("write reported success but the entry exists in {} candidate directories", found),
                ));
            }
        }
        if has_sep && matches!(res, Res::Hit(_) | Res::Bool(true)) {
            bad.push((
                "separator-lookup".into(),
                format!("name with a path separator resolved to a file that is not a direct child: {}", res.label()),
            ));
        }
    }
    // trace monitor: mutating calls only at permitted places
    let roots: Vec<PathBuf> = std::iter::once(dirs.write.clone()).chain(dirs.reads.iter().cloned()).collect();
    for e in &trace {
        if !is_mutating(e) || !e.ok() {
            continue;
        }
        for p in [e.path.as_ref(), if matches!(e.kind, Kind::Rename | Kind::Link) { e.path2.as_ref() } else { None }]
            .into_iter()
            .flatten()
        {
            // (a cache named by a relative path issues relative paths: they are relative to the cache directory here)
            let abs = if Path::new(p).is_absolute() { PathBuf::from(p) } else { dirs.write.join(p) };
            let norm = lexical_normalise(&abs);
            let lookup_touch = e.kind == Kind::Utimens && !e.sets_mtime;
            let ok = if lookup_touch {
                roots.iter().any(|r| allowed_mutation(&norm, std::slice::from_ref(r), &dirs.app_tmp, name))
            } else {
                allowed_mutation(&norm, &roots[..1], &dirs.app_tmp, name)
            };
            if !ok && !name.is_empty() {
                bad.push((
                    if name.contains('/') { "separator-escape".into() } else { "stray-call".into() },
                    format!("mutating call outside the permitted paths: {}", e.brief().replace(sc.root.to_str().unwrap(), "")),
                ));
            }
        }
    }
    let _ = outer;
    bad
}

fn case_json(name: &str, op: &str, front: &str) -> Value {
    json!({"name_bytes": name.as_bytes(), "name": name.chars().take(40).collect::<String>(), "op": op, "front": front})
}

fn record(name: &str, op: &str, front: &str, rep: &mut Report) {
    rep.evaluations += 1;
    rep.states += 1;
    rep.traces += 1;
    let reserved = name.is_empty() || matches!(name.as_bytes()[0], b'.' | b'/' | b'\\');
    if !reserved && (name.contains('/') || name.contains('\0') || name.contains("..") || name.len() > 200) {
        rep.count("nontrivial_count", 1);
    }
    let mut seen = std::collections::BTreeSet::new();
    for (sig, msg) in run_case(name, op, front, rep) {
        // one finding class per (signature); the text names the first case
        let sig = if sig == "separator-escape" || sig == "separator-lookup" || (name.contains('/') && !reserved) {
            "name-contains-separator".to_string()
        } else {
            sig
        };
        if seen.insert(sig.clone()) {
            rep.violation(
                format!("names:{}", sig),
                format!("{} {}({:?}{}): {}", front, op, name.chars().take(40).collect::<String>(), if name.len() > 40 { format!("... {} bytes", name.len()) } else { String::new() }, msg.chars().take(300).collect::<String>()),
                case_json(name, op, front),
            );
        }
    }
}

/// Maintenance keeps a path buffer across entries; with entries vanishing under it (a deleter, a
/// peer's eviction) every mutating call must still land inside the cache directories.  The parent
/// directory holds sentinel files named like the cached entries.
fn concurrent_programs() -> Vec<(crate::sched::Program, crate::props::e1::Mode)> {
    use crate::ops::{Op, Pop};
    use crate::props::e1::{self, api, planted, Mode};
    use crate::sched::POp;
    use crate::world::Size;
    let k = e1::key1();
    let j = e1::key2();
    let mut out = Vec::new();
    for front in ["plain", "sharded"] {
        let cfg = if front == "plain" { e1::plain_cfg(2) } else { e1::sharded_cfg(4) };
        let sd = crate::ops::shard_dir_name(0);
        let loc = |n: &str| if front == "sharded" { format!("{}/{}", sd, n) } else { n.to_string() };
        let up = |n: &str| if front == "sharded" { format!("{}/../{}", sd, n) } else { format!("../{}", n) };
        // two read-marked old entries (both get re-queued), two unread (both evicted), and same-named sentinels one level up
        let mut pre = vec![
            planted(&loc("x1"), Val::new(23, Size::One), true, 9),
            planted(&loc("k"), Val::new(0, Size::Five), true, 7),
            planted(&loc("j"), Val::new(22, Size::Five), false, 5),
            planted(&loc("x2"), Val::new(24, Size::One), false, 3),
        ];
        for n in ["x1", "k", "j", "x2", "m"] {
            pre.push(planted(&up(n), Val::new(9, Size::Five), false, 100));
        }
        let v = |t: usize| e1::wval(t, 0, Size::One);
        let m = crate::ops::key_for_shards("m", 0, 1, 2);
        let mut add = |name: &str, threads: Vec<Vec<POp>>| {
            out.push((
                crate::sched::Program {
                    name: format!("confine-{}-{}", front, name),
                    cfg: cfg.clone(),
                    pre: pre.clone(),
                    threads: e1::own_handles(threads, true),
                    create_write_dir: true,
                },
                crate::props::e1::side_bound(),
            ));
        };
        add("set|deleter", vec![vec![api(Op::Set(m.clone(), v(0)))], vec![POp::Unlink(loc("x1")), POp::Unlink(loc("k"))]]);
        add("ensure|deleter", vec![vec![api(Op::Ensure(m.clone(), Pop::Value(v(0))))], vec![POp::Unlink(loc("x1"))]]);
        add("set|set", vec![vec![api(Op::Set(m.clone(), v(0)))], vec![api(Op::Put(j.clone(), v(1)))]]);
        let _ = &k;
    }
    out
}

fn concurrent_check(x: &crate::sched::Execution) -> Vec<(String, String)> {
    let mut bad = Vec::new();
    let root = x.root.to_string_lossy().into_owned();
    let allowed = [format!("{}/w/", root), format!("{}/app_tmp/", root), format!("{}/r0/", root)];
    let wdir = format!("{}/w", root);
    for e in &x.trace {
        if !is_mutating(e) || !e.ok() {
            continue;
        }
        for p in [e.path.as_ref(), if matches!(e.kind, Kind::Rename | Kind::Link) { e.path2.as_ref() } else { None }].into_iter().flatten() {
            let norm = lexical_normalise(Path::new(p)).to_string_lossy().into_owned();
            let inside = allowed.iter().any(|a| norm.starts_with(a)) || norm == wdir;
            // in a sharded cache, entries live in shard directories only: the root holds no cached files
            let sharded_root_file = norm.starts_with(&format!("{}/", wdir))
                && x.final_snapshot.keys().any(|k| k.starts_with("w/.kismet_0"))
                && Path::new(&norm).parent().map(|d| d.to_string_lossy() == wdir).unwrap_or(false)
                && !Path::new(&norm).file_name().map(|n| n.to_string_lossy().starts_with(".kismet")).unwrap_or(false);
            if !inside || sharded_root_file {
                bad.push((
                    "call-outside-cache".into(),
                    format!("t{} {} touched {} (outside the cache's own directories)", e.tid, e.func, norm.replace(&root, "")),
                ));
            }
        }
    }
    bad
}

pub fn run(tier: Tier, shard: Shard, rep: &mut Report) {
    let max_len = if tier == Tier::Quick { 4 } else { 6 };
    rep.rule = format!(
        "every string of length 1..={} over the alphabet {{a . / \\ NUL é}} plus the empty name and {} fixed edge names \
         (.. components, trailing /, nested existing dirs, 255/256/5000-byte names) x 8 operations x {{plain, sharded, \
         stacked}} front-ends, in a world of sentinel files around and inside the cache directory; oracle = \
         InvalidInput+unchanged world for reserved names, else error+unchanged or effects confined to the single \
         direct-child entry, plus a monitor on every mutating call's path; every name of length <= 2 (thorough 3) and the edge names \
         again in a world where maintenance is due (over capacity, stale debris in .kismet_temp, trigger firing): a reserved name (empty, or starting with '.', '/', '\\') is \
         rejected with InvalidInput and leaves that world unchanged too, and whatever the name, application dot-files (one of them not \
         valid UTF-8) are neither deleted nor re-stamped by the maintenance. Every name of length <= 2 again with the name .kismet_temp taken by a regular file in every directory of the write side (staging files never land among the entries). Every name of length <= 2 again with the write side configured through a symbolic link that is re-pointed at another directory after the handle was built (the operation acts where the configured path now leads, the old directory stays as it is). Every name of length <= 2 again on a plain cache named by the empty path and by a single dot (working directory = the cache directory): same oracle, entries land directly in that directory. Each publication step of writes under four accepted names refused in every plausible way \
         (EXDEV, EMLINK, ...): every mutating call still lands on the key's own entry or in the cache's own structure. Plus, under concurrency (all schedules with <= 2 preemptions of a maintaining writer racing with a deleter or another \
         writer, sentinel files named like the entries one directory up): every mutating call lands inside the cache's own \
         directories. Non-trivial = accepted-by-first-byte name containing a separator, NUL, '..' or of extreme length.",
        max_len,
        extras().len()
    );
    rep.assumptions = vec![
        "names longer than the enumerated length are covered only by the fixed edge names".into(),
        "the application's own temp files (under app_tmp) are outside the property".into(),
    ];
    let all = names(max_len);
    let mut no = 0u64;
    for name in &all {
        for op in OPS.iter() {
            for front in FRONTS.iter() {
                no += 1;
                if !shard.mine(no) {
                    continue;
                }
                record(name, op, front, rep);
                if no % 30011 == 0 {
                    rep.sample(case_json(name, op, front));
                }
            }
        }
    }
    // the rejected-name clause again in a world where maintenance is due (over capacity, stale debris, trigger firing)
    for name in &names(if tier == Tier::Quick { 2 } else { 3 }) {
        for op in OPS.iter() {
            for front in FRONTS.iter() {
                no += 1;
                if !shard.mine(no) {
                    continue;
                }
                rep.count("maintenance_due_cases", 1);
                record(name, op, &format!("{}+maint", front), rep);
            }
        }
    }
    // the name .kismet_temp taken by a regular file in every directory of the write side
    for name in &names(2) {
        for op in OPS.iter() {
            for front in ["plain%", "sharded%", "stack%"] {
                no += 1;
                if !shard.mine(no) {
                    continue;
                }
                rep.count("squatted_temp_name_cases", 1);
                record(name, op, front, rep);
            }
        }
    }
    // the write side configured through a symbolic link that is re-pointed after the handle was built
    for name in &names(2) {
        for op in OPS.iter() {
            for front in ["plain~", "sharded~", "stack~"] {
                no += 1;
                if !shard.mine(no) {
                    continue;
                }
                rep.count("retargeted_root_cases", 1);
                record(name, op, front, rep);
            }
        }
    }
    // the cache directory named by the empty path, and by ".", from inside it: entries still land directly in it
    for name in &names(2) {
        for op in OPS.iter() {
            for front in ["plain@", "plain@."] {
                no += 1;
                if !shard.mine(no) {
                    continue;
                }
                rep.count("relative_directory_cases", 1);
                record(name, op, front, rep);
            }
        }
    }
    // error paths are paths too: each publication step (rename/link) of a write under an accepted name is refused in
    // every plausible way (EXDEV, EMLINK, ...); whatever the library does about it, every mutating call still lands on
    // the key's own entry or in the cache's own structure (never on a sibling name)
    for name in ["a", "x.y", "valid", "a.b.c"] {
        for op in OPS.iter().filter(|o| !matches!(**o, "get" | "touch")) {
            for front in FRONTS.iter() {
                no += 1;
                if !shard.mine(no) {
                    continue;
                }
                let _ = run_case(name, op, front, rep);
                let base: Vec<shim::Ev> = LAST_TRACE.with(|t| t.borrow().clone());
                for (k, ev) in base.iter().enumerate() {
                    if !matches!(ev.kind, Kind::Rename | Kind::Link) {
                        continue;
                    }
                    for a in crate::props::c18::plausible(ev, false) {
                        FAULT.with(|f| f.set(Some((k as u64, ev.kind, a))));
                        let bad = run_case(name, op, front, rep);
                        FAULT.with(|f| f.set(None));
                        rep.evaluations += 1;
                        rep.states += 1;
                        rep.traces += 1;
                        rep.count("refused_publication_cases", 1);
                        for (sig, msg) in bad {
                            if sig == "stray-call" || sig == "stray-effect" {
                                rep.violation(
                                    format!("names:{}-under-fault", sig),
                                    format!("{} {}({:?}) with call {} ({}) answered {:?}: {}", front, op, name, k, ev.func, a, msg.chars().take(300).collect::<String>()),
                                    json!({"refused_publication": true}),
                                );
                            }
                        }
                    }
                }
            }
        }
    }
    rep.fact("names", json!(all.len()));
    rep.fact("max_len_exhaustive", json!(max_len));
    if shard.index == 0 {
        rep.sample(case_json("a/../../x", "set", "plain"));
    }
    let progs = concurrent_programs();
    let mut chk = |_pi: usize, x: &crate::sched::Execution| concurrent_check(x);
    crate::props::e1::explore_all("C16", &progs, shard, rep, &|_| crate::sched::RunOpts::default(), &mut chk, 500_000);
}

pub fn replay(case: &Value, rep: &mut Report) {
    if case.get("program").is_some() {
        let progs: Vec<crate::sched::Program> = concurrent_programs().into_iter().map(|p| p.0).collect();
        let mut chk = |x: &crate::sched::Execution| concurrent_check(x);
        crate::props::e1::replay_case("C16", &progs, case, rep, &|| crate::sched::RunOpts::default(), &mut chk);
        return;
    }
    if case.get("refused_publication").is_some() {
        run(Tier::Quick, Shard { index: 0, count: 1 }, rep);
        return;
    }
    let bytes: Vec<u8> = case["name_bytes"].as_array().unwrap().iter().map(|b| b.as_u64().unwrap() as u8).collect();
    let name = String::from_utf8(bytes).unwrap();
    record(&name, case["op"].as_str().unwrap(), case["front"].as_str().unwrap(), rep);
}
