//! C10 — cache growth between maintenance runs is bounded.
//!
//! Part 1: the trigger's reachable states (uninitialised, or "just fired with draw r" for
//! every adversarial draw r) driven through the real write path until maintenance is
//! *observed* (an opendir of the cache directory in the write's trace).
//! Part 2: directory size after every write, for all short write sequences at small
//! capacities and worst-case families at larger ones.  Part 3: huge capacities.
use crate::report::{Report, Shard, Tier};
use crate::run;
use crate::shim::{self, Ev, Kind};
use crate::world::{self, Scratch};
use kismet_cache::verif_hooks;
use serde_json::{json, Value};
use std::path::{Path, PathBuf};

fn period(k: u128) -> u128 {
    (k / 3).max(1)
}

fn scale(k: u128) -> u128 {
    let p = period(k);
    let max = u64::MAX as u128;
    max.div_ceil(p)
}

/// Adversarial draws for capacity k.
fn draws(k: u128) -> Vec<u64> {
    let p = period(k);
    let s = scale(k);
    let max = u64::MAX as u128;
    let mut v: Vec<u128> = vec![1, 2, max - 1, max];
    for j in 1..=p.min(64) {
        for d in [-1i128, 0, 1] {
            let x = (j * s) as i128 + d;
            if x >= 1 && (x as u128) <= max {
                v.push(x as u128);
            }
        }
    }
    if p > 64 {
        for j in [p / 2, p - 1, p] {
            for d in [-1i128, 0, 1] {
                let x = (j * s) as i128 + d;
                if x >= 1 && (x as u128) <= max {
                    v.push(x as u128);
                }
            }
        }
    }
    v.sort();
    v.dedup();
    v.into_iter().map(|x| x as u64).collect()
}

struct Writer {
    dir: PathBuf,
    app: PathBuf,
    cache: kismet_cache::plain::Cache,
    n: u64,
    /// stage each source file in `cache.temp_dir()` (the documented workflow) instead of an application directory
    stage_in_temp_dir: bool,
    /// the directory as handed to the library, when that is not the absolute path
    spelled: Option<String>,
    /// what the application hands over as the value: 0 a regular file; a symbolic link to 1 a regular file that
    /// stays, 2 a regular file that is deleted right after the write, 3 a directory
    source_kind: u8,
}

/// How the application names the cache directory (index 0 = absolute path, as everywhere else).
/// "." and "" are used with the cache directory as working directory, the others from its parent.
pub const SPELLINGS: [&str; 8] = ["<absolute>", "cache", ".", "", "./cache/", "cache//", "cache/.", "../cache"];

impl Writer {
    fn new(sc: &Scratch, capacity: usize) -> Writer {
        let dir = sc.path("cache");
        let app = sc.path("app");
        shim::passthrough(|| {
            std::fs::create_dir_all(&dir).unwrap();
            std::fs::create_dir_all(&app).unwrap();
        });
        Writer { cache: kismet_cache::plain::Cache::new(dir.clone(), capacity), dir, app, n: 0, stage_in_temp_dir: false, spelled: None, source_kind: 0 }
    }
    /// As `new`, with the directory named relative to the working directory (which this changes:
    /// the caller restores it; workers are single-threaded processes here).
    fn new_spelled(sc: &Scratch, capacity: usize, spelling: usize) -> Writer {
        let mut w = Writer::new(sc, capacity);
        if spelling == 0 {
            return w;
        }
        let name = SPELLINGS[spelling];
        let cwd = match name {
            "." | "" => w.dir.clone(),
            "../cache" => w.app.clone(),
            _ => w.dir.parent().unwrap().to_owned(),
        };
        std::env::set_current_dir(&cwd).unwrap();
        w.cache = kismet_cache::plain::Cache::new(PathBuf::from(name), capacity);
        w.spelled = Some(name.to_string());
        w
    }
    /// One write; returns (result, whether maintenance ran, whether it ran before publication).
    fn write(&mut self, name: &str, set: bool) -> (Result<std::io::Result<()>, String>, bool, bool, Vec<Ev>) {
        self.n += 1;
        let n = self.n;
        let stage = self.stage_in_temp_dir;
        let app_src = self.app.join(format!("src{}", self.n));
        let target = self.app.join(format!("target{}", self.n));
        let kind = self.source_kind;
        if !stage {
            shim::passthrough(|| match kind {
                0 => std::fs::write(&app_src, format!("v{}", n)).unwrap(),
                3 => {
                    std::fs::create_dir_all(&target).unwrap();
                    std::os::unix::fs::symlink(&target, &app_src).unwrap();
                }
                _ => {
                    std::fs::write(&target, format!("v{}", n)).unwrap();
                    std::os::unix::fs::symlink(&target, &app_src).unwrap();
                }
            });
        }
        let cache = &self.cache;
        let mut src = app_src.clone();
        let src_ref = &mut src;
        let (r, trace) = run::as_participant(0, self.n as u32, || {
            if stage {
                // temp_dir() is not a write: it must not use up the maintenance window
                let t = cache.temp_dir()?.into_owned();
                *src_ref = t.join(format!("staged{}", n));
                std::fs::write(&*src_ref, format!("v{}", n))?;
            }
            if set {
                cache.set(name, &*src_ref)
            } else {
                cache.put(name, &*src_ref)
            }
        });
        shim::passthrough(|| {
            let _ = std::fs::remove_file(&src);
            if kind == 2 {
                let _ = std::fs::remove_file(&target);
            }
        });
        let dir = self.spelled.clone().unwrap_or_else(|| self.dir.to_string_lossy().into_owned());
        // (the library may hand the listing a differently normalised spelling: compare what the paths resolve to)
        let real = shim::passthrough(|| std::fs::canonicalize(&self.dir).ok());
        let listed = trace.iter().position(|e| {
            e.kind == Kind::Opendir
                && (e.path.as_deref() == Some(dir.as_str())
                    || (self.spelled.is_some() && e.path.as_deref().map(|p| shim::passthrough(|| std::fs::canonicalize(p).ok()) == real && real.is_some()).unwrap_or(false)))
        });
        let published = trace.iter().position(|e| {
            matches!(e.kind, Kind::Rename | Kind::Link) && e.path2.as_ref().map(|p| p.starts_with(&dir) && !p.contains("/.kismet_temp/")).unwrap_or(false)
        });
        let before = match (listed, published) {
            (Some(l), Some(p)) => l < p,
            (Some(_), None) => true,
            _ => false,
        };
        (r, listed.is_some(), before, trace)
    }
    fn file_count(&self) -> usize {
        shim::passthrough(|| {
            std::fs::read_dir(&self.dir)
                .map(|rd| rd.flatten().filter(|e| e.file_type().map(|t| !t.is_dir()).unwrap_or(false)).count())
                .unwrap_or(0)
        })
    }
}

#[derive(Clone, Debug)]
pub enum Case {
    /// capacity, initial countdown (0 = uninitialised), scripted draws
    Trigger { k: usize, start: u64, script: Vec<u64> },
    /// capacity, write sequence (op code 0..6: set/put x fresh/oldest/newest), draw default
    Growth { k: usize, seq: Vec<u8>, draw: u64 },
    /// as Growth, with every source file staged in cache.temp_dir(); `first`: scripted draws before the default
    Staged { k: usize, seq: Vec<u8>, draw: u64, first: Vec<u64> },
    /// fresh-key puts while `.kismet_temp` is a regular file (listing it fails with ENOTDIR, so every
    /// maintaining write returns an error): the directory must still be pruned on schedule
    BrokenTemp { k: usize, writes: u32, draw: u64 },
    /// capacity, draw, number of writes
    Huge { k: usize, draw: u64, writes: u32 },
    /// fresh-key writes (alternating set/put) into a directory the application names as SPELLINGS[spelling]
    Spelled { k: usize, spelling: usize, draw: u64 },
    /// fresh-key writes whose values are symbolic links (see Writer::source_kind)
    Linked { k: usize, source_kind: u8, draw: u64 },
    /// worst-case family at capacity k: fresh keys only, alternating (mode 0) or all put (mode 1)
    Family { k: usize, mode: u8, draw: u64 },
    /// fresh-key writes by a thread that builds a cache handle between any two of them: 0 its own handle again
    /// (same directory and capacity), 1 a plain handle on an unrelated directory, 2 a sharded one, 3 a stacked
    /// cache through the builder.  Building a handle is not a write and may not use up, or restart, the window.
    Rebuilt { k: usize, mode: u8, draw: u64 },
    /// fresh-key writes while every listing of the cache directory is refused with `errno` (descriptors or memory
    /// exhausted): a write whose maintenance was due and could not run may fail, but it may not insert anyway
    DeniedListing { k: usize, errno: i32, draw: u64 },
    /// fresh-key writes on a filesystem whose timestamps have a granularity of `gran_s` seconds while the clock
    /// advances a millisecond per call: every file of a burst carries the same modification time
    Coarse { k: usize, gran_s: u8, draw: u64 },
}

impl Case {
    fn to_json(&self) -> Value {
        match self {
            Case::Trigger { k, start, script } => json!({"kind": "trigger", "k": k.to_string(), "start": start.to_string(), "script": script.iter().map(|d| d.to_string()).collect::<Vec<_>>()}),
            Case::Growth { k, seq, draw } => json!({"kind": "growth", "k": k.to_string(), "seq": seq, "draw": draw.to_string()}),
            Case::Staged { k, seq, draw, first } => json!({"kind": "staged", "k": k.to_string(), "seq": seq, "draw": draw.to_string(), "first": first.iter().map(|d| d.to_string()).collect::<Vec<_>>()}),
            Case::BrokenTemp { k, writes, draw } => json!({"kind": "broken_temp", "k": k.to_string(), "writes": writes, "draw": draw.to_string()}),
            Case::Huge { k, draw, writes } => json!({"kind": "huge", "k": k.to_string(), "draw": draw.to_string(), "writes": writes}),
            Case::Spelled { k, spelling, draw } => json!({"kind": "spelled", "k": k.to_string(), "spelling": spelling, "directory_named": SPELLINGS[*spelling], "draw": draw.to_string()}),
            Case::Linked { k, source_kind, draw } => json!({"kind": "linked", "k": k.to_string(), "source_kind": source_kind, "draw": draw.to_string()}),
            Case::Family { k, mode, draw } => json!({"kind": "family", "k": k.to_string(), "mode": mode, "draw": draw.to_string()}),
            Case::Rebuilt { k, mode, draw } => json!({"kind": "rebuilt", "k": k.to_string(), "mode": mode, "draw": draw.to_string()}),
            Case::Coarse { k, gran_s, draw } => json!({"kind": "coarse", "k": k.to_string(), "gran_s": gran_s, "draw": draw.to_string()}),
            Case::DeniedListing { k, errno, draw } => json!({"kind": "denied_listing", "k": k.to_string(), "errno": errno, "draw": draw.to_string()}),
        }
    }
    fn from_json(v: &Value) -> Case {
        let k: usize = v["k"].as_str().unwrap().parse().unwrap();
        let num = |x: &Value| x.as_str().unwrap().parse::<u64>().unwrap();
        match v["kind"].as_str().unwrap() {
            "trigger" => Case::Trigger { k, start: num(&v["start"]), script: v["script"].as_array().unwrap().iter().map(num).collect() },
            "growth" => Case::Growth { k, seq: v["seq"].as_array().unwrap().iter().map(|x| x.as_u64().unwrap() as u8).collect(), draw: num(&v["draw"]) },
            "staged" => Case::Staged {
                k,
                seq: v["seq"].as_array().unwrap().iter().map(|x| x.as_u64().unwrap() as u8).collect(),
                draw: num(&v["draw"]),
                first: v["first"].as_array().map(|a| a.iter().map(num).collect()).unwrap_or_default(),
            },
            "broken_temp" => Case::BrokenTemp { k, writes: v["writes"].as_u64().unwrap() as u32, draw: num(&v["draw"]) },
            "linked" => Case::Linked { k, source_kind: v["source_kind"].as_u64().unwrap() as u8, draw: num(&v["draw"]) },
            "spelled" => Case::Spelled { k, spelling: v["spelling"].as_u64().unwrap() as usize, draw: num(&v["draw"]) },
            "coarse" => Case::Coarse { k, gran_s: v["gran_s"].as_u64().unwrap() as u8, draw: num(&v["draw"]) },
            "denied_listing" => Case::DeniedListing { k, errno: v["errno"].as_i64().unwrap() as i32, draw: num(&v["draw"]) },
            "rebuilt" => Case::Rebuilt { k, mode: v["mode"].as_u64().unwrap() as u8, draw: num(&v["draw"]) },
            "huge" => Case::Huge { k, draw: num(&v["draw"]), writes: v["writes"].as_u64().unwrap() as u32 },
            _ => Case::Family { k, mode: v["mode"].as_u64().unwrap() as u8, draw: num(&v["draw"]) },
        }
    }
}

pub fn run_case(case: &Case, rep: &mut Report) -> Vec<(String, String)> {
    run::reset_env();
    let sc = Scratch::new();
    let mut bad = Vec::new();
    match case {
        Case::Trigger { k, start, script } => {
            let p = period(*k as u128) as u64;
            let mut w = Writer::new(&sc, *k);
            verif_hooks::script_trigger_draws(script, Some(u64::MAX));
            verif_hooks::set_trigger_counter(*start);
            let mut fired_at = None;
            for i in 1..=(p + 2) {
                let (r, ran, before, trace) = w.write(&format!("key{}", i), i % 2 == 0);
                rep.transitions += trace.len() as u64;
                match r {
                    Err(pmsg) => bad.push(("panic".into(), format!("write {} panicked: {}", i, pmsg))),
                    Ok(Err(e)) => bad.push(("error".into(), format!("write {} failed: {}", i, e))),
                    Ok(Ok(())) => {}
                }
                if ran {
                    if !before {
                        bad.push(("maintenance-after-insertion".into(), format!("write {}: the directory was listed after the write's own publication", i)));
                    }
                    fired_at = Some(i);
                    break;
                }
            }
            match fired_at {
                Some(i) if i <= p => {}
                Some(i) => bad.push((
                    "window-exceeded".into(),
                    format!("capacity {}: first maintenance at write {}, but every window of max(1, k/3) = {} consecutive writes must contain one", k, i, p),
                )),
                None => bad.push(("window-exceeded".into(), format!("capacity {}: no maintenance within {} writes (window {})", k, p + 2, p))),
            }
        }
        Case::Growth { k, seq, draw } | Case::Staged { k, seq, draw, .. } => {
            let p = period(*k as u128) as usize;
            let mut w = Writer::new(&sc, *k);
            w.stage_in_temp_dir = matches!(case, Case::Staged { .. });
            let first: Vec<u64> = match case {
                Case::Staged { first, .. } => first.clone(),
                _ => vec![],
            };
            verif_hooks::script_trigger_draws(&first, Some(*draw));
            verif_hooks::set_trigger_counter(0);
            let mut fresh = 0;
            let mut names: Vec<String> = Vec::new();
            let mut since = 0usize;
            for (i, &c) in seq.iter().enumerate() {
                let set = c % 2 == 0;
                let name = match c / 2 {
                    0 => {
                        fresh += 1;
                        format!("key{}", fresh)
                    }
                    1 => names.first().cloned().unwrap_or_else(|| {
                        fresh += 1;
                        format!("key{}", fresh)
                    }),
                    _ => names.last().cloned().unwrap_or_else(|| {
                        fresh += 1;
                        format!("key{}", fresh)
                    }),
                };
                if !names.contains(&name) {
                    names.push(name.clone());
                }
                let (r, ran, before, trace) = w.write(&name, set);
                rep.transitions += trace.len() as u64;
                if !matches!(r, Ok(Ok(()))) {
                    bad.push(("error".into(), format!("write {} failed: {:?}", i, r)));
                }
                if ran {
                    since = 0;
                    if !before {
                        bad.push(("maintenance-after-insertion".into(), format!("write {}: listed after publication", i)));
                    }
                } else {
                    since += 1;
                    if since >= p {
                        bad.push(("window-exceeded".into(), format!("capacity {}: {} consecutive writes without maintenance (window {})", k, since, p)));
                    }
                }
                let n = w.file_count();
                if n > k + p {
                    bad.push(("too-many-files".into(), format!("capacity {}: {} files after write {} (bound k + max(1, k/3) = {})", k, n, i, k + p)));
                }
            }
            if bad.iter().any(|b| b.0 == "error") {
                bad.retain(|b| b.0 == "error");
            }
        }
        Case::BrokenTemp { k, writes, draw } => {
            let p = period(*k as u128) as usize;
            let mut w = Writer::new(&sc, *k);
            shim::passthrough(|| std::fs::write(w.dir.join(".kismet_temp"), b"not a directory").unwrap());
            verif_hooks::script_trigger_draws(&[], Some(*draw));
            verif_hooks::set_trigger_counter(0);
            let mut ok_writes = 0u32;
            for i in 0..*writes {
                let (r, _ran, _before, trace) = w.write(&format!("key{}", i), i % 2 == 0);
                rep.transitions += trace.len() as u64;
                match r {
                    Err(pmsg) => {
                        bad.push(("panic".into(), format!("write {} panicked: {}", i, pmsg)));
                        break;
                    }
                    Ok(Ok(())) => ok_writes += 1,
                    Ok(Err(_)) => {} // the failed listing of .kismet_temp is reported: fine
                }
                // (the .kismet_temp file itself is not a cache entry)
                let n = w.file_count().saturating_sub(1);
                if n > k + p {
                    bad.push((
                        "too-many-files".into(),
                        format!("capacity {}: {} files after write {} ({} succeeded) although every trigger firing reached maintenance (bound {})", k, n, i, ok_writes, k + p),
                    ));
                    break;
                }
            }
        }
        Case::Linked { k, source_kind, draw } => {
            let p = period(*k as u128) as usize;
            let mut w = Writer::new(&sc, *k);
            w.source_kind = *source_kind;
            verif_hooks::script_trigger_draws(&[], Some(*draw));
            verif_hooks::set_trigger_counter(0);
            let mut since = 0usize;
            for i in 0..(3 * (k + p) + 3) {
                let (r, ran, _before, trace) = w.write(&format!("key{}", i), i % 2 == 0);
                rep.transitions += trace.len() as u64;
                if !matches!(r, Ok(Ok(()))) {
                    bad.push(("error".into(), format!("write {} failed: {:?}", i, r)));
                    break;
                }
                if ran {
                    since = 0;
                } else {
                    since += 1;
                    if since >= p {
                        bad.push(("window-exceeded".into(), format!("capacity {}: {} consecutive writes without maintenance (window {})", k, since, p)));
                        break;
                    }
                }
                let n = w.file_count();
                if n > k + p {
                    bad.push((
                        "too-many-files".into(),
                        format!("capacity {}, values handed over as symbolic links (kind {}): {} entries after write {} (bound {})", k, source_kind, n, i, k + p),
                    ));
                    break;
                }
            }
        }
        Case::Spelled { k, spelling, draw } => {
            let p = period(*k as u128) as usize;
            let mut w = Writer::new_spelled(&sc, *k, *spelling);
            verif_hooks::script_trigger_draws(&[], Some(*draw));
            verif_hooks::set_trigger_counter(0);
            let mut since = 0usize;
            for i in 0..(2 * (k + p) + 3) {
                let (r, ran, before, trace) = w.write(&format!("key{}", i), i % 2 == 0);
                rep.transitions += trace.len() as u64;
                if !matches!(r, Ok(Ok(()))) {
                    bad.push(("error".into(), format!("write {} failed: {:?}", i, r)));
                    break;
                }
                if ran {
                    since = 0;
                    if !before {
                        bad.push(("maintenance-after-insertion".into(), format!("write {}: listed after publication", i)));
                    }
                } else {
                    since += 1;
                    if since >= p {
                        bad.push(("window-exceeded".into(), format!("capacity {}: {} consecutive writes without maintenance (window {})", k, since, p)));
                        break;
                    }
                }
                let n = w.file_count();
                if n > k + p {
                    bad.push((
                        "too-many-files".into(),
                        format!("capacity {}, directory named {:?}: {} files after write {} (bound {})", k, SPELLINGS[*spelling], n, i, k + p),
                    ));
                    break;
                }
            }
            std::env::set_current_dir("/").unwrap();
        }
        Case::Family { k, mode, draw } => {
            let p = period(*k as u128) as usize;
            let mut w = Writer::new(&sc, *k);
            verif_hooks::script_trigger_draws(&[], Some(*draw));
            verif_hooks::set_trigger_counter(0);
            let mut since = 0usize;
            let total = 2 * (k + p) + 2;
            for i in 0..total {
                let set = *mode == 0 && i % 2 == 0;
                let (r, ran, _before, trace) = w.write(&format!("key{}", i), set);
                rep.transitions += trace.len() as u64;
                if !matches!(r, Ok(Ok(()))) {
                    bad.push(("error".into(), format!("write {} failed: {:?}", i, r)));
                    break;
                }
                if ran {
                    since = 0;
                } else {
                    since += 1;
                    if since >= p {
                        bad.push(("window-exceeded".into(), format!("capacity {}: {} consecutive writes without maintenance (window {})", k, since, p)));
                        break;
                    }
                }
                let n = w.file_count();
                if n > k + p {
                    bad.push(("too-many-files".into(), format!("capacity {}: {} files after write {} (bound {})", k, n, i, k + p)));
                    break;
                }
            }
        }
        Case::Rebuilt { k, mode, draw } => {
            let p = period(*k as u128) as usize;
            let mut w = Writer::new(&sc, *k);
            verif_hooks::script_trigger_draws(&[], Some(*draw));
            verif_hooks::set_trigger_counter(0);
            let mut since = 0usize;
            let mut others: Vec<Box<dyn std::any::Any>> = Vec::new();
            for i in 0..(3 * p + 3) {
                if i > 0 {
                    let elsewhere = sc.path(&format!("elsewhere{}", i));
                    let (dir, k) = (w.dir.clone(), *k);
                    let (built, _t) = run::as_participant(0, 1000 + i as u32, || -> Box<dyn std::any::Any> {
                        match *mode {
                            0 => Box::new(kismet_cache::plain::Cache::new(dir, k)),
                            1 => Box::new(kismet_cache::plain::Cache::new(elsewhere, 7)),
                            2 => Box::new(kismet_cache::sharded::Cache::new(elsewhere, 4, 40)),
                            _ => Box::new(kismet_cache::CacheBuilder::new().writer(&elsewhere, 1, 9).plain_reader(&dir).take().build()),
                        }
                    });
                    match built {
                        Ok(b) => {
                            if *mode == 0 {
                                w.cache = *b.downcast::<kismet_cache::plain::Cache>().unwrap();
                            } else {
                                others.push(b); // stays alive, as a long-lived handle would
                            }
                        }
                        Err(pmsg) => {
                            bad.push(("panic".into(), format!("building a handle panicked: {}", pmsg)));
                            break;
                        }
                    }
                }
                let (r, ran, _before, trace) = w.write(&format!("key{}", i), i % 2 == 0);
                rep.transitions += trace.len() as u64;
                if !matches!(r, Ok(Ok(()))) {
                    bad.push(("error".into(), format!("write {} failed: {:?}", i, r)));
                    break;
                }
                if ran {
                    since = 0;
                } else {
                    since += 1;
                    if since >= p {
                        bad.push(("window-exceeded".into(), format!("capacity {}, a handle built between writes (mode {}): {} consecutive writes without maintenance (window {})", k, mode, since, p)));
                        break;
                    }
                }
                let n = w.file_count();
                if n > k + p {
                    bad.push(("too-many-files".into(), format!("capacity {}: {} files after write {} (bound {})", k, n, i, k + p)));
                    break;
                }
            }
        }
        Case::Coarse { k, gran_s, draw } => {
            let p = period(*k as u128) as usize;
            shim::set_granularity_ns(*gran_s as i64 * 1_000_000_000);
            let mut w = Writer::new(&sc, *k);
            verif_hooks::script_trigger_draws(&[], Some(*draw));
            verif_hooks::set_trigger_counter(0);
            let mut since = 0usize;
            for i in 0..(3 * (k + p) + 6) {
                let (r, ran, _before, trace) = w.write(&format!("key{}", i), i % 2 == 0);
                rep.transitions += trace.len() as u64;
                if !matches!(r, Ok(Ok(()))) {
                    bad.push(("error".into(), format!("write {} failed: {:?}", i, r)));
                    break;
                }
                if ran {
                    since = 0;
                } else {
                    since += 1;
                    if since >= p {
                        bad.push(("window-exceeded".into(), format!("capacity {}: {} consecutive writes without maintenance (window {})", k, since, p)));
                        break;
                    }
                }
                let n = w.file_count();
                if n > k + p {
                    bad.push(("too-many-files".into(), format!("capacity {}, timestamps of {} s granularity (all files of the burst share one modification time): {} files after write {} (bound {})", k, gran_s, n, i, k + p)));
                    break;
                }
            }
            shim::set_granularity_ns(1);
        }
        Case::DeniedListing { k, errno, draw } => {
            struct DenyListing {
                dir: String,
                errno: i32,
            }
            impl shim::Controller for DenyListing {
                fn before(&self, ev: &Ev) -> shim::Action {
                    if ev.kind == Kind::Opendir && ev.path.as_deref() == Some(self.dir.as_str()) {
                        shim::Action::Fail(self.errno)
                    } else {
                        shim::Action::Proceed
                    }
                }
            }
            let p = period(*k as u128) as usize;
            let mut w = Writer::new(&sc, *k);
            verif_hooks::script_trigger_draws(&[], Some(*draw));
            verif_hooks::set_trigger_counter(0);
            let dir = w.dir.to_string_lossy().into_owned();
            shim::set_controller(Some(std::sync::Arc::new(DenyListing { dir: dir.clone(), errno: *errno })));
            for i in 0..(3 * (k + p) + 6) {
                let before_n = w.file_count();
                let (r, _ran, _before, trace) = w.write(&format!("key{}", i), i % 2 == 0);
                rep.transitions += trace.len() as u64;
                if let Err(pmsg) = &r {
                    bad.push(("panic".into(), format!("write {} panicked: {}", i, pmsg)));
                    break;
                }
                let denied = trace.iter().any(|e| e.kind == Kind::Opendir && e.path.as_deref() == Some(dir.as_str()) && !e.ok());
                let n = w.file_count();
                if denied && matches!(r, Ok(Ok(()))) && n > before_n {
                    bad.push((
                        "inserted-without-maintenance".into(),
                        format!("capacity {}: write {} was due to maintain, the listing of the directory was refused (errno {}), and the write inserted its file anyway ({} files)", k, i, errno, n),
                    ));
                    break;
                }
                // with a period of one write every write is due: nothing is ever inserted beyond the bound
                if p == 1 && *k < 6 && n > k + p {
                    bad.push(("too-many-files".into(), format!("capacity {}: {} files after write {} (bound {})", k, n, i, k + p)));
                    break;
                }
            }
            shim::set_controller(None);
        }
        Case::Huge { k, draw, writes } => {
            let s = scale(*k as u128);
            let mut w = Writer::new(&sc, *k);
            verif_hooks::script_trigger_draws(&[], Some(*draw));
            verif_hooks::set_trigger_counter(*draw);
            let mut fired_at = None;
            for i in 1..=*writes {
                let (r, ran, _b, trace) = w.write(&format!("key{}", i), false);
                rep.transitions += trace.len() as u64;
                match r {
                    Err(pmsg) => {
                        bad.push(("panic".into(), format!("capacity {}: write {} panicked: {}", k, i, pmsg)));
                        break;
                    }
                    Ok(Err(e)) => {
                        bad.push(("error".into(), format!("write {} failed: {}", i, e)));
                        break;
                    }
                    _ => {}
                }
                if ran && fired_at.is_none() {
                    fired_at = Some(i);
                    if *writes < 100 {
                        break;
                    }
                }
            }
            // a small draw must fire at once
            let d = *draw as u128;
            if d <= s && fired_at != Some(1) {
                bad.push(("small-draw-did-not-fire".into(), format!("capacity {}: countdown {} <= per-event decrement {} but maintenance first ran at write {:?}", k, d, s, fired_at)));
            }
            if d == u64::MAX as u128 && *writes >= 100 && fired_at.is_some() && period(*k as u128) > *writes as u128 {
                // not a violation of the property (firing early is allowed); recorded for information
                rep.count("huge_max_draw_fired_early", 1);
            }
        }
    }
    bad
}

fn record(case: &Case, rep: &mut Report) {
    rep.evaluations += 1;
    rep.states += 1;
    rep.traces += 1;
    rep.nontrivial.insert(world::fnv(case.to_json().to_string().as_bytes()));
    for (sig, msg) in run_case(case, rep) {
        rep.violation(format!("growth:{}", sig), format!("{}: {}", case.to_json(), msg), case.to_json());
    }
}

pub fn run(tier: Tier, shard: Shard, rep: &mut Report) {
    let (kmax, seqlen, smallk) = if tier == Tier::Quick { (40usize, 5usize, 6usize) } else { (200, 7, 6) };
    rep.rule = format!(
        "(1) trigger state graph through the real plain::Cache write path: for every capacity 0..={} and every adversarial draw r \
         (1, 2, j*scale-1, j*scale, j*scale+1 for every j <= period, 2^64-2, 2^64-1), from the uninitialised countdown (draw queue \
         [r], then [r, r2]) and from the just-fired state (countdown = r), fresh keys are written until maintenance is observed \
         (opendir of the cache directory in that write's trace): it must come within max(1, k/3) writes and before the write's own \
         rename/link; (2) for capacities 0..={} every write sequence of length <= {} over {{set, put}} x {{fresh, oldest, newest key}} \
         with the gap-maximising and the minimal draw, and for capacities up to {} the fresh-key worst-case families of length \
         2(k+p)+2: after every write the file count is <= k + max(1, k/3) and no window of max(1, k/3) writes lacks maintenance; (3) \
         the fresh-key families again with every source file staged in cache.temp_dir() (the documented workflow: temp_dir() is \
         not a write and must not use up the window); fresh-key writes while .kismet_temp cannot be listed (it is a regular file): \
         the firing writes report the error but the directory is still pruned on schedule; fresh-key writes for capacities 0..=12 with the \
         directory named in 8 ways (absolute, relative, '.', the empty path, './cache/', 'cache//', 'cache/.', '../cache'); fresh-key writes for capacities 0..=12 whose values \
         are symbolic links (to a file that stays, to a file deleted after the write, to a directory); capacities 0..=30 on a filesystem with 1 s and 2 s timestamps (all files of a burst share one modification time); capacities 0..=20 with every listing of the cache directory refused (EMFILE, ENFILE, ENOMEM, EIO, EACCES): a write that was due to maintain does not insert without having listed; capacities 0..=40 with a cache handle built by the writing thread between any two writes (its own again, an unrelated plain, sharded or stacked one) x 3 draws; capacities 2^63, 3*2^62, usize::MAX-2..=usize::MAX: small draws fire at the first write, 2^64-1 with 1000 writes never \
         panics. Every case is distinct. (4) One writer at capacity 2, 3, 5 over an over-full directory racing with an outsider that \
         deletes the oldest, a middle or the newest entry, or with a reader that looks every entry up (all schedules with <= 2 preemptions): the bound holds after the write.",
        kmax, smallk, seqlen, kmax
    );
    rep.assumptions = vec![
        "the random source is replaced by scripted draws (hook in trigger::regenerate); 'maintenance ran' is observed in the call trace, not inferred".into(),
        "single writer thread, no concurrent writers (as the property states)".into(),
    ];
    let mut no = 0u64;
    let mut take = |case: Case, rep: &mut Report| {
        no += 1;
        if shard.mine(no) {
            if no % 4099 == 0 {
                rep.sample(case.to_json());
            }
            record(&case, rep);
        }
    };
    // (1)
    for k in 0..=kmax {
        let ds = draws(k as u128);
        for &r in &ds {
            take(Case::Trigger { k, start: r, script: vec![] }, rep);
            take(Case::Trigger { k, start: 0, script: vec![r] }, rep);
        }
        // uninitialised: first draw fires at once, second draw then rules
        for &r2 in ds.iter().step_by((ds.len() / 8).max(1)) {
            take(Case::Trigger { k, start: 0, script: vec![1, r2] }, rep);
            take(Case::Trigger { k, start: 0, script: vec![0, 0, r2] }, rep);
        }
    }
    // (2) small capacities: all short sequences
    for k in 0..=smallk {
        for len in 1..=seqlen {
            for code in 0..6u64.pow(len as u32) {
                let mut c = code;
                let seq: Vec<u8> = (0..len)
                    .map(|_| {
                        let d = (c % 6) as u8;
                        c /= 6;
                        d
                    })
                    .collect();
                for draw in [u64::MAX, 1u64] {
                    take(Case::Growth { k, seq: seq.clone(), draw }, rep);
                }
                if tier == Tier::Thorough && len <= 5 {
                    let s = scale(k as u128) as u64;
                    take(Case::Growth { k, seq: seq.clone(), draw: s.saturating_add(1) }, rep);
                }
            }
        }
    }
    for k in 0..=kmax.min(30) {
        let p = period(k as u128) as usize;
        let sc = scale(k as u128) as u64;
        // every phase of the countdown relative to the (temp_dir, write) pairs: the first draw fires at
        // once or not, then a constant draw worth 1, 2, 3 or "period" events
        for draw in [u64::MAX, 1u64, sc.saturating_add(1), sc.saturating_mul(2), sc.saturating_mul(2).saturating_add(1), sc.saturating_mul(3)] {
            for first in [vec![], vec![1u64], vec![sc.saturating_add(1)]] {
                for pattern in 0..2u8 {
                    // fresh keys only: all put, alternating set/put
                    let len = 3 * p + 3;
                    let seq: Vec<u8> = (0..len).map(|i| match pattern { 0 => 1, _ => (i % 2) as u8 }).collect();
                    take(Case::Staged { k, seq, draw, first: first.clone() }, rep);
                }
            }
        }
    }
    for k in 0..=kmax.min(30) {
        let p = period(k as u128) as u32;
        for draw in [u64::MAX, 1u64, (scale(k as u128) as u64).saturating_add(1)] {
            take(Case::BrokenTemp { k, writes: 3 * (k as u32 + p) + 6, draw }, rep);
        }
    }
    for k in (smallk + 1)..=kmax {
        for mode in 0..2u8 {
            for draw in [u64::MAX, (scale(k as u128) as u64).saturating_mul(period(k as u128) as u64 - 1).saturating_add(1)] {
                take(Case::Family { k, mode, draw }, rep);
            }
        }
    }
    // coarse timestamps: every file of a burst carries the same modification time
    for k in 0..=kmax.min(30) {
        for gran_s in [1u8, 2] {
            for draw in [u64::MAX, 1u64] {
                take(Case::Coarse { k, gran_s, draw }, rep);
            }
        }
    }
    // every listing of the directory refused (descriptors, memory): no insertion without the maintenance that was due
    for k in 0..=kmax.min(20) {
        for errno in [libc::EMFILE, libc::ENFILE, libc::ENOMEM, libc::EIO, libc::EACCES] {
            for draw in [u64::MAX, 1u64] {
                take(Case::DeniedListing { k, errno, draw }, rep);
            }
        }
    }
    // a handle built between any two writes
    for k in 0..=kmax.min(40) {
        for mode in 0..4u8 {
            for draw in [u64::MAX, 1u64, (scale(k as u128) as u64).saturating_mul((period(k as u128) as u64).saturating_sub(1)).saturating_add(1)] {
                take(Case::Rebuilt { k, mode, draw }, rep);
            }
        }
    }
    // values handed over as symbolic links (to a file that stays, to one deleted afterwards, to a directory)
    for k in 0..=kmax.min(12) {
        for source_kind in 1..=3u8 {
            for draw in [u64::MAX, 1u64] {
                take(Case::Linked { k, source_kind, draw }, rep);
            }
        }
    }
    // the same directory under every spelling an application may use for it
    for k in 0..=kmax.min(12) {
        for spelling in 0..SPELLINGS.len() {
            for draw in [u64::MAX, 1u64] {
                take(Case::Spelled { k, spelling, draw }, rep);
            }
        }
    }
    // (3)
    for k in [1usize << 63, 3usize << 62, usize::MAX - 2, usize::MAX - 1, usize::MAX] {
        let s = scale(k as u128) as u64;
        for draw in [1u64, 2, s, s + 1] {
            take(Case::Huge { k, draw, writes: 3 }, rep);
        }
        take(Case::Huge { k, draw: u64::MAX, writes: 1000 }, rep);
    }
    rep.fact("max_capacity", json!(kmax));
    rep.fact("cases_total", json!(no));
    if shard.index == 0 {
        rep.sample(Case::Trigger { k: 9, start: 0, script: vec![scale(9) as u64 * 3 - 1] }.to_json());
    }
    let _: Option<&Path> = None;
    run::reset_env();
    concurrent(shard, rep);
}

/// The bound with an outsider deleting entries while the single writer maintains (a deleter is not a
/// writer: what it removes can only help): after the write the directory holds <= k + max(1, k/3) files.
fn concurrent_programs() -> Vec<(crate::sched::Program, crate::props::e1::Mode, usize)> {
    use crate::ops::Op;
    use crate::props::e1::{self, api, planted, Mode};
    use crate::sched::POp;
    use crate::world::{Size, Val};
    let m = crate::ops::key_for_shards("m", 0, 1, 2);
    let mut out = Vec::new();
    for (k, npre) in [(2usize, 5usize), (3, 6), (5, 8)] {
        let pre: Vec<crate::sched::Planted> = (0..npre).map(|i| planted(&format!("x{}", i), Val::new(10 + i as u8, Size::One), i % 3 == 1, 20 - i as i64)).collect();
        // a reader (it never writes) looking entries up while the writer maintains: whatever it touches after the
        // listing, the pass still brings the directory down to capacity
        for set in [true, false] {
            let v = e1::wval(0, 0, Size::One);
            let w = if set { Op::Set(m.clone(), v) } else { Op::Put(m.clone(), v) };
            let reads: Vec<POp> = (0..npre).map(|i| api(Op::Get(crate::ops::key_for_shards(&format!("x{}", i), 0, 1, 2)))).collect();
            out.push((
                crate::sched::Program {
                    name: format!("growth-k{}n{}-{}|reader", k, npre, if set { "set" } else { "put" }),
                    cfg: e1::plain_cfg(k),
                    pre: pre.clone(),
                    threads: e1::own_handles(vec![vec![api(w)], reads], true),
                    create_write_dir: true,
                },
                crate::props::e1::side_bound(),
                k,
            ));
        }
        for (name, victim) in [("oldest", 0usize), ("middle", npre / 2), ("newest", npre - 1)] {
            for set in [true, false] {
                let v = e1::wval(0, 0, Size::One);
                let w = if set { Op::Set(m.clone(), v) } else { Op::Put(m.clone(), v) };
                out.push((
                    crate::sched::Program {
                        name: format!("growth-k{}n{}-{}|deleter-{}", k, npre, if set { "set" } else { "put" }, name),
                        cfg: e1::plain_cfg(k),
                        pre: pre.clone(),
                        threads: e1::own_handles(vec![vec![api(w)], vec![POp::Unlink(format!("x{}", victim))]], true),
                        create_write_dir: true,
                    },
                    crate::props::e1::side_bound(),
                    k,
                ));
            }
        }
    }
    out
}

fn concurrent_check(x: &crate::sched::Execution, k: usize) -> Vec<(String, String)> {
    let mut bad = Vec::new();
    if x.history.iter().any(|r| r.outcome.res.is_err() || r.outcome.res.is_panic()) {
        return bad; // C05's business
    }
    let n = x
        .final_snapshot
        .iter()
        .filter(|(rel, n)| n.kind == 'f' && rel.starts_with("w/") && !rel[2..].contains('/') && !rel[2..].starts_with('.'))
        .count();
    let p = period(k as u128) as usize;
    if n > k + p {
        bad.push(("too-many-files".into(), format!("capacity {}: {} files after the write although only a deleter ran beside it (bound {})", k, n, k + p)));
    }
    bad
}

fn concurrent(shard: Shard, rep: &mut Report) {
    let all = concurrent_programs();
    let progs: Vec<(crate::sched::Program, crate::props::e1::Mode)> = all.iter().map(|p| (p.0.clone(), p.1)).collect();
    let mut chk = |pi: usize, x: &crate::sched::Execution| concurrent_check(x, all[pi].2);
    crate::props::e1::explore_all("C10", &progs, shard, rep, &|_| crate::sched::RunOpts::default(), &mut chk, 500_000);
}

pub fn replay(case: &Value, rep: &mut Report) {
    if case.get("program").is_some() {
        let all = concurrent_programs();
        let name = case["program"].as_str().unwrap_or("").to_string();
        let k = all.iter().find(|p| p.0.name == name).map(|p| p.2).unwrap_or(0);
        let progs: Vec<crate::sched::Program> = all.into_iter().map(|p| p.0).collect();
        let mut chk = |x: &crate::sched::Execution| concurrent_check(x, k);
        crate::props::e1::replay_case("C10", &progs, case, rep, &|| crate::sched::RunOpts::default(), &mut chk);
        return;
    }
    record(&Case::from_json(case), rep);
}
