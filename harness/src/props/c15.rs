//! C15 — read-only caches are never modified.
use crate::ops::{self, Front};
use crate::props::stackmx::*;
use crate::props::{c13, c14};
use crate::report::{Report, Shard, Tier};
use crate::run;
use crate::shim::{self, Ev, Kind};
use crate::world::{self, Scratch, Snapshot};
use serde_json::{json, Value};
use std::path::PathBuf;

/// Mutating events of `trace` that target something under one of `roots`.
pub fn mutations_under(trace: &[Ev], roots: &[PathBuf], allowed_touch: &dyn Fn(&str) -> bool) -> Vec<String> {
    let mut bad = Vec::new();
    let under = |p: &Option<String>| -> bool {
        match p {
            Some(p) => roots.iter().any(|r| std::path::Path::new(p).starts_with(r)),
            None => false,
        }
    };
    for e in trace {
        if e.emulation {
            continue;
        }
        let hit = match e.kind {
            Kind::Open => {
                let f = e.flags as i32;
                // (filetime falls back to a plain O_WRONLY open when the read-only open of a path
                // fails; without O_CREAT/O_TRUNC such an open changes nothing by itself, and any
                // write/truncate through it is caught as its own event)
                (f & (libc::O_CREAT | libc::O_TRUNC)) != 0 && under(&e.path)
            }
            Kind::Mkdir | Kind::Unlink | Kind::Rmdir | Kind::Chmod | Kind::Fchmod | Kind::Truncate | Kind::Symlink => under(&e.path),
            Kind::Rename | Kind::Link => under(&e.path) && e.kind == Kind::Rename || under(&e.path2),
            Kind::Write | Kind::CopyRange => under(&e.path),
            Kind::Utimens => {
                under(&e.path) && (e.sets_mtime || !allowed_touch(e.path.as_deref().unwrap_or("")))
            }
            _ => false,
        };
        // a failed attempt is still an attempt to modify, except a failed lookup-touch
        if hit && (e.ok() || e.kind != Kind::Utimens) {
            bad.push(e.brief());
        }
    }
    bad
}

/// Snapshot comparison of a read-only root: equal up to the atime of found entries.
pub fn snapshot_violations(before: &Snapshot, after: &Snapshot, found: &dyn Fn(&str) -> bool) -> Vec<String> {
    let mut bad = Vec::new();
    for (kind, rel) in world::diff(before, after, false) {
        if kind == "atime" && found(&rel) {
            // (re-stamping the access time of a found entry is the permitted effect; with entries stamped by
            // a host whose clock is ahead, "now" may be numerically smaller than the old stamp)
            continue;
        }
        bad.push(format!("{} {}", kind, rel));
    }
    bad
}

pub fn check(run: &CellRun) -> Vec<(String, String)> {
    let cell = &run.cell;
    let mut bad = Vec::new();
    let key_paths: Vec<String> = {
        let w = if cell.has_writer() { 1 } else { 0 };
        (w..cell.contents.len())
            .filter_map(|l| run.copies[l].as_ref().map(|c| run.level_dirs[l].join(&c.0).to_string_lossy().into_owned()))
            .collect()
    };
    for m in mutations_under(&run.trace, &run.dirs.reads, &|p| key_paths.iter().any(|k| k == p)) {
        bad.push(("mutating-call".into(), format!("mutating call under a read-only root: {}", m.replace(run.scratch_root.to_str().unwrap(), ""))));
    }
    for (i, _) in run.dirs.reads.iter().enumerate() {
        let lvl = i + if cell.has_writer() { 1 } else { 0 };
        let copy = run.copies[lvl].as_ref().map(|c| c.0.clone());
        for v in snapshot_violations(&run.before[i + 1], &run.after[i + 1], &|rel| Some(rel.to_string()) == copy) {
            bad.push(("snapshot".into(), format!("read-only root {} changed: {}", i, v)));
        }
    }
    bad
}

// ---- ReadOnlyCache alone: roots missing / empty / populated, all kinds of names ----

#[derive(Clone, Debug)]
pub struct RoCase {
    /// per level: (sharded?, state 0 missing / 1 empty / 2 populated / 3 populated without the key's shard dirs)
    pub levels: Vec<(bool, u8)>,
    pub name: String,
    pub touch: bool,
    pub checker: bool,
    /// the levels are named by paths relative to the working directory ("ro0", "nested/ro1", ...)
    pub relative: bool,
}

impl RoCase {
    fn to_json(&self) -> Value {
        json!({"ro": true, "levels": self.levels.iter().map(|l| json!([l.0, l.1])).collect::<Vec<_>>(),
               "name_bytes": self.name.as_bytes(), "touch": self.touch, "checker": self.checker, "relative": self.relative})
    }
    fn from_json(v: &Value) -> RoCase {
        RoCase {
            levels: v["levels"].as_array().unwrap().iter().map(|l| (l[0].as_bool().unwrap(), l[1].as_u64().unwrap() as u8)).collect(),
            name: String::from_utf8(v["name_bytes"].as_array().unwrap().iter().map(|b| b.as_u64().unwrap() as u8).collect()).unwrap(),
            touch: v["touch"].as_bool().unwrap(),
            checker: v["checker"].as_bool().unwrap(),
            relative: v["relative"].as_bool().unwrap_or(false),
        }
    }
}

fn run_ro(case: &RoCase, rep: &mut Report) -> Vec<(String, String)> {
    run::reset_env();
    let sc = Scratch::new();
    let past = run::base_time_ns() as i128 - 86_400_000_000_000;
    let future = run::base_time_ns() as i128 + 86_400_000_000_000;
    let key = ops::K { name: case.name.clone(), ..the_key() };
    let mut b = kismet_cache::ReadOnlyCacheBuilder::new();
    let mut roots = Vec::new();
    let mut specs: Vec<(bool, PathBuf)> = Vec::new();
    for (i, &(sharded, state)) in case.levels.iter().enumerate() {
        let root = sc.path(&format!("ro{}", i));
        if state >= 1 {
            shim::passthrough(|| std::fs::create_dir_all(&root).unwrap());
        }
        if state >= 2 {
            // state 4: entries stamped by a host whose clock is a day ahead
            let old = if state == 4 { future } else { past };
            let dirs: Vec<PathBuf> = if state == 5 {
                // state 5: the directory holds the files of the *other* layout (it was used, or is shared, with the other
                // kind of cache): a sharded level finds the key's name directly under its root, a plain level finds shards
                if sharded {
                    vec![root.clone()]
                } else {
                    vec![root.join(ops::shard_dir_name(1)), root.join(ops::shard_dir_name(2))]
                }
            } else if sharded {
                if state == 3 {
                    vec![root.join(ops::shard_dir_name(0))]
                } else {
                    vec![root.join(ops::shard_dir_name(1)), root.join(ops::shard_dir_name(2))]
                }
            } else {
                vec![root.clone()]
            };
            // state 6: the entries were put there by other means than the library (copied, unpacked): still writable
            let entry_mode = if state == 6 { 0o644 } else { 0o444 };
            for d in dirs {
                world::plant(&d.join("key"), &val_a().bytes(), entry_mode, old - 120_000_000_000, old);
                world::plant(&d.join("other"), b"x", 0o444, old - 120_000_000_000, old);
                world::plant(&d.join(".app"), b"app", 0o644, old, old + 1);
                world::plant(&d.join("sub/file"), b"nested", 0o644, old, old + 1);
            }
        }
        // (named relative to the scratch root, which is then the working directory while the handle is built and used)
        let named: PathBuf = if case.relative { root.strip_prefix(&sc.root).unwrap().to_path_buf() } else { root.clone() };
        if case.relative {
            std::env::set_current_dir(&sc.root).unwrap();
        }
        specs.push((sharded, named));
        roots.push(root);
    }
    // (the state is recorded before the handle is built: registering a level is not allowed to create anything either)
    let before: Vec<Snapshot> = roots.iter().map(|r| world::snapshot(r)).collect();
    for (sharded, named) in &specs {
        if *sharded {
            b.sharded(named, NSHARDS);
        } else {
            b.plain(named);
        }
    }
    if case.checker {
        b.byte_equality_checker();
    }
    let cache = b.take().build();
    let touch = case.touch;
    let (r, trace) = run::as_participant(0, 0, || {
        if touch {
            cache.touch(key.key()).map(|_| ())
        } else {
            cache.get(key.key()).map(|f| {
                if let Some(mut f) = f {
                    let mut v = Vec::new();
                    let _ = std::io::Read::read_to_end(&mut f, &mut v);
                }
            })
        }
    });
    rep.transitions += trace.len() as u64;
    if case.relative {
        std::env::set_current_dir("/").unwrap();
    }
    let after: Vec<Snapshot> = roots.iter().map(|r| world::snapshot(r)).collect();
    let mut bad = Vec::new();
    if let Err(p) = r {
        bad.push(("panic".into(), format!("panicked: {}", p)));
    }
    let name = case.name.clone();
    let is_key_path = |p: &str| p.ends_with(&format!("/{}", name)) && !name.is_empty() && !name.contains('/');
    for m in mutations_under(&trace, &roots, &is_key_path) {
        bad.push(("mutating-call".into(), format!("mutating call under a read-only root: {}", m.replace(sc.root.to_str().unwrap(), ""))));
    }
    for (i, (bf, af)) in before.iter().zip(after.iter()).enumerate() {
        if bf.is_empty() && !af.is_empty() {
            bad.push(("root-created".into(), format!("read-only root {} did not exist and was created", i)));
        }
        for v in snapshot_violations(bf, af, &|rel| rel == name || rel.ends_with(&format!("/{}", name))) {
            bad.push(("snapshot".into(), format!("read-only root {} changed: {}", i, v)));
        }
    }
    bad
}

fn ro_cases() -> Vec<RoCase> {
    let mut names: Vec<String> = vec!["key".into(), "absent".into(), "".into(), "other".into()];
    let alphabet = ["a", ".", "/", "\\", "\0", "k"];
    for a in alphabet {
        names.push(a.to_string());
        for b in alphabet {
            names.push(format!("{}{}", a, b));
        }
    }
    names.extend(["sub/file", "sub/../key", "../ro1/key", ".app", "key/", "a/../key"].iter().map(|s| s.to_string()));
    let mut level_sets: Vec<Vec<(bool, u8)>> = Vec::new();
    let opts: Vec<(bool, u8)> = vec![(false, 0), (false, 1), (false, 2), (true, 0), (true, 1), (true, 2), (true, 3), (false, 4), (true, 4), (false, 5), (true, 5), (false, 6), (true, 6)];
    for a in &opts {
        level_sets.push(vec![*a]);
        for b in &opts {
            level_sets.push(vec![*a, *b]);
        }
    }
    // three levels: a populated plain, a populated sharded and one of each degenerate state
    for c in &opts {
        level_sets.push(vec![(false, 2), (true, 2), *c]);
        level_sets.push(vec![*c, (true, 2), (false, 2)]);
    }
    let mut out = Vec::new();
    for levels in level_sets {
        for name in &names {
            for touch in [false, true] {
                for checker in [false, true] {
                    if checker && touch {
                        continue;
                    }
                    out.push(RoCase { levels: levels.clone(), name: name.clone(), touch, checker, relative: false });
                    // the same levels named by relative paths, when one of them is missing or empty
                    if !checker && levels.len() <= 2 && levels.iter().any(|l| l.1 <= 1) && matches!(name.as_str(), "key" | "absent" | "") {
                        out.push(RoCase { levels: levels.clone(), name: name.clone(), touch, checker, relative: true });
                    }
                }
            }
        }
    }
    out
}

fn record_ro(case: &RoCase, rep: &mut Report) {
    rep.evaluations += 1;
    rep.states += 1;
    rep.traces += 1;
    rep.count("readonly_alone_cases", 1);
    if case.levels.iter().any(|l| l.1 != 2) || case.name != "key" {
        rep.count("nontrivial_count", 1);
    }
    for (sig, msg) in run_ro(case, rep) {
        rep.violation(format!("readonly:{}", sig), format!("{}: {}", case.to_json(), msg), case.to_json());
    }
}

/// Fails every open of a path with the given suffix (a copy in a read-only level) with `errno`.
struct FailOpensOf {
    suffix: String,
    errno: i32,
}

impl shim::Controller for FailOpensOf {
    fn before(&self, ev: &Ev) -> shim::Action {
        if matches!(ev.kind, Kind::Open | Kind::Stat) && ev.path.as_ref().map(|p| p.ends_with(&self.suffix)).unwrap_or(false) {
            return shim::Action::Fail(self.errno);
        }
        shim::Action::Proceed
    }
}

/// The same cell with the probes of each read-only copy answered ESTALE / EIO / EACCES / ENOENT.
fn record_with_faults(cell: &Cell, rep: &mut Report) {
    let w = if cell.has_writer() { 1 } else { 0 };
    for lvl in w..cell.contents.len() {
        if cell.contents[lvl] == 0 {
            continue;
        }
        for errno in [libc::ESTALE, libc::EIO, libc::EACCES, libc::ENOENT] {
            let suffix = format!("/r{}/{}", lvl - w, match cell.readers[lvl - w] {
                Front::Plain => "key".to_string(),
                Front::Sharded(n) => {
                    let k = the_key();
                    let (a, b) = ops::expected_shards(k.h1, k.h2, n);
                    format!("{}/key", ops::shard_dir_name(if cell.contents[lvl] >= 3 { b } else { a }))
                }
            });
            let ctl = std::sync::Arc::new(FailOpensOf { suffix, errno });
            CONTROLLER.with(|c| *c.borrow_mut() = Some(ctl as std::sync::Arc<dyn shim::Controller>));
            let before = rep.violations.len();
            record(cell, rep);
            CONTROLLER.with(|c| *c.borrow_mut() = None);
            for v in rep.violations.iter_mut().skip(before) {
                v.signature = format!("{}-under-fault", v.signature);
                if let Some(o) = v.case.as_object_mut() {
                    o.insert("fault_level".into(), json!(lvl));
                    o.insert("fault_errno".into(), json!(errno));
                }
            }
            rep.count("faulted_probe_cells", 1);
        }
    }
}

/// The first timestamp update under a read-only level is refused (EPERM: the entry belongs to someone else): no
/// fallback may stamp the entry some other way.
struct RefuseFirstStamp {
    errno: i32,
    done: std::sync::atomic::AtomicBool,
}

impl shim::Controller for RefuseFirstStamp {
    fn before(&self, ev: &shim::Ev) -> shim::Action {
        let in_ro = ev.path.as_ref().map(|p| p.contains("/r0/") || p.contains("/r1/") || p.contains("/r2/")).unwrap_or(false);
        if ev.kind == shim::Kind::Utimens && in_ro && !self.done.swap(true, std::sync::atomic::Ordering::SeqCst) {
            return shim::Action::Fail(self.errno);
        }
        shim::Action::Proceed
    }
}

fn record_with_refused_stamp(cell: &Cell, rep: &mut Report) {
    for errno in [libc::EPERM, libc::EACCES, libc::EROFS] {
        let ctl = std::sync::Arc::new(RefuseFirstStamp { errno, done: std::sync::atomic::AtomicBool::new(false) });
        CONTROLLER.with(|c| *c.borrow_mut() = Some(ctl as std::sync::Arc<dyn shim::Controller>));
        let before = rep.violations.len();
        record(cell, rep);
        CONTROLLER.with(|c| *c.borrow_mut() = None);
        for v in rep.violations.iter_mut().skip(before) {
            v.signature = format!("{}-under-fault", v.signature);
            v.text = format!("[first timestamp update under the read-only levels refused with errno {}] {}", errno, v.text);
            if let Some(o) = v.case.as_object_mut() {
                o.insert("refused_stamp".into(), json!(true));
            }
        }
        rep.count("refused_stamp_cells", 1);
    }
}

/// Stacks without a write side: whatever call of ensure / get_or_update fails (the scratch file in the system's temporary
/// directory included), no fallback may reach for a read-only level's directories.
fn record_with_any_fault(cell: &Cell, rep: &mut Report) {
    use crate::props::c18::{plausible, FailAt};
    let base = run_cell(cell);
    for (k, ev) in base.trace.iter().enumerate() {
        for a in plausible(ev, false).into_iter().take(2) {
            let ctl = std::sync::Arc::new(FailAt { faults: vec![(k as u64, a)], kinds: vec![Some(ev.kind)], n: std::sync::atomic::AtomicU64::new(0), hit: std::sync::Mutex::new(vec![]) });
            CONTROLLER.with(|c| *c.borrow_mut() = Some(ctl as std::sync::Arc<dyn shim::Controller>));
            let before = rep.violations.len();
            record(cell, rep);
            CONTROLLER.with(|c| *c.borrow_mut() = None);
            for v in rep.violations.iter_mut().skip(before) {
                v.signature = format!("{}-under-fault", v.signature);
                v.text = format!("[call {} ({}) failing {:?}] {}", k, ev.func, a, v.text);
                if let Some(o) = v.case.as_object_mut() {
                    o.insert("any_fault".into(), json!(true));
                }
            }
            rep.count("readers_only_fault_cells", 1);
        }
    }
}

fn record(cell: &Cell, rep: &mut Report) {
    rep.evaluations += 1;
    rep.states += 1;
    rep.traces += 1;
    let run = run_cell(cell);
    rep.transitions += run.trace.len() as u64;
    let w = if cell.has_writer() { 1 } else { 0 };
    if cell.contents.iter().skip(w).any(|&c| c != 0) {
        rep.count("nontrivial_count", 1);
    }
    for (sig, msg) in check(&run) {
        rep.violation(format!("readonly:{}", sig), format!("{}: {}", cell.to_json(), msg), cell.to_json());
    }
}

pub fn run(_tier: Tier, shard: Shard, rep: &mut Report) {
    set_tier(_tier);
    rep.rule = "(i) every cell of the C13 matrix and of the C14 matrix with a checker that has at least one read-only level; \
        (ii) ReadOnlyCache alone with 1-3 levels, each plain or sharded and each root missing / empty / populated / populated \
        without the key's shard directories / holding the files of the other layout (the key's name directly under a sharded root, shard directories under a plain root), also named by relative paths when a root is missing or empty / populated with entries that are still writable (mode 0644: put there by other means than the library), under get and touch (with and without checker) of present, absent, reserved, \
        NUL-containing and separator-containing names. Oracle: no mutating call (open for writing/creating, mkdir, rename, link, \
        unlink, chmod, truncate, write, mtime-setting utimens) targets a read-only root; recursive snapshots equal except atime \
        advancing on a found entry; missing roots stay missing. Non-trivial = a read-only level holds a copy / a degenerate root \
        or unusual name is involved. The lookup/touch cells are repeated with every planted copy stamped one day ahead of the local \
        clock (entries written by a host whose clock runs ahead), and with the probes (open/stat) of each read-only copy answered \
        ESTALE, EIO, EACCES or ENOENT, and the first timestamp update under the read-only levels refused with EPERM/EACCES/EROFS; for stacks without a write side every call of ensure/get_or_update failing in turn (the scratch \
        file in the system's temporary directory included); with planted values of 96 KiB (promotion of large hits); and with every periodic trigger scripted to fire during the operation while two-hour-old debris \
        lies in each level's .kismet_temp."
        .into();
    rep.assumptions = vec![
        "operation histories on stacked front-ends are additionally monitored inside the C11 exploration".into(),
        "directory atimes are excluded from snapshots (the kernel updates them on readdir)".into(),
    ];
    let mut all = c13::cells();
    all.extend(c14::cells().into_iter().filter(|c| c.checker == 1));
    all.retain(|c| !c.readers.is_empty());
    let mut no = 0u64;
    for cell in &all {
        no += 1;
        if !shard.mine(no) {
            continue;
        }
        record(cell, rep);
        if no % 7001 == 0 {
            rep.sample(cell.to_json());
        }
    }
    // the same cells with every planted copy stamped one day ahead of the local clock (clock skew between hosts)
    for cell in all.iter().filter(|c| matches!(c.op, MOp::Get | MOp::Touch | MOp::Ensure | MOp::Gou(_)) && c.checker == 0) {
        no += 1;
        if !shard.mine(no) {
            continue;
        }
        FUTURE_DATED.with(|f| f.set(true));
        let before = rep.violations.len();
        record(cell, rep);
        FUTURE_DATED.with(|f| f.set(false));
        for v in rep.violations.iter_mut().skip(before) {
            if let Some(o) = v.case.as_object_mut() {
                o.insert("future_dated".into(), json!(true));
            }
        }
        rep.count("future_dated_cells", 1);
    }
    // promotions of values past any "large value" threshold (96 KiB): however the copy is made, the read-only
    // entry keeps its inode to itself (timestamps, mode, link count)
    for cell in all.iter().filter(|c| matches!(c.op, MOp::Ensure | MOp::Gou(crate::ops::Act::Promote) | MOp::Gou(crate::ops::Act::Accept) | MOp::Get) && c.has_writer() && c.checker == 0 && c.readers.len() <= 2 && c.pop == 0) {
        no += 1;
        if !shard.mine(no) {
            continue;
        }
        PLANTED_SIZE.with(|s| s.set(crate::world::Size::Large));
        let before = rep.violations.len();
        record(cell, rep);
        PLANTED_SIZE.with(|s| s.set(crate::world::Size::Five));
        for v in rep.violations.iter_mut().skip(before) {
            if let Some(o) = v.case.as_object_mut() {
                o.insert("planted_large".into(), json!(true));
            }
        }
        rep.count("large_value_cells", 1);
    }
    // the same lookups with every periodic trigger about to fire and stale debris lying in each level's
    // .kismet_temp: whatever housekeeping a lookup may set off, it never reaches a read-only root
    for cell in all.iter().filter(|c| matches!(c.op, MOp::Get | MOp::Touch | MOp::Ensure | MOp::Gou(_)) && c.checker == 0 && c.readers.len() <= 2) {
        no += 1;
        if !shard.mine(no) {
            continue;
        }
        FORCE_MAINTENANCE.with(|f| f.set(true));
        STALE_DEBRIS.with(|f| f.set(true));
        let before = rep.violations.len();
        record(cell, rep);
        FORCE_MAINTENANCE.with(|f| f.set(false));
        STALE_DEBRIS.with(|f| f.set(false));
        for v in rep.violations.iter_mut().skip(before) {
            if let Some(o) = v.case.as_object_mut() {
                o.insert("trigger_fires_with_debris".into(), json!(true));
            }
        }
        rep.count("trigger_firing_cells", 1);
    }
    // lookups whose probe of a read-only copy fails (a stale NFS handle, an I/O error, no permission)
    for cell in all.iter().filter(|c| matches!(c.op, MOp::Get | MOp::Touch | MOp::Ensure | MOp::Gou(_)) && c.checker == 0 && c.readers.len() <= 2) {
        no += 1;
        if !shard.mine(no) {
            continue;
        }
        record_with_faults(cell, rep);
    }
    for cell in all.iter().filter(|c| matches!(c.op, MOp::Touch | MOp::Get) && c.checker == 0 && c.readers.len() <= 2) {
        no += 1;
        if !shard.mine(no) {
            continue;
        }
        record_with_refused_stamp(cell, rep);
    }
    for cell in all.iter().filter(|c| !c.has_writer() && matches!(c.op, MOp::Ensure | MOp::Gou(_)) && c.readers.len() <= 2 && c.pop <= 1) {
        no += 1;
        if !shard.mine(no) {
            continue;
        }
        record_with_any_fault(cell, rep);
    }
    for case in ro_cases() {
        no += 1;
        if !shard.mine(no) {
            continue;
        }
        record_ro(&case, rep);
        if no % 7001 == 0 {
            rep.sample(case.to_json());
        }
    }
    rep.fact("cells_total", json!(no));
    let _ = Front::Plain;
}

pub fn replay(case: &Value, rep: &mut Report) {
    if case.get("ro").is_some() {
        record_ro(&RoCase::from_json(case), rep);
    } else if case.get("fault_level").is_some() {
        record_with_faults(&Cell::from_json(case), rep);
    } else if case.get("refused_stamp").is_some() {
        record_with_refused_stamp(&Cell::from_json(case), rep);
    } else if case.get("any_fault").is_some() {
        record_with_any_fault(&Cell::from_json(case), rep);
    } else {
        let future = case.get("future_dated").and_then(|v| v.as_bool()).unwrap_or(false);
        if case.get("planted_large").and_then(|v| v.as_bool()).unwrap_or(false) {
            PLANTED_SIZE.with(|s| s.set(crate::world::Size::Large));
        }
        let firing = case.get("trigger_fires_with_debris").and_then(|v| v.as_bool()).unwrap_or(false);
        FUTURE_DATED.with(|f| f.set(future));
        FORCE_MAINTENANCE.with(|f| f.set(firing));
        STALE_DEBRIS.with(|f| f.set(firing));
        record(&Cell::from_json(case), rep);
        FUTURE_DATED.with(|f| f.set(false));
        FORCE_MAINTENANCE.with(|f| f.set(false));
        STALE_DEBRIS.with(|f| f.set(false));
        PLANTED_SIZE.with(|s| s.set(crate::world::Size::Five));
    }
}
