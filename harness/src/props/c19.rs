//! C19 — cached data is exposed read-only and from the start.
use crate::ops::Res;
use crate::props::stackmx::*;
use crate::props::{c13, c14};
use crate::report::{Report, Shard, Tier};
use crate::world;
use serde_json::Value;

pub fn check(run: &CellRun) -> Vec<(String, String)> {
    let cell = &run.cell;
    let m = model(cell);
    let mut bad = Vec::new();
    if let Some(h) = &run.outcome.handle {
        // the throw-away file served when nothing can be cached is not cached data
        let throwaway = !cell.has_writer()
            && (m.first.is_none() || matches!(cell.op, MOp::Gou(crate::ops::Act::Replace)))
            && cell.op.uses_populate();
        if !throwaway && h.accmode != libc::O_RDONLY {
            bad.push(("handle-writable".into(), format!("returned handle has access mode {} (not O_RDONLY)", h.accmode)));
        }
        if h.offset != 0 {
            bad.push(("handle-offset".into(), format!("returned handle is positioned at offset {}", h.offset)));
        }
        if let Res::Hit(b) = &run.outcome.res {
            if let Expect::Hit(v) = &m.result {
                if &v.bytes() != b {
                    bad.push(("handle-content".into(), format!("handle reads as {}, expected {}", world::describe_bytes(b), v.label())));
                }
            } else if world::identify(b).is_none() {
                bad.push((
                    "handle-content".into(),
                    format!("reading the returned handle to the end gave {}", world::describe_bytes(b)),
                ));
            }
        }
    }
    for (rel, node) in write_entries(run) {
        let perm = node.meta.perm();
        if perm & 0o222 != 0 {
            bad.push(("entry-writable".into(), format!("{} visible with mode {:o}", rel, perm)));
        }
        let fresh = run.before[0].get(&rel).map(|p| p.meta.ino) != Some(node.meta.ino);
        let by_library = matches!(cell.op, MOp::Ensure | MOp::Gou(_) | MOp::SetTemp | MOp::PutTemp);
        if fresh && by_library && perm != 0o444 {
            bad.push((
                "entry-mode".into(),
                format!("{} published by the library with mode {:o} under umask {:o} (expected 0444)", rel, perm, cell.umask),
            ));
        }
    }
    bad
}

/// A handle handed back after an I/O fault is still cached data: for every cell that promotes a
/// read-only hit, fills a miss or replaces a value, for every lookup that hits and for every set/put, each call of the operation fails in turn; whatever handle comes back must be
/// read-only, at offset 0 and read as the whole value.
fn promotion_fault_cases(cell: &Cell, run: &CellRun, rep: &mut Report) {
    use crate::props::c18::{plausible, FailAt};
    use std::sync::atomic::AtomicU64;
    use std::sync::{Arc, Mutex};
    let m = model(cell);
    // every cell whose operation publishes something and hands back a handle: promotion of a read-only hit, a miss
    // filled by populate, a replacement (up to two levels deep for the latter two, to keep the quick tier quick)
    let publishes = matches!(cell.op, MOp::Ensure | MOp::Gou(_))
        && cell.has_writer()
        && cell.checker == 0
        && cell.umask == 0o022
        && cell.pop == 0
        && m.published
        && (matches!(m.first, Some(f) if f >= 1) || cell.contents.len() <= 2);
    // and every plain lookup that hits (the handle is the entry itself, stamped as used on the way out)
    // by-path and temp-file writes: whatever fails and is retried, nothing becomes visible with write bits
    let writes = matches!(cell.op, MOp::Set | MOp::Put | MOp::SetTemp | MOp::PutTemp) && cell.has_writer() && cell.checker == 0 && cell.umask == 0o022 && cell.contents.len() <= 2;
    let looks_up = cell.op == MOp::Get && m.first.is_some() && cell.checker == 0 && cell.umask == 0o022 && cell.contents.len() <= 2;
    if !publishes && !looks_up && !writes {
        return;
    }
    for (k, ev) in run.trace.iter().enumerate() {
        for a in plausible(ev, false).into_iter().take(2) {
            let ctl = Arc::new(FailAt { faults: vec![(k as u64, a)], kinds: vec![Some(ev.kind)], n: AtomicU64::new(0), hit: Mutex::new(vec![]) });
            CONTROLLER.with(|c| *c.borrow_mut() = Some(ctl.clone() as Arc<dyn crate::shim::Controller>));
            let r2 = run_cell(cell);
            CONTROLLER.with(|c| *c.borrow_mut() = None);
            rep.evaluations += 1;
            rep.states += 1;
            rep.traces += 1;
            rep.transitions += r2.trace.len() as u64;
            rep.count("promotion_fault_cases", 1);
            for (rel, node) in write_entries(&r2) {
                if node.meta.perm() & 0o222 != 0 {
                    rep.violation(
                        "exposure:entry-writable-after-fault",
                        format!("{} with call {} ({}) failing {:?}: {} is visible with mode {:o}", cell.to_json(), k, ev.func, a, rel, node.meta.perm()),
                        serde_json::json!({"cell": cell.to_json(), "fault_at": k, "fault": format!("{:?}", a)}),
                    );
                }
            }
            if let Some(h) = &r2.outcome.handle {
                let mut msgs = Vec::new();
                if h.accmode != libc::O_RDONLY {
                    msgs.push(format!("access mode {}", h.accmode));
                }
                if h.offset != 0 {
                    msgs.push(format!("positioned at offset {}", h.offset));
                }
                if let Res::Hit(b) = &r2.outcome.res {
                    // (the empty value is a value too: thorough cells write 0-byte values)
                    let empty_ok = b.is_empty() && cell.size == crate::world::Size::Empty;
                    if world::identify(b).is_none() && !empty_ok {
                        msgs.push(format!("reads as {}", world::describe_bytes(b)));
                    }
                }
                if !msgs.is_empty() {
                    rep.violation(
                        "exposure:handle-after-fault",
                        format!("{} with call {} ({}) failing {:?}: the returned handle is {}", cell.to_json(), k, ev.func, a, msgs.join(", ")),
                        serde_json::json!({"cell": cell.to_json(), "fault_at": k, "fault": format!("{:?}", a)}),
                    );
                }
            }
        }
    }
}

fn record(cell: &Cell, rep: &mut Report) {
    record_with(cell, false, rep)
}

fn record_with(cell: &Cell, plain_source: bool, rep: &mut Report) {
    crate::ops::PLAIN_FILE_SOURCE.with(|p| p.set(plain_source));
    let before = rep.violations.len();
    record_inner(cell, rep);
    crate::ops::PLAIN_FILE_SOURCE.with(|p| p.set(false));
    if plain_source {
        for v in rep.violations.iter_mut().skip(before) {
            if let Some(o) = v.case.as_object_mut() {
                o.insert("plain_source".into(), serde_json::json!(true));
            }
        }
    }
}

fn record_inner(cell: &Cell, rep: &mut Report) {
    rep.evaluations += 1;
    rep.states += 1;
    rep.traces += 1;
    let run = run_cell(cell);
    rep.transitions += run.trace.len() as u64;
    if run.outcome.handle.is_some() {
        rep.count("handles_inspected", 1);
        if cell.checker != 0 || !run.outcome.judge.is_empty() {
            rep.count("nontrivial_count", 1);
        }
    }
    rep.count("published_files_inspected", write_entries(&run).len() as u64);
    for (sig, msg) in check(&run) {
        rep.violation(format!("exposure:{}", sig), format!("{}: {}", cell.to_json(), msg), cell.to_json());
    }
    promotion_fault_cases(cell, &run, rep);
}

pub fn run(_tier: Tier, shard: Shard, rep: &mut Report) {
    set_tier(_tier);
    rep.rule = "the C13 and C14 matrices (every hit location, action, checker setting, populate outcome) x umask {000, 022, 077}: \
        F_GETFL access mode and lseek(SEEK_CUR) of every returned handle (judge and checker read the files they are given to the \
        end), bytes read to the end, st_mode of every file visible under the key name in the write cache; by-path set/put additionally with sources made by \
        File::create (mode 0666 & !umask) under umask 000/002/022/077, also while the application keeps a second hard link to that file; every writing cell again with the handle built with auto_sync(false). For every cell that promotes a read-only hit, fills a miss or replaces a value, each call of the operation additionally fails \
        in turn (two errnos per call): a handle returned all the same must still be read-only, at offset 0 and whole. Plus, under concurrency \
        (ensure / get_or_update / get racing with a deleter, an evicting writer or a replacing writer on plain, sharded and stacked \
        front-ends, all schedules with <= 2 preemptions): every handle returned is read-only, at offset 0 and whole. Non-trivial = \
        a handle was returned after a judge or a checker consumed it."
        .into();
    rep.assumptions = vec![
        "the O_RDWR throw-away file returned when no write cache is configured is not cached data: only offset and content are checked".into(),
    ];
    let mut all = c13::cells();
    all.extend(c14::cells().into_iter().filter(|c| c.checker != 0));
    let mut no = 0u64;
    // by-path set/put of a file the application made with File::create: its mode is 0666 & !umask
    for cell in all.iter().filter(|c| matches!(c.op, MOp::Set | MOp::Put) && c.has_writer() && c.readers.len() <= 1) {
        for umask in [0o000u32, 0o002, 0o022, 0o077] {
            no += 1;
            if !shard.mine(no) {
                continue;
            }
            let mut c = cell.clone();
            c.umask = umask;
            record_with(&c, true, rep);
            rep.count("plain_file_source_cells", 1);
            // ... and the application keeps a second hard link to that file
            if umask != 0o002 {
                crate::ops::SOURCE_EXTRA_LINK.with(|l| l.set(true));
                let before = rep.violations.len();
                record_with(&c, true, rep);
                crate::ops::SOURCE_EXTRA_LINK.with(|l| l.set(false));
                for v in rep.violations.iter_mut().skip(before) {
                    if let Some(o) = v.case.as_object_mut() {
                        o.insert("source_extra_link".into(), serde_json::json!(true));
                    }
                }
                rep.count("hard_linked_source_cells", 1);
            }
        }
    }
    for cell in &all {
        for umask in [0o000u32, 0o022, 0o077] {
            no += 1;
            if !shard.mine(no) {
                continue;
            }
            let mut c = cell.clone();
            c.umask = umask;
            record(&c, rep);
            if no % 20011 == 0 {
                rep.sample(c.to_json());
            }
        }
    }
    // handles built with auto_sync(false): durability is off, exposure is not (mode, access mode, offset, content)
    for cell in all.iter().filter(|c| c.has_writer() && !matches!(c.op, MOp::Get | MOp::Touch)) {
        no += 1;
        if !shard.mine(no) {
            continue;
        }
        let mut c = cell.clone();
        c.auto_sync = false;
        record(&c, rep);
        rep.count("auto_sync_off_cells", 1);
    }
    rep.fact("cells_total", serde_json::json!(no));
    crate::run::reset_env();
    concurrent(shard, rep);
}

/// Handles returned while other participants delete, evict or replace the entry: an operation that cannot
/// re-open what it has just published (it is gone already) still returns cached data, read-only and from the start.
fn concurrent_programs() -> Vec<(crate::sched::Program, crate::props::e1::Mode)> {
    use crate::ops::{Act, Op, Pop};
    use crate::props::e1::{self, api, planted, Mode};
    use crate::sched::POp;
    use crate::world::{Size, Val};
    let k = e1::key1();
    let j = e1::key2();
    let mut out = Vec::new();
    for front in ["plain", "sharded", "stack"] {
        let cfg = |cap: usize| match front {
            "plain" => e1::plain_cfg(cap),
            "sharded" => e1::sharded_cfg(cap),
            _ => e1::stack_cfg(cap),
        };
        let sd = crate::ops::shard_dir_name(0);
        let loc = |n: &str| if front == "sharded" { format!("{}/{}", sd, n) } else { n.to_string() };
        let v = |t: usize| e1::wval(t, 0, Size::Five);
        let mut add = |name: &str, cap: usize, pre: Vec<crate::sched::Planted>, threads: Vec<Vec<POp>>, fire: bool| {
            let mut pre = pre;
            if front == "stack" {
                pre.push(planted("@j", Val::new(21, Size::Five), false, 50));
            }
            out.push((
                crate::sched::Program { name: format!("handle-{}-{}", front, name), cfg: cfg(cap), pre, threads: e1::own_handles(threads, fire), create_write_dir: true },
                crate::props::e1::side_bound(),
            ));
        };
        add("ensure|deleter", 1 << 40, vec![], vec![vec![api(Op::Ensure(k.clone(), Pop::Value(v(0))))], vec![POp::Unlink(loc("k"))]], false);
        add("accept-miss|deleter", 1 << 40, vec![], vec![vec![api(Op::Gou(k.clone(), Act::Accept, Pop::Value(v(0))))], vec![POp::Unlink(loc("k"))]], false);
        add("replace|deleter", 1 << 40, vec![planted(&loc("k"), Val::new(0, Size::Five), false, 3)], vec![vec![api(Op::Gou(k.clone(), Act::Replace, Pop::Value(v(0))))], vec![POp::Unlink(loc("k"))]], false);
        add("get|set", 1 << 40, vec![planted(&loc("k"), Val::new(0, Size::Five), false, 3)], vec![vec![api(Op::Get(k.clone()))], vec![api(Op::Set(k.clone(), v(1)))]], false);
        add("ensure|evictor", if front == "sharded" { 2 } else { 1 }, vec![], vec![vec![api(Op::Ensure(k.clone(), Pop::Value(v(0))))], vec![api(Op::Set(j.clone(), v(1)))]], true);
        if front == "stack" {
            add("promote|deleter", 1 << 40, vec![], vec![vec![api(Op::Ensure(j.clone(), Pop::Value(v(0))))], vec![POp::Unlink(loc("j"))]], false);
        }
    }
    out
}

fn concurrent_check(x: &crate::sched::Execution) -> Vec<(String, String)> {
    let mut bad = Vec::new();
    for r in &x.history {
        if let Some(h) = &r.outcome.handle {
            if h.accmode != libc::O_RDONLY {
                bad.push(("handle-writable".into(), format!("t{} {} returned a handle with access mode {} (not O_RDONLY)", r.tid, r.op.label(), h.accmode)));
            }
            if h.offset != 0 {
                bad.push(("handle-offset".into(), format!("t{} {} returned a handle positioned at offset {}", r.tid, r.op.label(), h.offset)));
            }
            if let Res::Hit(b) = &r.outcome.res {
                if world::identify(b).is_none() {
                    bad.push(("handle-content".into(), format!("t{} {}: reading the returned handle gave {}", r.tid, r.op.label(), world::describe_bytes(b))));
                }
            }
        }
    }
    bad
}

fn concurrent(shard: Shard, rep: &mut Report) {
    let progs = concurrent_programs();
    let mut chk = |_pi: usize, x: &crate::sched::Execution| concurrent_check(x);
    crate::props::e1::explore_all("C19", &progs, shard, rep, &|_| crate::sched::RunOpts::default(), &mut chk, 500_000);
}

pub fn replay(case: &Value, rep: &mut Report) {
    if case.get("program").is_some() {
        let progs: Vec<crate::sched::Program> = concurrent_programs().into_iter().map(|p| p.0).collect();
        let mut chk = |x: &crate::sched::Execution| concurrent_check(x);
        crate::props::e1::replay_case("C19", &progs, case, rep, &|| crate::sched::RunOpts::default(), &mut chk);
        return;
    }
    let cell = case.get("cell").unwrap_or(case);
    let plain = cell.get("plain_source").and_then(|v| v.as_bool()).unwrap_or(false);
    let linked = cell.get("source_extra_link").and_then(|v| v.as_bool()).unwrap_or(false);
    crate::ops::SOURCE_EXTRA_LINK.with(|l| l.set(linked));
    record_with(&Cell::from_json(cell), plain, rep);
    crate::ops::SOURCE_EXTRA_LINK.with(|l| l.set(false));
}
