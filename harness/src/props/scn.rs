//! Scenarios (operation x pre-state x front-end) shared by the crash-point (C02)
//! and fault (C18) enumerators, with the tree-validity predicate and the
//! fresh-handle follow-up suite.
use crate::ops::{self, Act, Checker, Dirs, Front, Op, Pop, Res, StackCfg, K};
use crate::run;
use crate::shim;
use crate::world::{self, Scratch, Size, Snapshot, Val};
use serde_json::{json, Value};
use std::collections::BTreeSet;
use std::path::{Path, PathBuf};

thread_local! {
    /// whether the handles of the scenarios are built with auto-sync (the default) or with auto_sync(false)
    pub static AUTO_SYNC: std::cell::Cell<bool> = const { std::cell::Cell::new(true) };
}

pub const SEC: i128 = 1_000_000_000;
pub const NSHARDS: usize = 2;

/// "stack2": as "stack" with a second read-only level holding a different value for the key (a failure to read the
/// first copy must not be answered with the second)
pub const FRONTS: [&str; 4] = ["plain", "sharded", "stack", "stack2"];
/// pre-states: see `setup`
pub const PRES: [&str; 8] = ["missing", "empty", "present", "crowd", "crowd+present", "debris", "debris+crowd+present", "present-secondary"];
pub const OPS: [&str; 12] = [
    "set", "put", "set_temp_file", "put_temp_file", "ensure", "replace", "accept", "get", "touch", "ensure_chunks", "set_chunks", "promote",
];

#[derive(Clone, Debug, PartialEq, Eq)]
pub struct Scn {
    pub front: String,
    pub pre: String,
    pub op: String,
}

impl Scn {
    pub fn to_json(&self) -> Value {
        json!({"front": self.front, "pre": self.pre, "op": self.op})
    }
    pub fn from_json(v: &Value) -> Scn {
        Scn {
            front: v["front"].as_str().unwrap().into(),
            pre: v["pre"].as_str().unwrap().into(),
            op: v["op"].as_str().unwrap().into(),
        }
    }
    pub fn key_present(&self) -> bool {
        self.pre.contains("present")
    }
    pub fn crowd(&self) -> bool {
        self.pre.contains("crowd")
    }
    pub fn debris(&self) -> bool {
        self.pre.contains("debris")
    }
    /// does this combination make sense?
    pub fn valid(&self) -> bool {
        if self.pre == "present-secondary" && self.front != "sharded" {
            return false;
        }
        if self.op == "promote" && !self.front.starts_with("stack") {
            return false;
        }
        if self.op == "promote" && self.key_present() {
            return false; // a primary hit: nothing to promote
        }
        true
    }
}

pub fn all_scenarios() -> Vec<Scn> {
    let mut v = Vec::new();
    for f in FRONTS {
        for p in PRES {
            for o in OPS {
                let s = Scn { front: f.into(), pre: p.into(), op: o.into() };
                if s.valid() {
                    v.push(s);
                }
            }
        }
    }
    v
}

pub fn v_old() -> Val {
    Val::new(0, Size::Five)
}
pub fn v_new() -> Val {
    Val::new(1, Size::One)
}
pub fn v_new_chunks() -> Val {
    Val::new(1, Size::Chunks)
}
pub fn v_ro() -> Val {
    Val::new(3, Size::Five)
}
pub fn v_ro2() -> Val {
    Val::new(4, Size::Five)
}
pub fn v_other(i: usize) -> Val {
    Val::new(10 + i as u8, Size::One)
}

pub fn the_key() -> K {
    ops::key_for_shards("key", 0, 1, NSHARDS)
}
pub fn second_key() -> K {
    ops::key_for_shards("key2", 0, 1, NSHARDS)
}
pub fn crowd_key(i: usize) -> K {
    ops::key_for_shards(&format!("e{}", i), 0, 1, NSHARDS)
}

pub struct World {
    pub sc: Scratch,
    pub dirs: Dirs,
    pub cfg: StackCfg,
    pub front: Front,
    /// the directory where the key's primary copy lives (plain dir or primary shard)
    pub home: PathBuf,
    pub op: Op,
    pub force_maintenance: bool,
}

impl World {
    pub fn cache(&self) -> kismet_cache::Cache {
        ops::build(&self.cfg, &self.dirs, None)
    }
    /// Directories that are cache directories proper (entries live directly inside).
    pub fn entry_dirs(&self) -> Vec<PathBuf> {
        match self.front {
            Front::Plain => vec![self.dirs.write.clone()],
            Front::Sharded(n) => (0..n).map(|s| self.dirs.write.join(ops::shard_dir_name(s))).collect(),
        }
    }
    pub fn snapshot(&self) -> Snapshot {
        world::snapshot(&self.sc.root)
    }
}

pub fn setup(scn: &Scn) -> World {
    run::reset_env();
    let sc = Scratch::new();
    let stack = scn.front.starts_with("stack");
    let two = scn.front == "stack2";
    let dirs = Dirs::under(&sc.root, if two { 2 } else if stack { 1 } else { 0 });
    let front = if scn.front == "sharded" { Front::Sharded(NSHARDS) } else { Front::Plain };
    let now = shim::clock_peek_ns() as i128;
    let old = now - 86_400 * SEC;
    let key = the_key();
    let cands = ops::candidate_dirs(&dirs.write, front, &key);
    let home = cands[0].clone();
    if scn.pre != "missing" {
        shim::passthrough(|| std::fs::create_dir_all(&dirs.write).unwrap());
    }
    if scn.pre == "present-secondary" {
        world::plant(&cands[1].join("key"), &v_old().bytes(), 0o444, old - 120 * SEC, old);
    } else if scn.key_present() {
        // in the over-capacity scenarios the key has been read since insertion (it gets a second chance)
        let a = if scn.crowd() { old + 5 * SEC } else { old - 120 * SEC };
        world::plant(&home.join("key"), &v_old().bytes(), 0o444, a, old);
    }
    if scn.crowd() {
        // four older entries: two read since insertion, two not
        for i in 0..4 {
            let m = old - (10 + i as i128) * 60 * SEC;
            let a = if i % 2 == 0 { m + 5 * SEC } else { m - 120 * SEC };
            world::plant(&home.join(format!("e{}", i)), &v_other(i).bytes(), 0o444, a, m);
        }
    }
    if scn.debris() {
        let t = home.join(".kismet_temp");
        world::plant(&t.join("stale_debris"), b"junk", 0o600, now - 7200 * SEC, now - 7200 * SEC);
        // (several dead writers: what happens to one piece of debris is no business of the others)
        world::plant(&t.join("stale_debris_b"), b"junk", 0o600, now - 7300 * SEC, now - 7300 * SEC);
        world::plant(&t.join("stale_debris_c"), b"junk", 0o600, now - 9000 * SEC, now - 9000 * SEC);
        world::plant(&t.join("fresh_debris"), b"junk", 0o600, now - 60 * SEC, now - 60 * SEC);
        // the directory itself has been idle for two hours (nothing created in or removed from it since): the file
        // a minute old was created long ago and is still being written
        world::set_times(&t, now - 7200 * SEC, now - 7200 * SEC);
    }
    if stack {
        // the read-only level always holds the key (older value) and a bystander
        world::plant(&dirs.reads[0].join("key"), &v_ro().bytes(), 0o444, old - 3600 * SEC - 120 * SEC, old - 3600 * SEC);
        world::plant(&dirs.reads[0].join("other"), b"bystander", 0o444, old - 120 * SEC, old);
        if two {
            world::plant(&dirs.reads[1].join("key"), &v_ro2().bytes(), 0o444, old - 7200 * SEC - 120 * SEC, old - 7200 * SEC);
        }
    }
    let capacity = if scn.crowd() {
        match front {
            Front::Plain => 2,
            Front::Sharded(n) => 2 * n,
        }
    } else {
        1 << 40
    };
    let cfg = StackCfg {
        writer: Some((front, capacity)),
        readers: if two { vec![Front::Plain, Front::Plain] } else if stack { vec![Front::Plain] } else { vec![] },
        checker: Checker::None,
        auto_sync: AUTO_SYNC.with(|a| a.get()),
    };
    let op = match scn.op.as_str() {
        "set" => Op::Set(key, v_new()),
        "set_chunks" => Op::Set(key, v_new_chunks()),
        "put" => Op::Put(key, v_new()),
        "set_temp_file" => Op::SetTemp(key, v_new()),
        "put_temp_file" => Op::PutTemp(key, v_new()),
        "ensure" | "promote" => Op::Ensure(key, Pop::Value(v_new())),
        "ensure_chunks" => Op::Ensure(key, Pop::Value(v_new_chunks())),
        "replace" => Op::Gou(key, Act::Replace, Pop::Value(v_new())),
        "accept" => Op::Gou(key, Act::Accept, Pop::Value(v_new())),
        "get" => Op::Get(key),
        _ => Op::Touch(key),
    };
    World { sc, dirs, cfg, front, home, op, force_maintenance: scn.crowd() || scn.debris() }
}

/// Values that may legitimately be stored under `name` in this scenario.
pub fn allowed_values(name: &str) -> Vec<Val> {
    if name == "key" {
        // (v_ro2: the second read-only level's value is what a lookup legitimately finds when the first level's
        // copy is reported absent, ENOENT/ESTALE; whether it may be *returned* is the effect oracle's business)
        vec![v_old(), v_new(), v_new_chunks(), v_ro(), v_ro2(), Val::new(20, Size::One), Val::new(21, Size::One)]
    } else if name == "key2" {
        vec![Val::new(22, Size::One), Val::new(23, Size::One)]
    } else if let Some(i) = name.strip_prefix('e').and_then(|s| s.parse::<usize>().ok()) {
        vec![v_other(i)]
    } else if name == "maint" || name == "maint2" {
        vec![Val::new(24, Size::One), Val::new(25, Size::One)]
    } else {
        vec![]
    }
}

/// V1 + V2: validity of the tree `after`, given the tree `before` the interrupted/faulted operation.
pub fn tree_violations(w: &World, before: &Snapshot, after: &Snapshot) -> Vec<(String, String)> {
    let mut bad = Vec::new();
    let root = &w.sc.root;
    let wrel = w.dirs.write.strip_prefix(root).unwrap().to_string_lossy().into_owned();
    let entry_dirs: BTreeSet<String> = w
        .entry_dirs()
        .iter()
        .map(|d| d.strip_prefix(root).unwrap().to_string_lossy().into_owned())
        .collect();
    for (rel, node) in after {
        if !rel.starts_with(&wrel) {
            continue;
        }
        let parent = Path::new(rel).parent().map(|p| p.to_string_lossy().into_owned()).unwrap_or_default();
        let name = Path::new(rel).file_name().map(|n| n.to_string_lossy().into_owned()).unwrap_or_default();
        let in_temp = rel.contains("/.kismet_temp/") || rel.ends_with("/.kismet_temp");
        if node.kind == 'f' && entry_dirs.contains(&parent) && !name.starts_with('.') {
            // V1: a published entry
            let vals = allowed_values(&name);
            let content = node.content.as_deref().unwrap_or(&[]);
            match world::identify(content) {
                Some(v) if vals.contains(&v) => {}
                _ => bad.push((
                    "entry-corrupt".into(),
                    format!("{} holds {} (not a complete value written for that key)", rel, world::describe_bytes(content)),
                )),
            }
            if node.meta.perm() & 0o222 != 0 {
                bad.push(("entry-writable".into(), format!("{} is visible with mode {:o}", rel, node.meta.perm())));
            }
            continue;
        }
        if before.contains_key(rel) {
            continue;
        }
        // V2: anything new that is not an entry must be kismet structure or confined to .kismet_temp
        let is_structure = node.kind == 'd' && (name == ".kismet_temp" || name.starts_with(".kismet_") || rel == &wrel);
        if !(in_temp || is_structure) {
            bad.push(("debris-outside-temp".into(), format!("{} ({}) was left outside .kismet_temp", rel, node.kind)));
        }
    }
    // read-only level untouched (C15's business, but a crash must not leave it modified either)
    for r in &w.dirs.reads {
        let rrel = r.strip_prefix(root).unwrap().to_string_lossy().into_owned();
        for (kind, rel) in world::diff(before, after, true) {
            if rel.starts_with(&rrel) {
                bad.push(("readonly-modified".into(), format!("{} {}", kind, rel)));
            }
        }
    }
    bad
}

pub fn temp_files(snap: &Snapshot) -> Vec<(String, i128)> {
    snap.iter()
        .filter(|(k, n)| n.kind == 'f' && k.contains("/.kismet_temp/"))
        .map(|(k, n)| (k.clone(), n.meta.mtime))
        .collect()
}

fn exec_p(cache: &kismet_cache::Cache, w: &World, op: &Op, fire: bool) -> Res {
    let (r, _t) = run::as_participant(1, 100, || {
        if fire {
            run::trigger_fire_next(u64::MAX);
        } else {
            run::trigger_never();
        }
        run::shard_draws(&[], Some(1));
        ops::exec(cache, &w.dirs, op, &Default::default())
    });
    match r {
        Ok(o) => o.res,
        Err(p) => Res::Panic(p),
    }
}

/// V3 + V4: a fresh handle works normally on the surviving tree, young temp files
/// survive maintenance, and once older than the limit they are reclaimed.
pub fn followup_violations(w: &World, check_reclaim: bool) -> Vec<(String, String)> {
    let mut bad = Vec::new();
    // the scenario's own configuration for forced maintenance...
    let maint_cache = w.cache();
    // ...and a roomy one (another process may well be configured differently) so that
    // eviction stays out of play while register semantics are checked
    let cache = {
        let mut cfg = w.cfg.clone();
        cfg.writer = cfg.writer.map(|(f, _)| (f, 1usize << 40));
        // (write cache only: how lookups fall through to read-only levels is C13's business)
        cfg.readers = vec![];
        ops::build(&cfg, &w.dirs, None)
    };
    let key = the_key();
    let expect_ok = |bad: &mut Vec<(String, String)>, what: &str, r: &Res| {
        if r.is_err() || r.is_panic() {
            bad.push(("followup-failed".into(), format!("{} on the surviving tree returned {}", what, r.label())));
        }
    };
    // V4a: maintenance now (fresh handle) keeps young temp files
    let s1 = w.snapshot();
    let r = exec_p(&maint_cache, w, &Op::Set(ops::key_for_shards("maint", 0, 1, NSHARDS), Val::new(24, Size::One)), true);
    expect_ok(&mut bad, "set with maintenance", &r);
    let s2 = w.snapshot();
    for (sig, msg) in tree_violations(w, &s2, &s2) {
        bad.push((format!("after-maintenance-{}", sig), msg));
    }
    // "every later operation by any process succeeds with normal semantics": a maintenance that runs after the crash
    // brings the directory down to its capacity like any other (whatever the dead process had claimed, marked or half
    // done), before the write that triggered it inserts its one file
    let dircap = match (w.cfg.writer, w.front) {
        (Some((_, c)), Front::Plain) => c,
        (Some((_, c)), Front::Sharded(n)) => c / n.max(1),
        _ => usize::MAX,
    };
    if dircap < 1000 && !r.is_err() && !r.is_panic() {
        let n = shim::passthrough(|| {
            std::fs::read_dir(&w.home)
                .map(|rd| rd.flatten().filter(|e| e.file_type().map(|t| !t.is_dir()).unwrap_or(false) && !e.file_name().to_string_lossy().starts_with('.')).count())
                .unwrap_or(0)
        });
        if n > dircap + 1 {
            bad.push(("maintenance-ineffective-after-crash".into(), format!("a later write maintained the directory (capacity {}) and it still holds {} entries", dircap, n)));
        }
    }
    let now = shim::clock_peek_ns() as i128;
    let home_rel = w.home.strip_prefix(&w.sc.root).unwrap().to_string_lossy().into_owned();
    for (rel, mtime) in temp_files(&s1) {
        let young = mtime > now - 3500 * SEC;
        if young && !s2.contains_key(&rel) {
            bad.push(("young-temp-removed".into(), format!("{} (younger than the age limit) was removed by maintenance", rel)));
        }
        if !young && mtime < now - 3700 * SEC && rel.starts_with(&home_rel) && s2.contains_key(&rel) {
            bad.push(("stale-temp-kept".into(), format!("{} (older than the age limit) survived maintenance of its directory", rel)));
        }
    }
    if check_reclaim {
        // V4b: two hours later everything in the maintained directory's .kismet_temp is reclaimed
        shim::clock_jump((7200 * SEC) as i64);
        // Survivors reclaim concurrently: another survivor gets to the first piece of debris between this
        // one's look at it and its unlink (the file is gone and the unlink says ENOENT).  Every later
        // operation by any process must still succeed.
        struct PeerReclaimsFirst(std::sync::atomic::AtomicBool);
        impl shim::Controller for PeerReclaimsFirst {
            fn before(&self, ev: &shim::Ev) -> shim::Action {
                let temp = ev.path.as_deref().map(|p| p.contains("/.kismet_temp/")).unwrap_or(false);
                if ev.kind == shim::Kind::Unlink && temp && !self.0.swap(true, std::sync::atomic::Ordering::SeqCst) {
                    shim::Action::FailAfter(libc::ENOENT)
                } else {
                    shim::Action::Proceed
                }
            }
        }
        shim::set_controller(Some(std::sync::Arc::new(PeerReclaimsFirst(std::sync::atomic::AtomicBool::new(false)))));
        let r = exec_p(&maint_cache, w, &Op::Set(ops::key_for_shards("maint2", 0, 1, NSHARDS), Val::new(25, Size::One)), true);
        shim::set_controller(None);
        expect_ok(&mut bad, "set with maintenance (2 h later, a peer reclaiming the first piece of debris at the same time)", &r);
        let s3 = w.snapshot();
        // reclaiming debris must not damage what is published (debris may share an inode with an entry)
        for (sig, msg) in tree_violations(w, &s3, &s3) {
            bad.push((format!("after-reclaim-{}", sig), msg));
        }
        for (rel, _) in temp_files(&s3) {
            if rel.starts_with(&home_rel) && s2.contains_key(&rel) {
                bad.push(("debris-not-reclaimed".into(), format!("{} still exists after it became older than the age limit and its directory was maintained", rel)));
            }
        }
    }
    // V3: register semantics through a fresh handle
    let current = |bad: &mut Vec<(String, String)>| -> Option<Vec<u8>> {
        match exec_p(&cache, w, &Op::Get(key.clone()), false) {
            Res::Hit(b) => Some(b),
            Res::Miss => None,
            other => {
                bad.push(("followup-failed".into(), format!("get returned {}", other.label())));
                None
            }
        }
    };
    let v0 = current(&mut bad);
    if let Some(b) = &v0 {
        match world::identify(b) {
            Some(v) if allowed_values("key").contains(&v) => {}
            _ => bad.push(("followup-corrupt".into(), format!("get returned {}", world::describe_bytes(b)))),
        }
    }
    match exec_p(&cache, w, &Op::Touch(key.clone()), false) {
        Res::Bool(b) if b == v0.is_some() => {}
        other => bad.push(("followup-touch".into(), format!("touch returned {} but get said present={}", other.label(), v0.is_some()))),
    }
    let x = Val::new(20, Size::One);
    let r = exec_p(&cache, w, &Op::Put(key.clone(), x), false);
    expect_ok(&mut bad, "put", &r);
    let v1 = current(&mut bad);
    let want1 = v0.clone().unwrap_or_else(|| x.bytes());
    if v1.as_ref() != Some(&want1) {
        bad.push((
            "followup-put".into(),
            format!("after put the key reads {:?}, expected {}", v1.as_ref().map(|b| world::describe_bytes(b)), world::describe_bytes(&want1)),
        ));
    }
    let y = Val::new(21, Size::One);
    let r = exec_p(&cache, w, &Op::Set(key.clone(), y), false);
    expect_ok(&mut bad, "set", &r);
    if current(&mut bad) != Some(y.bytes()) {
        bad.push(("followup-set".into(), "after set the key does not read as the value just set".into()));
    }
    let z = Val::new(22, Size::One);
    match exec_p(&cache, w, &Op::Ensure(second_key(), Pop::Value(z)), false) {
        Res::Hit(b) if b == z.bytes() => {}
        other => bad.push(("followup-ensure".into(), format!("ensure of a new key returned {}", other.label()))),
    }
    // the tree is still valid after all that
    let s_end = w.snapshot();
    for (sig, msg) in tree_violations(w, &s_end, &s_end) {
        bad.push((format!("followup-{}", sig), msg));
    }
    bad
}

/// Effect check for an operation that reported success (used by C18): what must
/// be true of the tree, given the pre-state.  Returns violations.
pub fn effect_violations(w: &World, scn: &Scn, res: &Res, before: &Snapshot, trace: &[shim::Ev]) -> Vec<(String, String)> {
    let mut bad = Vec::new();
    let key = the_key();
    // an entry that this operation's own maintenance evicted (an unlink of the key's
    // path in its trace) is legitimately gone by the time the value is inserted
    let evicted = |p: &Path| {
        let s = p.to_string_lossy();
        trace.iter().any(|e| e.kind == shim::Kind::Unlink && e.ok() && e.path.as_deref() == Some(&*s))
    };
    let had: Option<Vec<u8>> = ops::candidate_dirs(&w.dirs.write, w.front, &key)
        .iter()
        .filter(|d| !evicted(&d.join("key")))
        .find_map(|d| {
            let rel = d.join("key").strip_prefix(&w.sc.root).unwrap().to_string_lossy().into_owned();
            before.get(&rel).and_then(|n| n.content.clone())
        });
    let ro: Option<Vec<u8>> = w.dirs.reads.first().and_then(|r| world::read_file(&r.join("key")));
    let now: Vec<Vec<u8>> = ops::candidate_dirs(&w.dirs.write, w.front, &key)
        .iter()
        .filter_map(|d| world::read_file(&d.join("key")))
        .collect();
    let newv = w.op.value().map(|v| v.bytes());
    let stored = |bad: &mut Vec<(String, String)>, want: &[u8]| {
        if now.len() != 1 || now[0] != want {
            bad.push((
                "success-without-effect".into(),
                format!(
                    "{} reported success but the write cache holds {:?} for the key, expected {}",
                    scn.op,
                    now.iter().map(|b| world::describe_bytes(b)).collect::<Vec<_>>(),
                    world::describe_bytes(want)
                ),
            ));
        }
    };
    // the write-side copy of the key carries the read mark (atime >= mtime)
    let unmarked = |bad: &mut Vec<(String, String)>, what: &str| {
        for d in ops::candidate_dirs(&w.dirs.write, w.front, &key) {
            if let Some(m) = world::lstat(&d.join("key")) {
                if m.atime < m.mtime {
                    bad.push(("success-without-effect".into(), format!("{} reported success but the entry is not marked as used (atime < mtime)", what)));
                }
            }
        }
    };
    match (&w.op, res) {
        (Op::Set(..), Res::Unit) | (Op::SetTemp(..), Res::Unit) => stored(&mut bad, newv.as_ref().unwrap()),
        (Op::Put(..), Res::Unit) | (Op::PutTemp(..), Res::Unit) => {
            let want = had.clone().unwrap_or_else(|| newv.clone().unwrap());
            stored(&mut bad, &want);
            if had.is_some() {
                // a put onto an existing key has no other effect than marking it as used
                unmarked(&mut bad, "put onto the existing key");
            }
        }
        (Op::Ensure(..), Res::Hit(b)) => {
            // hit in the write cache -> that value; hit in the read-only level -> promoted; miss -> populated
            let want = had.clone().or(ro.clone()).unwrap_or_else(|| newv.clone().unwrap());
            if b != &want {
                bad.push(("wrong-value".into(), format!("ensure returned {}, expected {}", world::describe_bytes(b), world::describe_bytes(&want))));
            }
            stored(&mut bad, &want);
        }
        (Op::Gou(_, Act::Replace, _), Res::Hit(b)) => {
            if Some(b) != newv.as_ref() {
                bad.push(("wrong-value".into(), format!("replace returned {}", world::describe_bytes(b))));
            }
            stored(&mut bad, newv.as_ref().unwrap());
        }
        (Op::Gou(_, Act::Accept, _), Res::Hit(b)) => {
            let want = had.clone().or(ro.clone()).unwrap_or_else(|| newv.clone().unwrap());
            if b != &want {
                bad.push(("wrong-value".into(), format!("accept returned {}, expected {}", world::describe_bytes(b), world::describe_bytes(&want))));
            }
        }
        (Op::Get(_), Res::Hit(b)) => {
            let want = had.clone().or(ro.clone());
            if Some(b) != want.as_ref() {
                bad.push(("wrong-value".into(), format!("get returned {}", world::describe_bytes(b))));
            }
        }
        (Op::Get(_), Res::Miss) => {
            // (callers skip this oracle when the key's own probe was answered with an absence errno)
            if had.is_some() || ro.is_some() {
                bad.push(("wrong-value".into(), "get reported a miss for a key that is present".into()));
            }
        }
        (Op::Touch(_), Res::Bool(b)) => {
            if *b && had.is_none() && ro.is_none() {
                bad.push(("wrong-value".into(), "touch reported presence of an absent key".into()));
            }
            if *b && had.is_some() {
                unmarked(&mut bad, "touch");
            }
            if !*b && (had.is_some() || ro.is_some()) {
                bad.push(("wrong-value".into(), "touch reported absence of a key that is present".into()));
            }
        }
        (_, Res::Err(..)) | (_, Res::Panic(_)) => {}
        (op, r) => bad.push(("unexpected-result".into(), format!("{} returned {}", op.label(), r.label()))),
    }
    // the sweep of .kismet_temp: when the one call that failed is the unlink of one stale temporary file, the operation
    // that still reports success has reclaimed the other stale files of that directory as it would have without the fault
    if !res.is_err() && !res.is_panic() {
        // (every injected fault of this run is such an unlink: with two faults, both files are excused)
        let injected: Vec<&shim::Ev> = trace.iter().filter(|e| e.injected).collect();
        let all_temp_unlinks = !injected.is_empty() && injected.iter().all(|e| e.kind == shim::Kind::Unlink && e.path.as_deref().map(|p| p.contains("/.kismet_temp/")).unwrap_or(false));
        let excused: Vec<String> = injected.iter().filter_map(|e| e.path.clone()).collect();
        if let Some(f) = injected.first().filter(|_| all_temp_unlinks) {
            let failed = f.path.clone().unwrap_or_default();
            let dir = Path::new(&failed).parent().map(|p| p.to_path_buf()).unwrap_or_default();
            let now = shim::clock_peek_ns() as i128;
            if let Ok(dir_rel) = dir.strip_prefix(&w.sc.root) {
                let dir_rel = dir_rel.to_string_lossy().into_owned();
                for (rel, n) in before {
                    let abs = w.sc.root.join(rel);
                    if n.kind == 'f' && abs.parent() == Some(dir.as_path()) && rel.starts_with(&dir_rel) && !excused.iter().any(|x| *x == abs.to_string_lossy()) && n.meta.mtime < now - 3700 * SEC && world::lstat(&abs).is_some() {
                        bad.push((
                            "sweep-stopped-by-one-failure".into(),
                            format!("the unlink of {} failed; {} (stale as well) was left behind by an operation that reported success", failed.rsplit('/').next().unwrap_or(""), rel),
                        ));
                    }
                }
            }
        }
    }
    bad
}
