//! C01 — readers never observe partial, mixed or foreign content.
use crate::ops::{Op, Pop, Res};
use crate::props::e1::{self, api, planted, Mode};
use crate::report::{Report, Shard, Tier};
use crate::sched::{Execution, Invariant, POp, Program, RunOpts};
use crate::shim::{Ev, Kind};
use crate::world::{self, Size, Val};
use serde_json::Value;
use std::collections::BTreeMap;
use std::path::{Path, PathBuf};
use std::sync::Arc;

/// W(name): every value some writer of the program (or the pre-state) supplied for that key.
pub fn allowed(prog: &Program) -> BTreeMap<String, Vec<Val>> {
    let mut w: BTreeMap<String, Vec<Val>> = BTreeMap::new();
    for p in &prog.pre {
        let name = Path::new(p.rel.trim_start_matches('@')).file_name().unwrap().to_string_lossy().into_owned();
        w.entry(name).or_default().push(p.val);
    }
    for t in &prog.threads {
        for op in &t.ops {
            if let POp::Api(o) = op {
                if let Some(v) = o.value() {
                    w.entry(o.key().name.clone()).or_default().push(v);
                }
            }
        }
    }
    w
}

fn scratch_root(p: &str) -> Option<PathBuf> {
    // <fs_root>.<pid>/c<N>/...
    let wr = world::worker_root();
    let rest = Path::new(p).strip_prefix(&wr).ok()?;
    let case = rest.components().next()?;
    Some(wr.join(case.as_os_str()))
}

/// Number of key-named files whose content the state invariant has validated (evidence that it is not vacuous).
pub static INVARIANT_FILE_CHECKS: std::sync::atomic::AtomicU64 = std::sync::atomic::AtomicU64::new(0);

/// State invariant, evaluated right after every event that creates, replaces or writes
/// something: every key-named file in a cache (or shard) directory holds a complete value
/// written for that key.
pub fn invariant(w: Arc<BTreeMap<String, Vec<Val>>>) -> Invariant {
    Box::new(move |e: &Ev| {
        let creating_open = e.kind == Kind::Open && (e.flags as i32 & (libc::O_CREAT | libc::O_TRUNC)) != 0;
        if !e.ok() || !(matches!(e.kind, Kind::Rename | Kind::Link | Kind::Write | Kind::CopyRange | Kind::Truncate) || creating_open) {
            return None;
        }
        let p = e.path2.as_ref().or(e.path.as_ref())?;
        let root = scratch_root(p)?;
        let wdir = root.join("w");
        let mut dirs = vec![wdir.clone()];
        if let Ok(rd) = std::fs::read_dir(&wdir) {
            for ent in rd.flatten() {
                let n = ent.file_name().to_string_lossy().into_owned();
                if n.starts_with(".kismet_") && n != ".kismet_temp" {
                    dirs.push(ent.path());
                }
            }
        }
        for d in dirs {
            if let Ok(rd) = std::fs::read_dir(&d) {
                for ent in rd.flatten() {
                    let n = ent.file_name().to_string_lossy().into_owned();
                    if n.starts_with('.') {
                        continue;
                    }
                    let m = match world::lstat(&ent.path()) {
                        Some(m) if m.is_file() => m,
                        _ => continue,
                    };
                    let _ = m;
                    let content = match std::fs::read(ent.path()) {
                        Ok(c) => c,
                        Err(_) => continue, // vanished meanwhile: fine
                    };
                    INVARIANT_FILE_CHECKS.fetch_add(1, std::sync::atomic::Ordering::Relaxed);
                    let ok = match (world::identify(&content), w.get(&n)) {
                        (Some(v), Some(vals)) => vals.contains(&v),
                        _ => false,
                    };
                    if !ok {
                        return Some(format!(
                            "after {} the file visible as {:?} holds {}",
                            e.func,
                            n,
                            world::describe_bytes(&content)
                        ));
                    }
                }
            }
        }
        None
    })
}

pub fn check(x: &Execution, w: &BTreeMap<String, Vec<Val>>) -> Vec<(String, String)> {
    let mut bad = Vec::new();
    for r in &x.history {
        if let (POp::Api(op), Res::Hit(bytes)) = (&r.op, &r.outcome.res) {
            let name = &op.key().name;
            let ok = match (world::identify(bytes), w.get(name)) {
                (Some(v), Some(vals)) => vals.contains(&v),
                _ => false,
            };
            if !ok {
                bad.push((
                    "foreign-or-partial-read".into(),
                    format!("t{} {} read {} (not a complete value written for {:?})", r.tid, op.label(), world::describe_bytes(bytes), name),
                ));
            }
        }
        if let Res::Panic(p) = &r.outcome.res {
            bad.push(("panic".into(), format!("t{} {} panicked: {}", r.tid, r.op.label(), p)));
        }
        // a handle that was returned and then cannot be read (EBADF: its descriptor was closed, or recycled, under the
        // reader) does not "read back, to the end, one value written for the key" either
        if let (POp::Api(op), Res::Err(_, Some(errno), msg)) = (&r.op, &r.outcome.res) {
            if *errno == libc::EBADF && msg.starts_with("reading returned handle") {
                bad.push(("handle-unreadable".into(), format!("t{} {}: the handle that was returned could not be read: {}", r.tid, op.label(), msg)));
            }
        }
    }
    for m in &x.invariant {
        bad.push(("published-corrupt".into(), m.clone()));
    }
    // final state
    for (k, n) in &x.final_snapshot {
        if n.kind != 'f' || !(k.starts_with("w/")) || k.contains(".kismet_temp") {
            continue;
        }
        let name = Path::new(k).file_name().unwrap().to_string_lossy().into_owned();
        if name.starts_with('.') {
            continue;
        }
        let content = n.content.as_deref().unwrap_or(&[]);
        let ok = match (world::identify(content), w.get(&name)) {
            (Some(v), Some(vals)) => vals.contains(&v),
            _ => false,
        };
        if !ok {
            bad.push(("final-corrupt".into(), format!("{} ends up holding {}", k, world::describe_bytes(content))));
        }
    }
    if x.deadlock {
        bad.push(("deadlock".into(), "no participant enabled before all finished".into()));
    }
    bad
}

fn progs_for(front: &str, tier: Tier) -> Vec<(Program, Mode)> {
    let k = e1::key1();
    let j = e1::key2();
    let big = Size::Chunks;
    let cfg = |cap: usize| match front {
        "plain" => e1::plain_cfg(cap),
        "sharded" => e1::sharded_cfg(cap),
        _ => e1::stack_cfg(cap),
    };
    // where a pre-existing write-side entry for key k lives
    let home = match front {
        "sharded" => format!("{}/k", crate::ops::shard_dir_name(0)),
        _ => "k".to_string(),
    };
    let homej = match front {
        "sharded" => format!("{}/j", crate::ops::shard_dir_name(0)),
        _ => "j".to_string(),
    };
    let v = |t: usize, i: usize, s: Size| e1::wval(t, i, s);
    let roomy = 1usize << 40;
    let mut out: Vec<(Program, Mode)> = Vec::new();
    let mut add = |name: &str, cfgv: crate::ops::StackCfg, pre: Vec<crate::sched::Planted>, threads: Vec<Vec<POp>>, shared: bool, fire: bool, mode: Mode| {
        let mut pre = pre;
        if front == "stack" {
            // the read-only level always holds an (older) copy of k, so that promotion races with writers
            pre.push(planted("@k", Val::new(21, Size::Five), false, 50));
        }
        out.push((
            Program {
                name: format!("{}-{}", front, name),
                cfg: cfgv,
                pre,
                threads: if shared { e1::shared_handle(threads, fire) } else { e1::own_handles(threads, fire) },
                create_write_dir: true,
            },
            mode,
        ));
    };
    let b2 = Mode::Bounded(2);
    // set || get, multi-chunk values (a torn publication would be visible)
    add("set|get-big", cfg(roomy), vec![planted(&home, Val::new(0, big), false, 1)], vec![vec![api(Op::Set(k.clone(), v(0, 0, big)))], vec![api(Op::Get(k.clone()))]], false, false, b2);
    add("set|set|get", cfg(roomy), vec![], vec![vec![api(Op::Set(k.clone(), v(0, 0, Size::Five)))], vec![api(Op::Set(k.clone(), v(1, 0, Size::One)))], vec![api(Op::Get(k.clone()))]], false, false, b2);
    add("ensure|ensure-big", cfg(roomy), vec![], vec![vec![api(Op::Ensure(k.clone(), Pop::Value(v(0, 0, big))))], vec![api(Op::Ensure(k.clone(), Pop::Value(v(1, 0, big))))]], false, false, b2);
    add("put|get-get", cfg(roomy), vec![], vec![vec![api(Op::Put(k.clone(), v(0, 0, big)))], vec![api(Op::Get(k.clone())), api(Op::Get(k.clone()))]], false, false, b2);
    add("replace|get", cfg(roomy), vec![planted(&home, Val::new(0, Size::Five), false, 1)], vec![vec![api(Op::Gou(k.clone(), crate::ops::Act::Replace, Pop::Value(v(0, 0, big))))], vec![api(Op::Get(k.clone()))]], false, false, b2);
    add("settemp|ensure", cfg(roomy), vec![], vec![vec![api(Op::SetTemp(k.clone(), v(0, 0, big)))], vec![api(Op::Ensure(k.clone(), Pop::Value(v(1, 0, Size::Five))))]], false, false, b2);
    // two keys: foreign data must never show up under the other name
    add("two-keys", cfg(roomy), vec![], vec![vec![api(Op::Set(k.clone(), v(0, 0, Size::Five))), api(Op::Get(j.clone()))], vec![api(Op::Set(j.clone(), v(1, 0, Size::Five))), api(Op::Get(k.clone()))]], false, false, b2);
    // maintenance on every write (capacity 1-2), entries being evicted under readers
    let crowd = |home: &str| -> Vec<crate::sched::Planted> {
        let dir = Path::new(home).parent().map(|p| p.to_string_lossy().into_owned()).unwrap_or_default();
        let p = |n: &str| if dir.is_empty() { n.to_string() } else { format!("{}/{}", dir, n) };
        vec![planted(&p("k"), Val::new(0, Size::Five), true, 3), planted(&p("j"), Val::new(22, Size::Five), false, 5)]
    };
    add("maint-set|get", cfg(2), crowd(&home), vec![vec![api(Op::Set(k.clone(), v(0, 0, big)))], vec![api(Op::Get(k.clone())), api(Op::Get(j.clone()))]], false, true, b2);
    add("maint-ensure|ensure-j", cfg(2), crowd(&home), vec![vec![api(Op::Ensure(k.clone(), Pop::Value(v(0, 0, Size::Five))))], vec![api(Op::Ensure(j.clone(), Pop::Value(v(1, 0, Size::Five))))]], false, true, b2);
    add("shared-set|put|get", cfg(roomy), vec![], vec![vec![api(Op::Set(k.clone(), v(0, 0, big)))], vec![api(Op::Put(k.clone(), v(1, 0, Size::Five)))], vec![api(Op::Get(k.clone()))]], true, false, b2);
    add("touch|set|get", cfg(roomy), vec![planted(&home, Val::new(0, Size::Five), false, 1)], vec![vec![api(Op::Touch(k.clone()))], vec![api(Op::Set(k.clone(), v(1, 0, big)))], vec![api(Op::Get(k.clone()))]], false, false, b2);
    // the entry a filler has just published is removed (an eviction, a cleaner) before the filler re-opens it: whatever
    // handle it falls back on reads as the whole value
    add("ensure|deleter-big", cfg(roomy), vec![], vec![vec![api(Op::Ensure(k.clone(), Pop::Value(v(0, 0, big))))], vec![POp::Unlink(home.clone())]], false, false, b2);
    add("accept-miss|deleter", cfg(roomy), vec![], vec![vec![api(Op::Gou(k.clone(), crate::ops::Act::Accept, Pop::Value(v(0, 0, Size::Five))))], vec![POp::Unlink(home.clone())]], false, false, b2);
    // a close interrupted by a signal (Linux: the descriptor is released, EINTR is reported) inside a filler, while a
    // reader of another key opens, reads and closes files in the same process: descriptor numbers are recycled at
    // once, so whatever the filler does about the failed close must not touch what the reader opened.  The n-th
    // close of participant 0 fails that way, for every n it has.
    for n in 0..3u32 {
        let pre = vec![planted(&homej, Val::new(22, Size::Five), false, 5)];
        let bound = if tier == Tier::Thorough { Mode::Bounded(3) } else { b2 };
        add(&format!("ensure-closefault{}|get-j", n), cfg(roomy), pre.clone(), vec![vec![api(Op::Ensure(k.clone(), Pop::Value(v(0, 0, big))))], vec![api(Op::Get(j.clone()))]], true, false, bound);
        add(&format!("settemp-closefault{}|get-j", n), cfg(roomy), pre, vec![vec![api(Op::SetTemp(k.clone(), v(0, 0, Size::Five)))], vec![api(Op::Get(j.clone()))]], true, false, bound);
    }
    if front == "stack" {
        // promotion after the judge (and, with a checker, the comparison) consumed the read-only hit: what ends up
        // under the key in the write cache must still be the whole value
        let ro = Val::new(21, Size::Five);
        add(
            "promote-judged|get",
            cfg(roomy),
            vec![],
            vec![
                vec![api(Op::Gou(k.clone(), crate::ops::Act::Promote, Pop::Value(v(0, 0, Size::Five)))), api(Op::Get(k.clone()))],
                vec![api(Op::Get(k.clone()))],
            ],
            false,
            false,
            b2,
        );
        let mut checked = cfg(roomy);
        checked.checker = crate::ops::Checker::ByteEq;
        add(
            "promote-checked|get",
            checked,
            vec![],
            vec![vec![api(Op::Ensure(k.clone(), Pop::Value(ro))), api(Op::Get(k.clone()))], vec![api(Op::Get(k.clone()))]],
            false,
            false,
            b2,
        );
    }
    if tier == Tier::Thorough {
        add("set-set|get-get-big", cfg(roomy), vec![], vec![vec![api(Op::Set(k.clone(), v(0, 0, big))), api(Op::Set(k.clone(), v(0, 1, big)))], vec![api(Op::Get(k.clone())), api(Op::Get(k.clone()))]], false, false, b2);
        add("ensure|set|get-big", cfg(roomy), vec![], vec![vec![api(Op::Ensure(k.clone(), Pop::Value(v(0, 0, big))))], vec![api(Op::Set(k.clone(), v(1, 0, big)))], vec![api(Op::Get(k.clone()))]], false, false, b2);
        add("set|get-bound3", cfg(roomy), vec![planted(&home, Val::new(0, big), false, 1)], vec![vec![api(Op::Set(k.clone(), v(0, 0, big)))], vec![api(Op::Get(k.clone()))]], false, false, Mode::Bounded(3));
        add("put|put-bound3", cfg(roomy), vec![], vec![vec![api(Op::Put(k.clone(), v(0, 0, big)))], vec![api(Op::Put(k.clone(), v(1, 0, big)))]], false, false, Mode::Bounded(3));
        add("set|get-unbounded", cfg(roomy), vec![planted(&home, Val::new(0, Size::Five), false, 1)], vec![vec![api(Op::Set(k.clone(), v(0, 0, Size::Five)))], vec![api(Op::Get(k.clone()))]], false, false, Mode::Sleep);
        add("put|put-unbounded", cfg(roomy), vec![], vec![vec![api(Op::Put(k.clone(), v(0, 0, Size::Five)))], vec![api(Op::Put(k.clone(), v(1, 0, Size::Five)))]], false, false, Mode::Sleep);
        add("maint-set|set|get", cfg(1), crowd(&home), vec![vec![api(Op::Set(k.clone(), v(0, 0, Size::Five)))], vec![api(Op::Set(j.clone(), v(1, 0, Size::Five)))], vec![api(Op::Get(k.clone()))]], false, true, b2);
    }
    out
}

pub fn programs(tier: Tier) -> Vec<(Program, Mode)> {
    let mut v = Vec::new();
    for f in ["plain", "sharded", "stack"] {
        v.extend(progs_for(f, tier));
    }
    v
}

/// The content invariant under single I/O faults: whatever call of a write fails, at no moment may a
/// key-named file be visible that does not hold a complete value (a fallback that creates the entry
/// in place and then fills it is visible to any reader, or survives a crash, half-written).
fn fault_section(shard: Shard, rep: &mut Report) {
    use crate::props::c02::fault_free;
    use crate::props::c18::{plausible, FailAt};
    use crate::props::scn;
    use crate::shim::{Action, Controller};
    use std::sync::atomic::AtomicU64;
    use std::sync::Mutex;
    struct Both {
        faults: FailAt,
        inv: Invariant,
        hits: Mutex<Vec<String>>,
    }
    impl Controller for Both {
        fn before(&self, ev: &Ev) -> Action {
            self.faults.before(ev)
        }
        fn after(&self, ev: &Ev) {
            if let Some(m) = (self.inv)(ev) {
                self.hits.lock().unwrap().push(m);
            }
        }
    }
    let mut w: BTreeMap<String, Vec<Val>> = BTreeMap::new();
    for name in ["key", "key2", "e0", "e1", "e2", "e3", "maint", "maint2"] {
        w.insert(name.to_string(), scn::allowed_values(name));
    }
    let w = Arc::new(w);
    let mut no = 0u64;
    for auto_sync in [true, false] {
    scn::AUTO_SYNC.with(|a| a.set(auto_sync));
    for scn in scn::all_scenarios() {
        if scn.debris() || matches!(scn.op.as_str(), "touch" | "accept") {
            continue;
        }
        // (handles built with auto_sync(false) only for the library-populated paths, where the flush is the library's)
        if !auto_sync && !matches!(scn.op.as_str(), "ensure" | "ensure_chunks" | "replace" | "promote" | "set_temp_file" | "put_temp_file") {
            continue;
        }
        let (n, trace, _res) = fault_free(&scn);
        for k in 0..n {
            for a in plausible(&trace[k], false) {
                no += 1;
                if !shard.mine(no) {
                    continue;
                }
                let world = scn::setup(&scn);
                let cache = world.cache();
                let force = world.force_maintenance;
                let ctl = Arc::new(Both {
                    faults: FailAt { faults: vec![(k as u64, a)], kinds: vec![Some(trace[k].kind)], n: AtomicU64::new(0), hit: Mutex::new(vec![]) },
                    inv: invariant(w.clone()),
                    hits: Mutex::new(vec![]),
                });
                crate::shim::set_controller(Some(ctl.clone() as Arc<dyn Controller>));
                let (_r, t) = crate::run::as_participant(0, 0, || {
                    if force {
                        crate::run::trigger_fire_next(u64::MAX);
                    } else {
                        crate::run::trigger_never();
                    }
                    crate::ops::exec(&cache, &world.dirs, &world.op, &Default::default())
                });
                crate::shim::set_controller(None);
                rep.evaluations += 1;
                rep.states += 1;
                rep.traces += 1;
                rep.transitions += t.len() as u64;
                rep.count("content_invariant_under_fault_cases", 1);
                // whatever failed on the way: bytes read from a returned handle are one complete value for the key
                if let Ok(o) = &_r {
                    if let Res::Hit(bytes) = &o.res {
                        let ok = match (world::identify(bytes), w.get("key")) {
                            (Some(v), Some(vals)) => vals.contains(&v),
                            _ => false,
                        };
                        if !ok {
                            rep.violation(
                                "content:foreign-or-partial-read-under-fault",
                                format!("{} with call {} ({}) failing {:?}: the returned handle read {}", scn.to_json(), k, trace[k].func, a, world::describe_bytes(bytes)),
                                serde_json::json!({"fault_section": true}),
                            );
                        }
                    }
                }
                let hits = ctl.hits.lock().unwrap().clone();
                if let Some(m) = hits.first() {
                    rep.violation(
                        "content:published-corrupt-under-fault",
                        format!("{}{} with call {} ({}) failing {:?}: {}", scn.to_json(), if auto_sync { "" } else { " auto_sync(false)" }, k, trace[k].func, a, m),
                        serde_json::json!({"fault_section": true}),
                    );
                }
            }
        }
    }
    }
    scn::AUTO_SYNC.with(|a| a.set(true));
}

/// A populate callback that fails (before writing anything, or after the first of several writes,
/// with NotFound or another error) must never lead to an empty or cut file under the key: the
/// state invariant after every call, the handle the operation returns, the final tree and a
/// lookup through a fresh handle are all checked, with no second participant and no fault.
fn failing_populate_section(shard: Shard, rep: &mut Report) {
    use crate::ops::{Act, Checker};
    use crate::props::c18::FailAt;
    use crate::props::scn::{self, Scn};
    use crate::shim::{Action, Controller};
    use std::sync::atomic::AtomicU64;
    use std::sync::Mutex;
    struct Watch {
        pass: FailAt,
        inv: Invariant,
        hits: Mutex<Vec<String>>,
    }
    impl Controller for Watch {
        fn before(&self, ev: &Ev) -> Action {
            self.pass.before(ev)
        }
        fn after(&self, ev: &Ev) {
            if let Some(m) = (self.inv)(ev) {
                self.hits.lock().unwrap().push(m);
            }
        }
    }
    let mut w: BTreeMap<String, Vec<Val>> = BTreeMap::new();
    for name in ["key", "key2", "e0", "e1", "e2", "e3", "maint", "maint2"] {
        w.insert(name.to_string(), scn::allowed_values(name));
    }
    let w = Arc::new(w);
    let big = scn::v_new_chunks();
    let pops = [Pop::NotFound, Pop::OtherErr, Pop::PartialNotFound(big), Pop::PartialErr(big), Pop::PartialNotFound(Val::new(1, Size::Five)), Pop::PartialErr(Val::new(5, Size::One))];
    let mut no = 0u64;
    for front in scn::FRONTS {
        for pre in ["missing", "empty", "present", "crowd+present", "debris"] {
            for keyi in 0..2 {
                for opk in 0..4 {
                    for pop in pops {
                        for checker in [Checker::None, Checker::ByteEq] {
                            no += 1;
                            if !shard.mine(no) {
                                continue;
                            }
                            let scn = Scn { front: front.into(), pre: pre.into(), op: "ensure".into() };
                            let mut world = scn::setup(&scn);
                            // "key" is held by the read-only level of the stacked front-end; "key2" is absent everywhere
                            let key = if keyi == 0 { scn::the_key() } else { scn::second_key() };
                            world.op = match opk {
                                0 => Op::Ensure(key.clone(), pop),
                                1 => Op::Gou(key.clone(), Act::Accept, pop),
                                2 => Op::Gou(key.clone(), Act::Promote, pop),
                                _ => Op::Gou(key.clone(), Act::Replace, pop),
                            };
                            world.cfg.checker = checker;
                            let label = format!("{} {} {} checker={:?}", front, pre, world.op.label(), checker);
                            let cache = world.cache();
                            let force = world.force_maintenance;
                            let ctl = Arc::new(Watch {
                                pass: FailAt { faults: vec![], kinds: vec![], n: AtomicU64::new(0), hit: Mutex::new(vec![]) },
                                inv: invariant(w.clone()),
                                hits: Mutex::new(vec![]),
                            });
                            crate::shim::set_controller(Some(ctl.clone() as Arc<dyn Controller>));
                            let (out, t) = crate::run::as_participant(0, 0, || {
                                if force {
                                    crate::run::trigger_fire_next(u64::MAX);
                                } else {
                                    crate::run::trigger_never();
                                }
                                crate::ops::exec(&cache, &world.dirs, &world.op, &Default::default())
                            });
                            crate::shim::set_controller(None);
                            rep.evaluations += 1;
                            rep.states += 1;
                            rep.traces += 1;
                            rep.transitions += t.len() as u64;
                            rep.count("failing_populate_cases", 1);
                            let mut bad: Vec<(String, String)> = Vec::new();
                            if let Some(m) = ctl.hits.lock().unwrap().first() {
                                bad.push(("published-corrupt".into(), m.clone()));
                            }
                            let complete = |bytes: &[u8], name: &str| match (world::identify(bytes), w.get(name)) {
                                (Some(v), Some(vals)) => vals.contains(&v),
                                _ => false,
                            };
                            match &out {
                                Ok(o) => match &o.res {
                                    Res::Hit(bytes) if !complete(bytes, &key.name) => {
                                        bad.push(("foreign-or-partial-read".into(), format!("the returned handle read {}", world::describe_bytes(bytes))))
                                    }
                                    Res::Panic(p) => bad.push(("panic".into(), p.clone())),
                                    _ => {}
                                },
                                Err(p) => bad.push(("panic".into(), p.clone())),
                            }
                            let snap = world.snapshot();
                            for (k, n) in &snap {
                                if n.kind != 'f' || !k.starts_with("w/") || k.contains(".kismet_temp") {
                                    continue;
                                }
                                let name = Path::new(k).file_name().unwrap().to_string_lossy().into_owned();
                                if name.starts_with('.') {
                                    continue;
                                }
                                if !complete(n.content.as_deref().unwrap_or(&[]), &name) {
                                    bad.push(("final-corrupt".into(), format!("{} ends up holding {}", k, world::describe_bytes(n.content.as_deref().unwrap_or(&[])))));
                                }
                            }
                            // any later reader, through its own handle
                            let fresh = world.cache();
                            let (later, t2) = crate::run::as_participant(0, 1, || {
                                crate::run::trigger_never();
                                crate::ops::exec(&fresh, &world.dirs, &Op::Get(key.clone()), &Default::default())
                            });
                            rep.transitions += t2.len() as u64;
                            if let Ok(o) = &later {
                                if let Res::Hit(bytes) = &o.res {
                                    if !complete(bytes, &key.name) {
                                        bad.push(("foreign-or-partial-read".into(), format!("a later get through a fresh handle read {}", world::describe_bytes(bytes))));
                                    }
                                }
                            }
                            for (sig, msg) in bad {
                                rep.violation(format!("content:{}-after-failed-populate", sig), format!("{}: {}", label, msg), serde_json::json!({"failing_populate_section": true}));
                            }
                        }
                    }
                }
            }
        }
    }
}

/// Names that differ only beyond what a directory entry can hold (NAME_MAX = 255 bytes), or of which one extends the
/// other there: whatever the library does with such names (the operating system refuses them), a lookup never
/// answers with the bytes written under the other name.  Plain, sharded and stacked front-ends, both hashes equal,
/// multi-chunk values, writes by set / put / ensure.
fn long_name_section(shard: Shard, rep: &mut Report) {
    use crate::ops::{Checker, Dirs, Front, StackCfg, K};
    use crate::world::Scratch;
    let stem255 = "n".repeat(255);
    let pairs: Vec<(String, String)> = vec![
        (format!("{}A", stem255), format!("{}B", stem255)),
        (stem255.clone(), format!("{}x", stem255)),
        (format!("{}A", "m".repeat(254)), format!("{}B", "m".repeat(254))),
        (format!("{}\u{e9}A", "u".repeat(253)), format!("{}\u{e9}B", "u".repeat(253))),
    ];
    let mut no = 0u64;
    for front_no in 0..3u8 {
        for (pi, (a, b)) in pairs.iter().enumerate() {
            for writer in 0..3u8 {
                no += 1;
                if !shard.mine(no) {
                    continue;
                }
                crate::run::reset_env();
                let sc = Scratch::new();
                let dirs = Dirs::under(&sc.root, if front_no == 2 { 1 } else { 0 });
                let front = if front_no == 1 { Front::Sharded(2) } else { Front::Plain };
                let cfg = StackCfg { writer: Some((front, 1 << 40)), readers: if front_no == 2 { vec![Front::Plain] } else { vec![] }, checker: Checker::None, auto_sync: true };
                crate::shim::passthrough(|| {
                    std::fs::create_dir_all(&dirs.write).unwrap();
                    for r in &dirs.reads {
                        std::fs::create_dir_all(r).unwrap();
                    }
                });
                let cache = crate::ops::build(&cfg, &dirs, None);
                let ka = K::new(a, 11, 12);
                let kb = K::new(b, 11, 12);
                let va = Val::new(0, Size::Chunks);
                let vb = Val::new(1, Size::Chunks);
                let wr = |k: &K, v: Val| match writer {
                    0 => Op::Set(k.clone(), v),
                    1 => Op::Put(k.clone(), v),
                    _ => Op::Ensure(k.clone(), Pop::Value(v)),
                };
                let script = vec![(wr(&ka, va), 0u8), (wr(&kb, vb), 1), (Op::Get(ka.clone()), 0), (Op::Get(kb.clone()), 1), (Op::Ensure(ka.clone(), Pop::Value(va)), 0), (Op::Ensure(kb.clone(), Pop::Value(vb)), 1)];
                rep.evaluations += 1;
                rep.states += 1;
                rep.traces += 1;
                rep.count("long_name_cases", 1);
                for (op, owner) in script {
                    let (o, t) = crate::run::as_participant(0, 0, || {
                        crate::run::trigger_never();
                        crate::ops::exec(&cache, &dirs, &op, &Default::default())
                    });
                    rep.transitions += t.len() as u64;
                    let res = match o {
                        Ok(o) => o.res,
                        Err(p) => Res::Panic(p),
                    };
                    let own = if owner == 0 { va } else { vb };
                    let msg = match &res {
                        Res::Hit(bytes) if *bytes != own.bytes() => Some(format!("read {} - not a value written for that key", world::describe_bytes(bytes))),
                        Res::Panic(p) => Some(format!("panicked: {}", p)),
                        _ => None,
                    };
                    if let Some(m) = msg {
                        rep.violation(
                            "content:foreign-read-long-name",
                            format!("{} front, name pair {} ({} and {} bytes, equal up to byte {}), written by {}: {} on the {} name {}", ["plain", "sharded", "stacked"][front_no as usize], pi, a.len(), b.len(), a.bytes().zip(b.bytes()).take_while(|(x, y)| x == y).count(), ["set", "put", "ensure"][writer as usize], op.label().chars().take(24).collect::<String>(), if owner == 0 { "first" } else { "second" }, m),
                            serde_json::json!({"long_name_section": true}),
                        );
                        break;
                    }
                }
            }
        }
    }
}

/// What a writer that died between the link and the unlink of its put leaves behind: a second name, in
/// `.kismet_temp`, for the inode that is published under the key.  Hours later that name is stale debris.  A reader
/// opened the entry earlier; then any participant's maintenance reclaims the debris.  The earlier handle and a fresh
/// lookup still read the whole value (reclaiming a name is not an operation on the file).
fn stale_link_section(shard: Shard, rep: &mut Report) {
    use crate::ops::{Checker, Dirs, Front, StackCfg, K};
    use crate::world::Scratch;
    use std::io::Read;
    let mut no = 0u64;
    for front_no in 0..3u8 {
        for size in [Size::Five, Size::Chunks] {
            for via in 0..3u8 {
                no += 1;
                if !shard.mine(no) {
                    continue;
                }
                crate::run::reset_env();
                let sc = Scratch::new();
                let dirs = Dirs::under(&sc.root, if front_no == 2 { 1 } else { 0 });
                let front = if front_no == 1 { Front::Sharded(2) } else { Front::Plain };
                let key = crate::ops::key_for_shards("k", 0, 1, 2);
                let other = crate::ops::key_for_shards("other", 0, 1, 2);
                let home = crate::ops::candidate_dirs(&dirs.write, front, &key)[0].clone();
                let v = Val::new(0, size);
                let stale = crate::run::base_time_ns() as i128 - 7_200_000_000_000;
                crate::world::plant(&home.join("k"), &v.bytes(), 0o444, stale - 120_000_000_000, stale);
                crate::shim::passthrough(|| {
                    std::fs::create_dir_all(home.join(".kismet_temp")).unwrap();
                    std::fs::hard_link(home.join("k"), home.join(".kismet_temp/.tmpDEAD01")).unwrap();
                    for r in &dirs.reads {
                        std::fs::create_dir_all(r).unwrap();
                    }
                });
                let cfg = StackCfg { writer: Some((front, if front_no == 1 { 8 } else { 4 })), readers: if front_no == 2 { vec![Front::Plain] } else { vec![] }, checker: Checker::None, auto_sync: true };
                let cache = crate::ops::build(&cfg, &dirs, None);
                // a reader that opened the entry before
                let earlier = crate::shim::passthrough(|| std::fs::File::open(home.join("k")).ok());
                let op = match via {
                    0 => Op::Set(other.clone(), Val::new(1, Size::One)),
                    1 => Op::Put(other.clone(), Val::new(1, Size::One)),
                    _ => Op::Ensure(other.clone(), Pop::Value(Val::new(1, Size::One))),
                };
                let (_o, t) = crate::run::as_participant(0, 0, || {
                    crate::run::trigger_fire_next(u64::MAX);
                    crate::run::shard_draws(&[], Some(0));
                    crate::ops::exec(&cache, &dirs, &op, &Default::default())
                });
                rep.evaluations += 1;
                rep.states += 1;
                rep.traces += 1;
                rep.transitions += t.len() as u64;
                rep.count("stale_link_cases", 1);
                let label = format!("{} front, {}-byte value, maintenance through {}", ["plain", "sharded", "stacked"][front_no as usize], v.bytes().len(), op.label());
                let mut seen: Vec<(String, Vec<u8>)> = Vec::new();
                if let Some(mut f) = earlier {
                    let mut b = Vec::new();
                    let _ = crate::shim::passthrough(|| f.read_to_end(&mut b));
                    seen.push(("the handle opened before the maintenance".into(), b));
                }
                let (g, _t) = crate::run::as_participant(0, 1, || {
                    crate::run::trigger_never();
                    crate::ops::exec(&cache, &dirs, &Op::Get(K::new("k", key.h1, key.h2)), &Default::default())
                });
                if let Ok(o) = g {
                    if let Res::Hit(b) = o.res {
                        seen.push(("a fresh lookup".into(), b));
                    }
                }
                for (who, b) in seen {
                    if b != v.bytes() {
                        rep.violation(
                            "content:published-inode-damaged-through-stale-link",
                            format!("{}: {} read {} instead of the value published for the key", label, who, world::describe_bytes(&b)),
                            serde_json::json!({"stale_link_section": true}),
                        );
                    }
                }
            }
        }
    }
}

pub fn run(tier: Tier, shard: Shard, rep: &mut Report) {
    rep.rule = "curated programs of 2-3 participants x 1-2 operations from {set, put, set_temp_file, ensure, get_or_update->Replace, \
        get+read-to-end, touch} over two keys with writer-distinct values (1 B, 5 B and 3 x 8 KiB written by three write calls), \
        eviction out of play and with maintenance firing on every write (capacity 1-2), own handles and a shared handle, on plain, \
        sharded and stacked (a read-only level already holds the key, so promotion races with writers) front-ends; every interleaving at \
        filesystem-call granularity with <= 2 preemptions (thorough: more programs, bound 3 and unbounded sleep-set search for the \
        classic pairs); ensure and set_temp_file with their n-th close (n = 0, 1, 2) interrupted by a signal - the descriptor is released and EINTR reported - next to a reader of another key sharing the process (descriptor numbers are recycled at once). Oracle: bytes read from every returned handle are exactly one value written for that key; after every rename, \
        link, write, copy or truncate event every key-named file visible in a cache directory holds a complete value for its name; \
        same at the end. The same state invariant is also evaluated after every call of every write scenario of the C02 table with \
        each single I/O fault injected, close losing the unflushed tail included, with handles built with auto-sync and, for the \
        library-populated paths, with auto_sync(false) (a torn publication on an error path is visible without any second participant), and, \
        fault-free, for ensure and get_or_update x {Accept, Promote, Replace} whose populate callback fails (NotFound or another error, \
        before writing or after the first write) x 3 front-ends x 5 pre-states x {key held by a read-only level, key absent everywhere} \
        x {no checker, byte-equality checker}: the returned handle, every intermediate state, the final tree and a later lookup \
        through a fresh handle never show an empty or cut value. And names that differ only beyond the 255th byte (or of which one extends the other there), written by set, put and ensure with multi-chunk values on the three front-ends: no lookup answers with the bytes written under the other name. And a published entry with a second, two-hour-old name in .kismet_temp (a writer died between link and unlink of its put): after a maintenance that reclaims that name, a handle opened earlier and a fresh lookup read the whole value. Non-trivial = execution with >= 1 preemption."
        .into();
    rep.assumptions = vec![
        "threads with own handles stand in for processes; sequentially consistent interleaving of whole system calls".into(),
        "the state invariant is evaluated from the running participant's thread between two of its calls (no other participant moves meanwhile)".into(),
    ];
    let progs = programs(tier);
    let ws: Vec<Arc<BTreeMap<String, Vec<Val>>>> = progs.iter().map(|p| Arc::new(allowed(&p.0))).collect();
    let cap = if tier == Tier::Quick { 300_000 } else { 30_000_000 };
    let ws2 = ws.clone();
    let faults: Vec<Option<crate::sched::SchedFault>> = progs.iter().map(|p| crate::sched::SchedFault::from_program_name(&p.0.name)).collect();
    let mk = move |pi: usize| RunOpts { invariant: Some(invariant(ws2[pi].clone())), fault: faults[pi], ..Default::default() };
    let mut chk = |pi: usize, x: &Execution| check(x, &ws[pi]);
    e1::explore_all("C01", &progs, shard, rep, &mk, &mut chk, cap);
    crate::run::reset_env();
    fault_section(shard, rep);
    failing_populate_section(shard, rep);
    crate::run::reset_env();
    long_name_section(shard, rep);
    crate::run::reset_env();
    stale_link_section(shard, rep);
    rep.count("invariant_file_checks", INVARIANT_FILE_CHECKS.load(std::sync::atomic::Ordering::Relaxed));
}

pub fn replay(case: &Value, rep: &mut Report) {
    if case.get("stale_link_section").is_some() {
        stale_link_section(Shard { index: 0, count: 1 }, rep);
        return;
    }
    if case.get("long_name_section").is_some() {
        long_name_section(Shard { index: 0, count: 1 }, rep);
        return;
    }
    if case.get("failing_populate_section").is_some() {
        failing_populate_section(Shard { index: 0, count: 1 }, rep);
        return;
    }
    if case.get("fault_section").is_some() {
        fault_section(Shard { index: 0, count: 1 }, rep);
        return;
    }
    crate::sched::install_hooks();
    let progs: Vec<Program> = programs(Tier::Thorough).into_iter().map(|p| p.0).collect();
    let name = case["program"].as_str().unwrap_or("");
    let w = match progs.iter().find(|p| p.name == name) {
        Some(p) => Arc::new(allowed(p)),
        None => Arc::new(BTreeMap::new()),
    };
    let w2 = w.clone();
    let fault = crate::sched::SchedFault::from_program_name(name);
    let mk = move || RunOpts { invariant: Some(invariant(w2.clone())), fault, ..Default::default() };
    let mut chk = |x: &Execution| check(x, &w);
    e1::replay_case("C01", &progs, case, rep, &mk, &mut chk);
}
