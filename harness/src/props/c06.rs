//! C06 — operations are non-blocking: a stalled or dead peer never prevents progress.
//!
//! Exploring all schedules with <= c preemptions covers every schedule prefix with <= c-1
//! preemptions followed by each participant running alone until its operation returns
//! (the peers frozen at their current call).  Monitors on every execution: own-step bound,
//! no locking primitive, no lock file, at most two publication attempts per write, no deadlock.
use crate::ops::Res;
use crate::props::e1::{self, Mode};
use crate::props::{c04, c05};
use crate::report::{Report, Shard, Tier};
use crate::sched::{Execution, POp, Program, RunOpts};
use crate::shim::Kind;
use serde_json::Value;
use std::collections::BTreeMap;

/// Frozen constants: own steps of one operation <= A + B * (directory entries it listed).
pub const STEP_A: u64 = 120;
pub const STEP_B: u64 = 10;

pub fn check(x: &Execution, solo: &mut u64) -> Vec<(String, String)> {
    check_named(x, solo, false)
}

/// `stalled`: programs in which a participant is suspended for longer than the temporary-file age
/// limit (its own temp file may legitimately be reclaimed, so its operation may fail); only the
/// non-blocking monitors apply to those.
pub fn check_named(x: &Execution, solo: &mut u64, stalled: bool) -> Vec<(String, String)> {
    let mut bad = Vec::new();
    // per (thread, op): events and listed entries
    let mut steps: BTreeMap<(i32, u32), (u64, u64, u64)> = BTreeMap::new();
    for e in &x.trace {
        let s = steps.entry((e.tid, e.op)).or_insert((0, 0, 0));
        s.0 += 1;
        if e.kind == Kind::Readdir && e.ret > 0 {
            s.1 += 1;
        }
        if matches!(e.kind, Kind::Rename | Kind::Link) && e.path2.as_ref().map(|p| !p.contains("/.kismet_temp/")).unwrap_or(false) {
            s.2 += 1;
        }
        if e.kind == Kind::Lock {
            bad.push(("lock".into(), format!("t{} took a lock: {}", e.tid, e.func)));
        }
        if e.kind == Kind::Open {
            let f = e.flags as i32;
            if (f & libc::O_CREAT) != 0 && (f & libc::O_EXCL) != 0 {
                if let Some(p) = &e.path {
                    if (p.contains("/w/") || p.ends_with("/w")) && !p.contains("/.kismet_temp/") {
                        bad.push(("lock-file".into(), format!("exclusive create inside a cache directory (lock-file idiom): {}", e.brief())));
                    }
                }
            }
        }
    }
    for ((tid, op), (n, listed, pubs)) in &steps {
        let limit = STEP_A + STEP_B * listed;
        if *n > limit {
            bad.push((
                "step-bound".into(),
                format!("t{} op {} took {} filesystem steps with {} directory entries listed (bound {} + {} * entries)", tid, op, n, listed, STEP_A, STEP_B),
            ));
        }
        if *pubs > 2 {
            bad.push(("publish-retries".into(), format!("t{} op {} made {} publication attempts (at most one retry is allowed)", tid, op, pubs)));
        }
    }
    if x.deadlock {
        bad.push(("deadlock".into(), "no participant enabled although some had not finished".into()));
    }
    if x.hang {
        bad.push(("livelock".into(), "an operation exceeded the step horizon or made no progress".into()));
    }
    for r in &x.history {
        if stalled {
            break;
        }
        if let (POp::Api(op), Res::Err(k, os, m)) = (&r.op, &r.outcome.res) {
            bad.push(("op-failed".into(), format!("t{} {} failed: {:?}/{:?} {}", r.tid, op.label(), k, os, m)));
        }
        if let (POp::Api(op), Res::Panic(p)) = (&r.op, &r.outcome.res) {
            bad.push(("panic".into(), format!("t{} {} panicked: {}", r.tid, op.label(), p)));
        }
    }
    // count the solo suffixes this execution exhibits: maximal single-participant segments that end with
    // an operation return while another participant is parked mid-operation
    let mut i = 0;
    while i < x.points.len() {
        let t = x.points[i].chosen;
        let mut j = i;
        while j + 1 < x.points.len() && x.points[j + 1].chosen == t {
            j += 1;
        }
        let others_parked_mid_op = x.points[i].enabled.iter().any(|&o| o != t && x.points[i].pending[x.points[i].enabled.iter().position(|&e| e == o).unwrap()].kind != Kind::OpBegin);
        if j > i && others_parked_mid_op {
            *solo += 1;
        }
        i = j + 1;
    }
    bad
}

pub fn programs(tier: Tier) -> Vec<(Program, Mode)> {
    let mut v = c05::programs(tier);
    // C04's curated programs (eviction out of play) as well
    for (p, m, _) in c04::programs(Tier::Quick) {
        if p.name.starts_with("cur-") {
            let mut p = p;
            p.name = format!("c04-{}", p.name);
            v.push((p, m));
        }
    }
    // a participant suspended for two hours in the middle of a write: whatever happens to its temporary
    // file meanwhile, it must come back in a bounded number of steps
    {
        use crate::ops::{Op, Pop};
        use crate::props::e1::{api, planted};
        use crate::world::{Size, Val};
        let k = e1::key1();
        let j = e1::key2();
        for (front, cfgv) in [("plain", e1::plain_cfg(2)), ("stack", e1::stack_cfg(2))] {
            let pre = vec![planted("x1", Val::new(23, Size::One), true, 7), planted("x2", Val::new(24, Size::One), false, 9)];
            for (name, op) in [
                ("ensure", Op::Ensure(k.clone(), Pop::Value(e1::wval(0, 0, Size::One)))),
                ("replace", Op::Gou(k.clone(), crate::ops::Act::Replace, Pop::Value(e1::wval(0, 0, Size::One)))),
            ] {
                v.push((
                    Program {
                        name: format!("stall-{}-{}|late-maintainer", front, name),
                        cfg: cfgv.clone(),
                        pre: pre.clone(),
                        threads: e1::own_handles(
                            vec![vec![api(op.clone())], vec![POp::ClockJump(7200), api(Op::Set(j.clone(), e1::wval(1, 1, Size::One)))]],
                            true,
                        ),
                        create_write_dir: true,
                    },
                    Mode::Bounded(2),
                ));
            }
        }
    }
    // two threads of one process sharing a sharded handle (and so its in-memory load estimates): one maintains a shard
    // while the other writes into it and bumps its estimate, then stops for good
    {
        use crate::ops::Op;
        use crate::props::e1::{api, planted};
        use crate::world::{Size, Val};
        let k0 = crate::ops::key_for_shards("k", 0, 1, 2);
        let j1 = crate::ops::key_for_shards("j", 1, 0, 2);
        let pre: Vec<crate::sched::Planted> = (0..2)
            .flat_map(|s| (0..3).map(move |i| planted(&format!("{}/x{}{}", crate::ops::shard_dir_name(s), s, i), Val::new(10 + (3 * s + i) as u8, Size::One), i == 1, 20 - i as i64)))
            .collect();
        for (name, a, b) in [
            ("put|put", Op::Put(k0.clone(), e1::wval(0, 0, Size::One)), Op::Put(j1.clone(), e1::wval(1, 0, Size::One))),
            ("set|put", Op::Set(k0.clone(), e1::wval(0, 0, Size::One)), Op::Put(j1.clone(), e1::wval(1, 0, Size::One))),
            ("set|set", Op::Set(k0.clone(), e1::wval(0, 0, Size::One)), Op::Set(j1.clone(), e1::wval(1, 0, Size::One))),
        ] {
            v.push((
                Program {
                    name: format!("shared-estimates-sharded-{}", name),
                    cfg: e1::sharded_cfg(4),
                    pre: pre.clone(),
                    threads: e1::shared_handle(vec![vec![api(a)], vec![api(b)]], true),
                    create_write_dir: true,
                },
                Mode::Bounded(2),
            ));
        }
    }
    // entries stamped by a writer whose clock runs an hour ahead of ours (a shared directory, a clock stepped
    // back): whatever the timestamps say, nobody waits for the clock to catch up
    {
        use crate::ops::{Op, Pop};
        use crate::props::e1::{api, planted};
        use crate::world::{Size, Val};
        let k = e1::key1();
        let j = e1::key2();
        let ahead = -(1440 + 60); // planted ages are minutes before (now - 1 day)
        for (front, cfgv, loc) in [
            ("plain", e1::plain_cfg(2), "k".to_string()),
            ("sharded", e1::sharded_cfg(4), format!("{}/k", crate::ops::shard_dir_name(0))),
            ("stack", e1::stack_cfg(2), "k".to_string()),
        ] {
            let pre = vec![planted(&loc, Val::new(23, Size::One), false, ahead), planted(&loc.replace('k', "x2"), Val::new(24, Size::One), false, 9)];
            let mut add = |name: &str, threads: Vec<Vec<POp>>| {
                v.push((
                    Program { name: format!("skew-{}-{}", front, name), cfg: cfgv.clone(), pre: pre.clone(), threads: e1::own_handles(threads, true), create_write_dir: true },
                    Mode::Bounded(1),
                ));
            };
            add("get-touch|set", vec![vec![api(Op::Get(k.clone())), api(Op::Touch(k.clone()))], vec![api(Op::Set(j.clone(), e1::wval(1, 0, Size::One)))]]);
            add("put-ensure|get", vec![vec![api(Op::Put(k.clone(), e1::wval(0, 0, Size::One))), api(Op::Ensure(k.clone(), Pop::Value(e1::wval(0, 1, Size::One))))], vec![api(Op::Get(k.clone()))]]);
            add("set-backjump-get", vec![vec![api(Op::Set(j.clone(), e1::wval(0, 0, Size::One))), POp::ClockJump(-3600), api(Op::Get(j.clone())), api(Op::Touch(j.clone()))]]);
        }
    }
    v
}

pub fn run(tier: Tier, shard: Shard, rep: &mut Report) {
    rep.rule = format!(
        "C05's programs (maintenance on every write, adversary, missing directories), C04's curated programs, two threads sharing one sharded handle (one maintains a shard while the other writes into it), writers suspended for two hours, and \
         lookups/writes on entries stamped an hour ahead of the local clock (or after the clock stepped back an hour); all schedules with <= 2 \
         preemptions (thorough: 3 for selected programs), which contain, for every schedule prefix with one preemption fewer, the run of \
         each participant alone to the end of its operation while every peer stays frozen at its current filesystem call. Monitors per \
         execution: own filesystem steps of each operation <= {} + {} x (directory entries it listed); no flock/lockf/fcntl lock; no \
         O_CREAT|O_EXCL inside a cache directory outside .kismet_temp; <= 2 publication attempts per write; no deadlock; no operation \
         failing or spinning past the horizon. Plus: a solo sharded set/put under every combination of load estimates {{0, 101, 255}} x {{0, 101, 255}} left behind by peers \
         (shard capacity 50) and of where the key lives: it finishes within 3000 of its own filesystem steps; likewise put/set/ensure/get/touch/put_temp_file \
         when a dangling symbolic link, a symbolic link to a directory or a directory sits under the key's name; and get/touch/put/set/ensure (plain, sharded, stacked; key cached or not; maintenance firing) with every call of one kind \
         (open, opendir, stat, link, rename, unlink, utimens, write, fsync, close) refused for the whole operation with EMFILE, ENFILE, ENOMEM, ENOSPC, EAGAIN or EBUSY \
         (what stalled or dead peers holding the resource cause): the operation gives up or does without within 3000 of its own steps. \
         Non-trivial = execution with >= 1 preemption; solo suffixes are counted.",
        STEP_A, STEP_B
    );
    rep.assumptions = vec![
        "a frozen or dead peer is a participant that is never scheduled again before the observed operation returns".into(),
        "the step-bound constants are frozen in the harness (about 2x the fault-free maximum)".into(),
    ];
    let progs = programs(tier);
    let cap = if tier == Tier::Quick { 300_000 } else { 30_000_000 };
    let mut solo = 0u64;
    let stalled: Vec<bool> = progs.iter().map(|p| p.0.name.starts_with("stall-")).collect();
    let mut chk = |pi: usize, x: &Execution| check_named(x, &mut solo, stalled[pi]);
    e1::explore_all("C06", &progs, shard, rep, &|_| RunOpts { event_budget: 2000, ..Default::default() }, &mut chk, cap);
    rep.count("solo_suffixes_observed", solo);
    crate::run::reset_env();
    estimate_section(shard, rep);
    crate::run::reset_env();
    odd_state_section(shard, rep);
    crate::run::reset_env();
    exhausted_resource_section(shard, rep);
}

/// Aborts the (forked) process once the operation has issued more than `budget` filesystem calls.
struct Budget {
    budget: u64,
    n: std::sync::atomic::AtomicU64,
}

impl crate::shim::Controller for Budget {
    fn before(&self, _ev: &crate::shim::Ev) -> crate::shim::Action {
        if self.n.fetch_add(1, std::sync::atomic::Ordering::SeqCst) >= self.budget {
            crate::shim::Action::Die
        } else {
            crate::shim::Action::Proceed
        }
    }
}

/// A sharded handle's in-memory load estimates are shared by all threads of the process and can be left at any value
/// by peers that have since stopped (each bump is one write; nothing resets an estimate but a maintenance of that very
/// shard).  Whatever they say, a solo write finishes in a bounded number of its own steps.
fn estimate_section(shard: Shard, rep: &mut Report) {
    use crate::world::{Scratch, Size, Val};
    let mut no = 0u64;
    for est0 in [0u8, 101, 255] {
        for est1 in [0u8, 101, 255] {
            for lives_in in [0usize, 1, 2] {
                for set in [true, false] {
                    no += 1;
                    if !shard.mine(no) {
                        continue;
                    }
                    crate::run::reset_env();
                    let sc = Scratch::new();
                    let dir = sc.path("cache");
                    let key = crate::ops::key_for_shards("k", 0, 1, 2);
                    let old = crate::run::base_time_ns() as i128 - 86_400_000_000_000;
                    for s in 0..2 {
                        let d = dir.join(crate::ops::shard_dir_name(s));
                        crate::shim::passthrough(|| std::fs::create_dir_all(&d).unwrap());
                        crate::world::plant(&d.join(format!("other{}", s)), b"x", 0o444, old - 120_000_000_000, old);
                    }
                    if lives_in < 2 {
                        crate::world::plant(&dir.join(crate::ops::shard_dir_name(lives_in)).join("k"), &Val::one(0).bytes(), 0o444, old + 5_000_000_000, old);
                    }
                    let cache = kismet_cache::sharded::Cache::new(dir.clone(), 2, 100);
                    cache.verif_set_load_estimate(0, est0);
                    cache.verif_set_load_estimate(1, est1);
                    let src = sc.path("src");
                    crate::shim::passthrough(|| std::fs::write(&src, Val::new(1, Size::One).bytes()).unwrap());
                    rep.evaluations += 1;
                    rep.states += 1;
                    rep.traces += 1;
                    rep.count("load_estimate_cases", 1);
                    let pid = unsafe { libc::fork() };
                    if pid == 0 {
                        crate::shim::set_controller(Some(std::sync::Arc::new(Budget { budget: 3000, n: std::sync::atomic::AtomicU64::new(0) })));
                        let (r, _t) = crate::run::as_participant(0, 0, || {
                            crate::run::trigger_never();
                            if set {
                                cache.set(key.key(), &src)
                            } else {
                                cache.put(key.key(), &src)
                            }
                        });
                        unsafe { libc::_exit(if matches!(r, Ok(Ok(()))) { 0 } else { 3 }) };
                    }
                    let mut status: libc::c_int = 0;
                    unsafe { libc::waitpid(pid, &mut status, 0) };
                    let code = if libc::WIFEXITED(status) { libc::WEXITSTATUS(status) } else { -1 };
                    let label = format!(
                        "sharded {} of a key {} with load estimates [{}, {}] (shard capacity 50), alone",
                        if set { "set" } else { "put" },
                        match lives_in {
                            0 => "living in its primary shard",
                            1 => "living in its secondary shard",
                            _ => "not cached yet",
                        },
                        est0,
                        est1
                    );
                    match code {
                        0 => {}
                        137 => rep.violation("progress:step-bound", format!("{}: still running after 3000 filesystem steps", label), serde_json::json!({"estimate_section": true})),
                        other => rep.violation("progress:op-failed", format!("{}: failed (child exit {})", label, other), serde_json::json!({"estimate_section": true})),
                    }
                }
            }
        }
    }
}

/// Directory states in which the filesystem keeps giving two answers that only look like a race (a dangling symbolic
/// link under the key's name: link says "exists", open and utimens say "absent"), with nobody else running: every
/// operation still finishes in a bounded number of its own steps.
fn odd_state_section(shard: Shard, rep: &mut Report) {
    use crate::ops::{Op, Pop, StackCfg, Front, Checker, Dirs};
    use crate::world::{Scratch, Size, Val};
    let mut no = 0u64;
    for sharded in [false, true] {
        for state in ["dangling-symlink", "symlink-to-directory", "directory", "stale-temp-subdirectory", "stale-temp-fifo"] {
            for opk in 0..6u8 {
                no += 1;
                if !shard.mine(no) {
                    continue;
                }
                crate::run::reset_env();
                let sc = Scratch::new();
                let dirs = Dirs::under(&sc.root, 0);
                let front = if sharded { Front::Sharded(2) } else { Front::Plain };
                let key = crate::ops::key_for_shards("k", 0, 1, 2);
                let home = crate::ops::candidate_dirs(&dirs.write, front, &key)[0].clone();
                crate::shim::passthrough(|| {
                    std::fs::create_dir_all(&home).unwrap();
                    let gone = sc.path("gone-target");
                    match state {
                        "dangling-symlink" => std::os::unix::fs::symlink(&gone, home.join("k")).unwrap(),
                        "symlink-to-directory" => {
                            std::fs::create_dir_all(&gone).unwrap();
                            std::os::unix::fs::symlink(&gone, home.join("k")).unwrap();
                        }
                        "directory" => std::fs::create_dir_all(home.join("k")).unwrap(),
                        "stale-temp-subdirectory" => {
                            std::fs::create_dir_all(home.join(".kismet_temp/staging/inner")).unwrap();
                            std::fs::write(home.join(".kismet_temp/staging/inner/f"), b"x").unwrap();
                        }
                        _ => {
                            std::fs::create_dir_all(home.join(".kismet_temp")).unwrap();
                            let c = std::ffi::CString::new(home.join(".kismet_temp/pipe").to_string_lossy().as_bytes()).unwrap();
                            unsafe { libc::mkfifo(c.as_ptr(), 0o600) };
                        }
                    }
                });
                let in_temp = state.starts_with("stale-temp");
                if in_temp {
                    // debris two hours old that maintenance cannot (sub-directory) or can (pipe) unlink; the write's
                    // maintenance fires
                    let old = crate::run::base_time_ns() as i128 - 7_200_000_000_000;
                    for rel in [".kismet_temp/staging/inner", ".kismet_temp/staging", ".kismet_temp/pipe"] {
                        if crate::world::lstat(&home.join(rel)).is_some() {
                            crate::world::set_times(&home.join(rel), old, old);
                        }
                    }
                }
                let cfg = StackCfg { writer: Some((front, 1 << 40)), readers: vec![], checker: Checker::None, auto_sync: true };
                let cache = crate::ops::build(&cfg, &dirs, None);
                let v = Val::new(1, Size::One);
                let op = match opk {
                    0 => Op::Put(key.clone(), v),
                    1 => Op::Set(key.clone(), v),
                    2 => Op::Ensure(key.clone(), Pop::Value(v)),
                    3 => Op::Get(key.clone()),
                    4 => Op::Touch(key.clone()),
                    _ => Op::PutTemp(key.clone(), v),
                };
                rep.evaluations += 1;
                rep.states += 1;
                rep.traces += 1;
                rep.count("odd_state_cases", 1);
                let pid = unsafe { libc::fork() };
                if pid == 0 {
                    crate::shim::set_controller(Some(std::sync::Arc::new(Budget { budget: 3000, n: std::sync::atomic::AtomicU64::new(0) })));
                    let _ = crate::run::as_participant(0, 0, || {
                        if in_temp {
                            crate::run::trigger_fire_next(u64::MAX);
                        } else {
                            crate::run::trigger_never();
                        }
                        crate::ops::exec(&cache, &dirs, &op, &Default::default())
                    });
                    unsafe { libc::_exit(0) };
                }
                let mut status: libc::c_int = 0;
                unsafe { libc::waitpid(pid, &mut status, 0) };
                let code = if libc::WIFEXITED(status) { libc::WEXITSTATUS(status) } else { -1 };
                if code == 137 {
                    rep.violation(
                        "progress:step-bound",
                        format!("{} {} with a {} under the key's name, alone: still running after 3000 filesystem steps", if sharded { "sharded" } else { "plain" }, op.label(), state),
                        serde_json::json!({"odd_state_section": true}),
                    );
                } else if code != 0 {
                    rep.violation("progress:panic", format!("{} {} with a {} under the key's name: child ended with {}", if sharded { "sharded" } else { "plain" }, op.label(), state, code), serde_json::json!({"odd_state_section": true}));
                }
            }
        }
    }
}


/// Every call of one kind refused, for as long as the operation runs, with an errno that says "a resource is
/// exhausted" (descriptors, memory, space): the state a process is in while stalled or dead peers hold the resource.
/// Nobody will release anything, so an operation that waits for the resource never returns; it must give up (or do
/// without) within a bounded number of its own steps.
struct Starved {
    kind: crate::shim::Kind,
    errno: i32,
    budget: u64,
    n: std::sync::atomic::AtomicU64,
}

impl crate::shim::Controller for Starved {
    fn before(&self, ev: &crate::shim::Ev) -> crate::shim::Action {
        if self.n.fetch_add(1, std::sync::atomic::Ordering::SeqCst) >= self.budget {
            crate::shim::Action::Die
        } else if ev.kind == self.kind {
            crate::shim::Action::Fail(self.errno)
        } else {
            crate::shim::Action::Proceed
        }
    }
}

fn exhausted_resource_section(shard: Shard, rep: &mut Report) {
    use crate::ops::{Checker, Dirs, Front, Op, Pop, StackCfg};
    use crate::shim::Kind;
    use crate::world::{Scratch, Size, Val};
    let kinds = [Kind::Open, Kind::Opendir, Kind::Stat, Kind::Link, Kind::Rename, Kind::Unlink, Kind::Utimens, Kind::Write, Kind::Fsync, Kind::Close];
    let errnos = [libc::EMFILE, libc::ENFILE, libc::ENOMEM, libc::ENOSPC, libc::EAGAIN, libc::EBUSY];
    let mut no = 0u64;
    for front_no in 0..3u8 {
        for present in [true, false] {
            for opk in 0..5u8 {
                for kind in kinds {
                    for errno in errnos {
                        no += 1;
                        if !shard.mine(no) {
                            continue;
                        }
                        crate::run::reset_env();
                        let sc = Scratch::new();
                        let dirs = Dirs::under(&sc.root, if front_no == 2 { 1 } else { 0 });
                        let front = if front_no == 1 { Front::Sharded(2) } else { Front::Plain };
                        let key = crate::ops::key_for_shards("k", 0, 1, 2);
                        let old = crate::run::base_time_ns() as i128 - 86_400_000_000_000;
                        let home = crate::ops::candidate_dirs(&dirs.write, front, &key)[0].clone();
                        crate::shim::passthrough(|| std::fs::create_dir_all(&home).unwrap());
                        // the directory is over its capacity of 1, so that a firing maintenance has work to do
                        crate::world::plant(&home.join("other1"), b"x", 0o444, old + 5_000_000_000, old);
                        crate::world::plant(&home.join("other2"), b"y", 0o444, old - 125_000_000_000, old - 5_000_000_000);
                        if present {
                            let at = if front_no == 2 { dirs.reads[0].join("k") } else { home.join("k") };
                            crate::world::plant(&at, &Val::one(0).bytes(), 0o444, old - 120_000_000_000, old - 1_000_000_000);
                        }
                        let cfg = StackCfg {
                            writer: Some((front, if front_no == 1 { 2 } else { 1 })),
                            readers: if front_no == 2 { vec![Front::Plain] } else { vec![] },
                            checker: Checker::None,
                            auto_sync: true,
                        };
                        let cache = crate::ops::build(&cfg, &dirs, None);
                        let v = Val::new(1, Size::One);
                        let op = match opk {
                            0 => Op::Get(key.clone()),
                            1 => Op::Touch(key.clone()),
                            2 => Op::Put(key.clone(), v),
                            3 => Op::Set(key.clone(), v),
                            _ => Op::Ensure(key.clone(), Pop::Value(v)),
                        };
                        rep.evaluations += 1;
                        rep.states += 1;
                        rep.traces += 1;
                        rep.count("exhausted_resource_cases", 1);
                        let pid = unsafe { libc::fork() };
                        if pid == 0 {
                            crate::shim::set_controller(Some(std::sync::Arc::new(Starved { kind, errno, budget: 3000, n: std::sync::atomic::AtomicU64::new(0) })));
                            let _ = crate::run::as_participant(0, 0, || {
                                crate::run::trigger_fire_next(u64::MAX);
                                crate::ops::exec(&cache, &dirs, &op, &Default::default())
                            });
                            unsafe { libc::_exit(0) };
                        }
                        let mut status: libc::c_int = 0;
                        unsafe { libc::waitpid(pid, &mut status, 0) };
                        let code = if libc::WIFEXITED(status) { libc::WEXITSTATUS(status) } else { -1 };
                        let label = format!(
                            "{} {} (key {}) with every {} call refused with errno {}, alone",
                            ["plain", "sharded", "stacked"][front_no as usize],
                            op.label(),
                            if present { "cached" } else { "absent" },
                            kind.name(),
                            errno
                        );
                        if code == 137 {
                            rep.violation("progress:step-bound", format!("{}: still running after 3000 filesystem steps", label), serde_json::json!({"exhausted_resource_section": true}));
                        } else if code != 0 {
                            rep.violation("progress:panic", format!("{}: child ended with {}", label, code), serde_json::json!({"exhausted_resource_section": true}));
                        }
                    }
                }
            }
        }
    }
}

pub fn replay(case: &Value, rep: &mut Report) {
    if case.get("odd_state_section").is_some() {
        odd_state_section(Shard { index: 0, count: 1 }, rep);
        return;
    }
    if case.get("exhausted_resource_section").is_some() {
        exhausted_resource_section(Shard { index: 0, count: 1 }, rep);
        return;
    }
    if case.get("estimate_section").is_some() {
        estimate_section(Shard { index: 0, count: 1 }, rep);
        return;
    }
    crate::sched::install_hooks();
    let progs: Vec<Program> = programs(Tier::Thorough).into_iter().map(|p| p.0).collect();
    let mut solo = 0;
    let stalled = case["program"].as_str().unwrap_or("").starts_with("stall-");
    let mut chk = |x: &Execution| check_named(x, &mut solo, stalled);
    e1::replay_case("C06", &progs, case, rep, &|| RunOpts { event_budget: 2000, ..Default::default() }, &mut chk);
}
