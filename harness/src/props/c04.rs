//! C04 — plain-cache operations are linearizable per key: set overwrites, put never does.
use crate::ops::{Op, Res};
use crate::props::e1::{self, Mode};
use crate::report::{Report, Shard, Tier};
use crate::sched::{Execution, POp, Program, RunOpts};
use crate::world::{self, Size, Val};
use serde_json::Value;
use std::collections::HashSet;

#[derive(Clone, Debug, PartialEq)]
enum Sub {
    Set(Vec<u8>),
    Put(Vec<u8>),
    Read(Option<Vec<u8>>),
    Touch(bool),
}

struct HOp {
    begin: u64,
    end: u64,
    subs: Vec<Sub>,
    label: String,
}

/// Builds the sub-operation history; Err(description) if an op cannot be interpreted.
fn history(x: &Execution) -> Result<Vec<HOp>, String> {
    let mut out = Vec::new();
    for r in &x.history {
        let op = match &r.op {
            POp::Api(o) => o,
            POp::Unlink(_) | POp::ClockJump(_) => continue,
        };
        let res = &r.outcome.res;
        let subs = match (op, res) {
            (Op::Set(_, v), Res::Unit) | (Op::SetTemp(_, v), Res::Unit) => vec![Sub::Set(v.bytes())],
            (Op::Put(_, v), Res::Unit) | (Op::PutTemp(_, v), Res::Unit) => vec![Sub::Put(v.bytes())],
            (Op::Get(_), Res::Hit(b)) => vec![Sub::Read(Some(b.clone()))],
            (Op::Get(_), Res::Miss) => vec![Sub::Read(None)],
            (Op::Touch(_), Res::Bool(b)) => vec![Sub::Touch(*b)],
            (Op::Ensure(_, crate::ops::Pop::Value(v)), Res::Hit(b)) => {
                // a documented composite: lookup; on a miss put, then lookup again
                if r.outcome.populate_calls == 0 {
                    vec![Sub::Read(Some(b.clone()))]
                } else {
                    vec![Sub::Read(None), Sub::Put(v.bytes()), Sub::Read(Some(b.clone()))]
                }
            }
            (o, r) => return Err(format!("{} returned {}", o.label(), r.label())),
        };
        out.push(HOp { begin: r.begin, end: r.end, subs, label: format!("t{}:{}->{}", r.tid, op.label(), res.label()) });
    }
    Ok(out)
}

fn apply(state: &Option<Vec<u8>>, s: &Sub) -> Option<Option<Vec<u8>>> {
    match s {
        Sub::Set(v) => Some(Some(v.clone())),
        Sub::Put(v) => Some(if state.is_none() { Some(v.clone()) } else { state.clone() }),
        Sub::Read(x) => {
            if x == state {
                Some(state.clone())
            } else {
                None
            }
        }
        Sub::Touch(b) => {
            if *b == state.is_some() {
                Some(state.clone())
            } else {
                None
            }
        }
    }
}

/// Wing-Gong search for a linearization of the sub-operation history.
fn linearizable(h: &[HOp], init: Option<Vec<u8>>) -> bool {
    // progress[i] = number of sub-ops of op i already linearized
    fn rec(h: &[HOp], progress: &mut Vec<usize>, state: &Option<Vec<u8>>, seen: &mut HashSet<(Vec<usize>, Option<Vec<u8>>)>) -> bool {
        if progress.iter().zip(h.iter()).all(|(p, o)| *p == o.subs.len()) {
            return true;
        }
        if !seen.insert((progress.clone(), state.clone())) {
            return false;
        }
        // an op may take its next step only if every op that returned before it was called is complete
        for i in 0..h.len() {
            if progress[i] == h[i].subs.len() {
                continue;
            }
            let blocked = (0..h.len()).any(|j| j != i && progress[j] < h[j].subs.len() && h[j].end <= h[i].begin);
            if blocked {
                continue;
            }
            if let Some(ns) = apply(state, &h[i].subs[progress[i]]) {
                progress[i] += 1;
                if rec(h, progress, &ns, seen) {
                    return true;
                }
                progress[i] -= 1;
            }
        }
        false
    }
    let mut progress = vec![0; h.len()];
    let mut seen = HashSet::new();
    rec(h, &mut progress, &init, &mut seen)
}

pub fn check(x: &Execution, init: Option<Val>) -> Vec<(String, String)> {
    let mut bad = Vec::new();
    match history(x) {
        Err(e) => bad.push(("op-failed".into(), format!("{} (no operation may fail in this program)", e))),
        Ok(h) => {
            if !linearizable(&h, init.map(|v| v.bytes())) {
                let desc: Vec<String> = h.iter().map(|o| format!("[{},{}] {}", o.begin, o.end, o.label)).collect();
                bad.push(("not-linearizable".into(), format!("no linearization against the register-with-put specification: {}", desc.join("; "))));
            }
            // all-ensure programs on an absent key: every ensure returns the same value
            let all_ensure = x.history.iter().all(|r| matches!(&r.op, POp::Api(Op::Ensure(..))));
            if all_ensure && init.is_none() {
                let vals: std::collections::BTreeSet<String> = x.history.iter().map(|r| r.outcome.res.label()).collect();
                if vals.len() > 1 {
                    bad.push(("ensure-disagree".into(), format!("concurrent ensure calls returned different values: {:?}", vals)));
                }
            }
        }
    }
    if x.deadlock {
        bad.push(("deadlock".into(), "no participant enabled before all finished".into()));
    }
    bad
}

fn v0() -> Val {
    Val::one(0)
}

fn mk(name: String, codes: &[&str], present: bool, fire: bool) -> Program {
    mk_variant(name, codes, present, fire, Size::One, true)
}

/// As `mk`, with the written values of another size and the handles built with or without auto-sync
/// (neither may change what a lookup answers).
fn mk_variant(name: String, codes: &[&str], present: bool, fire: bool, size: Size, auto_sync: bool) -> Program {
    let k = e1::key1();
    let threads: Vec<Vec<POp>> = codes
        .iter()
        .enumerate()
        .map(|(t, s)| s.chars().enumerate().map(|(i, c)| e1::op_from_code(c, &k, e1::wval(t, i, size))).collect())
        .collect();
    let mut cfg = e1::plain_cfg(1 << 40);
    cfg.auto_sync = auto_sync;
    Program {
        name,
        cfg,
        pre: if present { vec![e1::planted("k", v0(), false, 1)] } else { vec![] },
        threads: e1::own_handles(threads, fire),
        create_write_dir: true,
    }
}

/// (value size, label, auto-sync) combinations other than the default (1 B, auto-sync on)
fn variants() -> Vec<(Size, &'static str, bool)> {
    vec![(Size::Empty, "empty", true), (Size::Empty, "empty", false), (Size::One, "one", false), (Size::Chunks, "chunks", true), (Size::Chunks, "chunks", false)]
}

/// Every sequential history of <= 3 operations (one participant: exactly one schedule each, i.e. the register
/// specification itself) for each variant.
pub fn seq_programs(tier: Tier) -> Vec<(Program, bool)> {
    let seq_alpha = ['s', 'p', 'g', 't', 'e', 'S', 'P'];
    let mut seqs: Vec<String> = vec![];
    for a in seq_alpha {
        seqs.push(a.to_string());
        for b in seq_alpha {
            seqs.push(format!("{}{}", a, b));
            for c in seq_alpha {
                seqs.push(format!("{}{}{}", a, b, c));
            }
        }
    }
    let mut out = Vec::new();
    for (size, sname, auto_sync) in variants() {
        let tag = format!("{}-{}", sname, if auto_sync { "sync" } else { "nosync" });
        for q in &seqs {
            if tier == Tier::Quick && q.len() == 3 && size == Size::Chunks {
                continue;
            }
            for present in [false, true] {
                let name = format!("seq-{}-{}-{}", q, tag, if present { "present" } else { "absent" });
                out.push((mk_variant(name, &[q], present, false, size, auto_sync), present));
            }
        }
    }
    out
}

pub fn programs(tier: Tier) -> Vec<(Program, Mode, bool)> {
    // (program, mode, key initially present)
    let mut out = Vec::new();
    let alpha = ['s', 'p', 'g', 't', 'e'];
    // all 2 x 1-op pairs (modulo participant symmetry), unbounded
    for (i, a) in alpha.iter().enumerate() {
        for b in alpha.iter().skip(i) {
            for present in [false, true] {
                let name = format!("pair-{}{}-{}", a, b, if present { "present" } else { "absent" });
                // ensure || ensure on an absent key has by far the largest unbounded tree (2 x 35 mostly
                // dependent calls, ~2e5 executions): bounded in quick, unbounded in thorough
                let mode = if tier == Tier::Quick && *a == 'e' && *b == 'e' && !present { Mode::Bounded(3) } else { Mode::Sleep };
                out.push((mk(name, &[&a.to_string(), &b.to_string()], present, false), mode, present));
            }
        }
    }
    let curated: Vec<(&str, Vec<&str>, bool)> = vec![
        ("set-then-get|set", vec!["sg", "s"], false),
        ("put-get|put-get", vec!["pg", "pg"], false),
        ("set|get-get", vec!["s", "gg"], true),
        ("ensure|set-get", vec!["e", "sg"], false),
        ("put|set|get", vec!["p", "s", "g"], false),
        ("ensure|ensure|ensure", vec!["e", "e", "e"], false),
        ("set-put|put-touch", vec!["sp", "pt"], false),
        ("put-set|get-touch", vec!["ps", "gt"], true),
        ("set-set|get-get", vec!["ss", "gg"], false),
        ("ensure-get|put-get", vec!["eg", "pg"], false),
        ("settemp|puttemp-get", vec!["S", "Pg"], false),
    ];
    for (n, c, present) in &curated {
        out.push((mk(format!("cur-{}", n), c, *present, false), Mode::Bounded(2), *present));
    }
    // cold start: the cache directory does not exist yet, so the first publication attempt of each writer
    // fails and the create-directory-and-retry path decides
    for (n, c) in [("put-get|put-get", vec!["pg", "pg"]), ("ensure|ensure", vec!["e", "e"]), ("put|set-get", vec!["p", "sg"]), ("put|put|get", vec!["p", "p", "g"])] {
        let mut p = mk(format!("cold-{}", n), &c, false, false);
        p.create_write_dir = false;
        out.push((p, Mode::Bounded(2), false));
    }
    for (size, sname, auto_sync) in variants() {
        if size != Size::Chunks {
            let tag = format!("{}-{}", sname, if auto_sync { "sync" } else { "nosync" });
            for (n, c, present) in [("sg|s", vec!["sg", "s"], false), ("pg|pg", vec!["pg", "pg"], false), ("s|gg", vec!["s", "gg"], true), ("e|sg", vec!["e", "sg"], false), ("S|Pg", vec!["S", "Pg"], false)] {
                out.push((mk_variant(format!("var-{}-{}", n, tag), &c, present, false, size, auto_sync), Mode::Bounded(2), present));
            }
        }
    }
    // maintenance firing below capacity must not disturb anything
    out.push((mk("fire-set|put-get".into(), &["s", "pg"], true, true), Mode::Bounded(2), true));
    out.push((mk("fire-ensure|ensure".into(), &["e", "e"], false, true), Mode::Bounded(2), false));
    if tier == Tier::Thorough {
        // all 2 x <=2-op programs at bound 2
        let mut seqs: Vec<String> = alpha.iter().map(|c| c.to_string()).collect();
        for a in alpha {
            for b in alpha {
                seqs.push(format!("{}{}", a, b));
            }
        }
        for (i, a) in seqs.iter().enumerate() {
            for b in seqs.iter().skip(i) {
                if a.len() + b.len() <= 2 {
                    continue; // covered unbounded above
                }
                for present in [false, true] {
                    let name = format!("all2-{}|{}-{}", a, b, if present { "present" } else { "absent" });
                    out.push((mk(name, &[a, b], present, false), Mode::Bounded(2), present));
                }
            }
        }
        // all 3 x 1-op triples at bound 2
        for (i, a) in alpha.iter().enumerate() {
            for (j, b) in alpha.iter().enumerate().skip(i) {
                for c in alpha.iter().skip(j) {
                    let name = format!("triple-{}{}{}", a, b, c);
                    out.push((mk(name, &[&a.to_string(), &b.to_string(), &c.to_string()], false, false), Mode::Bounded(2), false));
                }
            }
        }
        for (n, c, present) in &curated {
            out.push((mk(format!("cur3-{}", n), c, *present, false), Mode::Bounded(3), *present));
        }
    }
    out
}

pub fn run(tier: Tier, shard: Shard, rep: &mut Report) {
    rep.rule = "programs over one key of a plain cache with eviction out of play (capacity 2^40; trigger scripted never to fire, \
        plus two programs where it always fires): ALL pairs of single operations from {set, put, get, touch, ensure} x key initially \
        absent/present explored without bound (depth-first search with sleep sets over filesystem-call interleavings); curated 2-3 \
        participant x 2-3 operation programs under iterative preemption bounding (all schedules with <= 2 preemptions; thorough: every \
        2 x <=2-op program and every 3 x 1-op triple at bound 2, curated at bound 3); every sequential history of <= 3 operations from \
        {set, put, get, touch, ensure, set_temp_file, put_temp_file} and five writer/reader programs again with values of 0 B and 3 x 8 KiB and \
        with handles built with auto_sync(false) (neither may change an answer); set/put of values staged in the cache's own temp_dir(), a minute \
        or two hours old, with the write's maintenance firing or not: an acknowledged write is what a later get reads, a failed one changed nothing; \
        and get/touch/put/set with each call failing in each plausible way: the failure is reported or the answer is the specification's, and a handle obtained \
        by an earlier get still reads its value. Each execution's call/return history (stamped in \
        scheduler steps; ensure decomposed into lookup / put / lookup) is checked by Wing-Gong search against the register-with-put \
        specification. Non-trivial = execution with at least one preemption; outcomes = distinct (results, final contents)."
        .into();
    rep.assumptions = vec![
        "participants are threads with their own handles standing in for processes; one runs at a time (sequential consistency)".into(),
        "ensure is a documented composite (lookup, put on a miss, lookup again), so it enters the history as its sub-operations".into(),
    ];
    let cap = if tier == Tier::Quick { 400_000 } else { 20_000_000 };
    let all = programs(tier);
    let progs: Vec<(Program, Mode)> = all.iter().map(|p| (p.0.clone(), p.1)).collect();
    let mut chk = |pi: usize, x: &Execution| check(x, if all[pi].2 { Some(v0()) } else { None });
    e1::explore_all("C04", &progs, shard, rep, &|_| RunOpts::default(), &mut chk, cap);
    let _ = world::fnv(b"");
    let mut no = 0u64;
    for (prog, present) in seq_programs(tier) {
        no += 1;
        if !shard.mine(no) {
            continue;
        }
        let x = crate::sched::run_schedule(&prog, &[], RunOpts::default());
        rep.evaluations += 1;
        rep.traces += 1;
        rep.states += 1;
        rep.transitions += x.trace.len() as u64;
        rep.count("sequential_variant_histories", 1);
        rep.outcomes.insert(world::fnv(format!("{}|{}", prog.name, crate::sched::outcome_key(&x)).as_bytes()));
        for (sig, msg) in check(&x, if present { Some(v0()) } else { None }) {
            rep.violation(format!("history:{}", sig), format!("program {} [sequential]: {}", prog.name, msg), e1::case_json(&prog, &[]));
        }
    }
    crate::run::reset_env();
    staged_source_section(shard, rep);
    crate::run::reset_env();
    faulted_answers_section(shard, rep);
    crate::run::reset_env();
    earlier_handle_section(shard, rep);
}

/// Values staged in the cache's own temporary directory (the documented workflow), young or already older than the
/// age limit (a file renamed in, extracted from an archive, written under a skewed clock), with the write's own
/// maintenance firing or not: an acknowledged write took effect; a failed one changed nothing.
fn staged_source_section(shard: Shard, rep: &mut Report) {
    use crate::world::Scratch;
    let mut no = 0u64;
    for sharded in [false, true] {
        for present in [false, true] {
            for set in [true, false] {
                for fire in [false, true] {
                    for stale in [false, true] {
                        no += 1;
                        if !shard.mine(no) {
                            continue;
                        }
                        crate::run::reset_env();
                        let sc = Scratch::new();
                        let dir = sc.path("cache");
                        let key = crate::ops::key_for_shards("k", 0, 1, 2);
                        let now = crate::run::base_time_ns() as i128;
                        let old = now - 86_400_000_000_000;
                        let home = if sharded { dir.join(crate::ops::shard_dir_name(0)) } else { dir.clone() };
                        crate::shim::passthrough(|| std::fs::create_dir_all(&home).unwrap());
                        if present {
                            world::plant(&home.join("k"), &v0().bytes(), 0o444, old - 120_000_000_000, old);
                        }
                        let newv = Val::one(7);
                        enum H {
                            P(kismet_cache::plain::Cache),
                            S(kismet_cache::sharded::Cache),
                        }
                        let mk = || if sharded { H::S(kismet_cache::sharded::Cache::new(dir.clone(), 2, 20)) } else { H::P(kismet_cache::plain::Cache::new(dir.clone(), 10)) };
                        let h = mk();
                        let age = if stale { 7_200_000_000_000i128 } else { 60_000_000_000 };
                        let (r, t) = crate::run::as_participant(0, 0, || -> std::io::Result<()> {
                            if fire {
                                crate::run::trigger_fire_next(u64::MAX);
                            } else {
                                crate::run::trigger_never();
                            }
                            let tmp = match &h {
                                H::P(c) => c.temp_dir()?.into_owned(),
                                H::S(c) => c.temp_dir(Some(key.key()))?.into_owned(),
                            };
                            let src = tmp.join("staged-value");
                            std::fs::write(&src, newv.bytes())?;
                            crate::shim::passthrough(|| world::set_times(&src, now - age, now - age));
                            // (staging consumed whatever the trigger had in store: the write itself fires or not as asked)
                            if fire {
                                crate::run::trigger_fire_next(u64::MAX);
                            }
                            match (&h, set) {
                                (H::P(c), true) => c.set("k", &src),
                                (H::P(c), false) => c.put("k", &src),
                                (H::S(c), true) => c.set(key.key(), &src),
                                (H::S(c), false) => c.put(key.key(), &src),
                            }
                        });
                        rep.evaluations += 1;
                        rep.states += 1;
                        rep.traces += 1;
                        rep.transitions += t.len() as u64;
                        rep.count("staged_source_cases", 1);
                        let label = format!(
                            "{} {} of a value staged in temp_dir() ({}), key {}, maintenance {}",
                            if sharded { "sharded" } else { "plain" },
                            if set { "set" } else { "put" },
                            if stale { "two hours old" } else { "a minute old" },
                            if present { "present" } else { "absent" },
                            if fire { "firing" } else { "not firing" }
                        );
                        let acked = match r {
                            Ok(Ok(())) => true,
                            Ok(Err(_)) => false,
                            Err(p) => {
                                rep.violation("history:panic", format!("{}: panicked: {}", label, p), serde_json::json!({"staged_source_section": true}));
                                continue;
                            }
                        };
                        let reader = mk();
                        let (got, _t) = crate::run::as_participant(1, 0, || {
                            crate::run::trigger_never();
                            let f = match &reader {
                                H::P(c) => c.get("k"),
                                H::S(c) => c.get(key.key()),
                            };
                            f.map(|o| {
                                o.map(|mut f| {
                                    let mut b = Vec::new();
                                    let _ = std::io::Read::read_to_end(&mut f, &mut b);
                                    b
                                })
                            })
                        });
                        let got = match got {
                            Ok(Ok(g)) => g,
                            other => {
                                rep.violation("history:op-failed", format!("{}: the later get failed: {:?}", label, other.map(|r| r.map(|_| ()))), serde_json::json!({"staged_source_section": true}));
                                continue;
                            }
                        };
                        let before = if present { Some(v0().bytes()) } else { None };
                        let want = if !acked {
                            before.clone()
                        } else if set {
                            Some(newv.bytes())
                        } else {
                            before.clone().or(Some(newv.bytes()))
                        };
                        if got != want {
                            rep.violation(
                                "history:ack-without-effect",
                                format!(
                                    "{}: the write {} and a later get reads {:?}, expected {:?}",
                                    label,
                                    if acked { "was acknowledged" } else { "failed" },
                                    got.as_ref().map(|b| world::describe_bytes(b)),
                                    want.as_ref().map(|b| world::describe_bytes(b))
                                ),
                                serde_json::json!({"staged_source_section": true}),
                            );
                        }
                    }
                }
            }
        }
    }
}

/// The answers of get, touch, put and set on a plain cache when one call of the operation fails (every call, every
/// plausible errno): the operation reports the failure, or answers as the register specification says (a present key
/// is never reported absent, an acknowledged write took effect).  Absence errnos on the key's own probe excepted.
fn faulted_answers_section(shard: Shard, rep: &mut Report) {
    use crate::props::c02::fault_free;
    use crate::props::c18::{fault_run, plausible};
    use crate::props::scn::Scn;
    let mut no = 0u64;
    for pre in ["empty", "present"] {
        for op in ["get", "touch", "put", "set", "put_temp_file", "set_temp_file"] {
            let scn = Scn { front: "plain".into(), pre: pre.into(), op: op.into() };
            let (n, trace, _res) = fault_free(&scn);
            for k in 0..n {
                for a in plausible(&trace[k], true) {
                    no += 1;
                    if !shard.mine(no) {
                        continue;
                    }
                    rep.evaluations += 1;
                    rep.states += 1;
                    rep.traces += 1;
                    rep.count("faulted_answer_cases", 1);
                    for (sig, msg) in fault_run(&scn, &[(k as u64, a)], &trace, rep) {
                        if matches!(sig.as_str(), "wrong-value" | "success-without-effect" | "unexpected-result") {
                            rep.violation(
                                format!("history:{}-under-fault", sig),
                                format!("{} with call {} ({}) failing {:?}: {}", scn.to_json(), k, trace[k].func, a, msg),
                                serde_json::json!({"faulted_answers_section": true}),
                            );
                        }
                    }
                }
            }
        }
    }
}

/// A get that returned before a write was called keeps reading the value it was given, whatever that write runs into
/// (every call failing in every plausible way, EXDEV on the rename included): a write replaces the entry, it never
/// rewrites the published file in place.
fn earlier_handle_section(shard: Shard, rep: &mut Report) {
    use crate::props::c02::fault_free;
    use crate::props::c18::{plausible, FailAt};
    use crate::props::scn::{self, Scn};
    use std::io::Read;
    let mut no = 0u64;
    for front in ["plain", "sharded"] {
        for op in ["set", "set_temp_file", "set_chunks", "replace", "put"] {
            let scn = Scn { front: front.into(), pre: "present".into(), op: op.into() };
            let (n, trace, _res) = fault_free(&scn);
            for k in 0..n {
                for a in plausible(&trace[k], true) {
                    no += 1;
                    if !shard.mine(no) {
                        continue;
                    }
                    let w = scn::setup(&scn);
                    let path = w.home.join("key");
                    let mut earlier = match crate::shim::passthrough(|| std::fs::File::open(&path)) {
                        Ok(f) => f,
                        Err(_) => continue,
                    };
                    let cache = w.cache();
                    let ctl = std::sync::Arc::new(FailAt { faults: vec![(k as u64, a)], kinds: vec![Some(trace[k].kind)], n: std::sync::atomic::AtomicU64::new(0), hit: std::sync::Mutex::new(vec![]) });
                    crate::shim::set_controller(Some(ctl));
                    let (_r, t) = crate::run::as_participant(0, 0, || {
                        crate::run::trigger_never();
                        crate::ops::exec(&cache, &w.dirs, &w.op, &Default::default())
                    });
                    crate::shim::set_controller(None);
                    rep.evaluations += 1;
                    rep.states += 1;
                    rep.traces += 1;
                    rep.transitions += t.len() as u64;
                    rep.count("earlier_handle_cases", 1);
                    let mut got = Vec::new();
                    let _ = crate::shim::passthrough(|| earlier.read_to_end(&mut got));
                    if got != scn::v_old().bytes() {
                        rep.violation(
                            "history:published-value-rewritten",
                            format!(
                                "{} with call {} ({}) failing {:?}: a handle obtained before the write now reads {} instead of the value it was given",
                                scn.to_json(), k, trace[k].func, a, world::describe_bytes(&got)
                            ),
                            serde_json::json!({"earlier_handle_section": true}),
                        );
                    }
                }
            }
        }
    }
}

pub fn replay(case: &Value, rep: &mut Report) {
    if case.get("earlier_handle_section").is_some() {
        earlier_handle_section(Shard { index: 0, count: 1 }, rep);
        return;
    }
    if case.get("faulted_answers_section").is_some() {
        faulted_answers_section(Shard { index: 0, count: 1 }, rep);
        return;
    }
    if case.get("staged_source_section").is_some() {
        staged_source_section(Shard { index: 0, count: 1 }, rep);
        return;
    }
    crate::sched::install_hooks();
    let mut all = programs(Tier::Thorough);
    all.extend(seq_programs(Tier::Thorough).into_iter().map(|(p, present)| (p, Mode::Bounded(0), present)));
    let name = case["program"].as_str().unwrap_or("").to_string();
    let present = all.iter().find(|p| p.0.name == name).map(|p| p.2).unwrap_or(false);
    let init = if present { Some(v0()) } else { None };
    let progs: Vec<Program> = all.into_iter().map(|p| p.0).collect();
    let mut chk = |x: &Execution| check(x, init);
    e1::replay_case("C04", &progs, case, rep, &|| RunOpts::default(), &mut chk);
}
