//! C11 — sequential histories behave like a key-value map with explainable evictions.
//!
//! E4: explicit-state breadth-first search over operation histories.  A state is reached by
//! replaying a history on a fresh directory with the real code; its canonical key is the
//! directory contents (names, values, mtime rank with ties, read marks) plus every handle's
//! in-memory load estimates.  Every step is checked against a map model in which an entry
//! may only vanish as a Second Chance victim of a maintenance visible in the call trace.
use crate::ops::{self, Pop, K};
use crate::props::c08::classical;
use crate::props::c15;
use crate::report::{Report, Shard, Tier};
use crate::run;
use crate::shim::{self, Ev, Kind};
use crate::world::{self, Scratch, Snapshot, Val};
use serde_json::{json, Value};
use std::collections::{BTreeMap, BTreeSet, HashSet};
use std::io::Read;
use std::path::{Path, PathBuf};

#[derive(Clone, Copy, Debug, PartialEq, Eq, Hash)]
pub enum FrontKind {
    Plain,
    Sharded(usize),
    /// stacked Cache: sharded(2) writer + one plain read-only level holding key 0
    Stack,
    /// the same with the library's byte-equality consistency checker configured (every lookup compares all copies;
    /// ensure also compares what populate produces, which here is the read-only level's value for key 0)
    StackChecked,
    /// the same n-shard directory through two kinds of handle: even handles are stacked Caches built with the generic
    /// `CacheBuilder::writer(dir, n, capacity)`, odd ones `sharded::Cache::new(dir, n, capacity)`
    Generic(usize),
}

impl FrontKind {
    pub fn is_stack(&self) -> bool {
        matches!(self, FrontKind::Stack | FrontKind::StackChecked)
    }
}

#[derive(Clone, Copy, Debug, PartialEq, Eq, Hash)]
pub enum CapMode {
    /// per-directory capacity 2: evictions happen all the time
    Tight,
    /// capacity 2^40: nothing is ever evicted
    Roomy,
    /// sharded: total capacity 2 * shards + 1, which the shards do not divide: each directory holds
    /// ceil(total / shards) = 3 files before anything may be evicted from it
    Odd,
    /// sharded: total capacity shards - 1, below the shard count (it is raised to one file per shard)
    Tiny,
}

#[derive(Clone, Debug)]
pub struct Config {
    pub front: FrontKind,
    pub cap: CapMode,
    pub handles: usize,
    pub nkeys: usize,
    /// the key whose two hashes land on the same shard (secondary = next shard, by the distinctness fix-up) comes
    /// first in the key list instead of last
    pub fixup_first: bool,
    /// every directory's `.kismet_temp` starts with two-hour-old debris named like the keys (files a writer staged under
    /// the key's own name long ago and never published): reclaiming debris is no reason for a cached entry to go
    pub stale_temp: bool,
}

impl Config {
    fn label(&self) -> String {
        format!("{:?}/{:?}/h{}/k{}{}", self.front, self.cap, self.handles, self.nkeys, if self.fixup_first { "/fixup-key-first" } else if self.stale_temp { "/stale-temp-files-named-like-keys" } else { "" })
    }
    fn nshards(&self) -> usize {
        match self.front {
            FrontKind::Plain => 1,
            FrontKind::Sharded(n) | FrontKind::Generic(n) => n,
            FrontKind::Stack | FrontKind::StackChecked => 2,
        }
    }
    fn dir_capacity(&self) -> usize {
        match self.cap {
            CapMode::Tight => 2,
            CapMode::Roomy => 1 << 40,
            CapMode::Odd => (2 * self.nshards() + 1).div_ceil(self.nshards()),
            CapMode::Tiny => 1,
        }
    }
    fn total_capacity(&self) -> usize {
        match self.cap {
            CapMode::Tight => 2 * self.nshards(),
            CapMode::Roomy => 1 << 40,
            CapMode::Odd => 2 * self.nshards() + 1,
            CapMode::Tiny => self.nshards() - 1,
        }
    }
    fn keys(&self) -> Vec<K> {
        let n = self.nshards().max(2);
        let mut v = vec![
            ops::key_for_shards("ka", 0, 1, n),
            ops::key_for_shards("kb", 0, 1, n),
            ops::key_for_shards("kc", 1, 0, n),
            // secondary image equals the primary: the distinctness fix-up applies
            K::new("kd", ops::hash_for_primary(0, n), ops::hash_for_secondary(0, n)),
        ];
        if self.fixup_first {
            v.rotate_right(1);
        }
        v.truncate(self.nkeys);
        v
    }
    /// does the trigger fire on every write regardless of the countdown?
    fn always_fires(&self) -> bool {
        let period = match self.front {
            FrontKind::Plain => self.dir_capacity() / 3,
            _ => self.dir_capacity().min(self.total_capacity() / 2),
        };
        period <= 1
    }
}

#[derive(Clone, Copy, Debug, PartialEq, Eq, Hash)]
pub enum HOp {
    Set(u8, u8),
    Put(u8),
    /// set / put whose source is another hard link to the file currently cached under the key (an
    /// application republishing a blob it keeps hard-linked; a retry after a crash between link and unlink)
    SetLinked(u8),
    PutLinked(u8),
    /// (stacked handles) set_temp_file / put_temp_file of the put value: the value is handed over as a temp-file object
    SetTemp(u8),
    PutTemp(u8),
    Get(u8),
    Touch(u8),
    Ensure(u8),
    /// (sharded handles) peers sharing the handle have left its in-memory load estimates in this pattern: 0 all
    /// zero, 1 ascending with the shard index, 2 descending, 3 only shard 0 loaded; operand = pattern
    Estimates(u8),
}

#[derive(Clone, Copy, Debug, PartialEq, Eq, Hash)]
pub struct Sym {
    pub handle: u8,
    pub op: HOp,
    pub fire: bool,
    pub shard_draw: u8,
}

impl Sym {
    fn to_json(&self) -> Value {
        json!([self.handle, format!("{:?}", self.op), self.fire, self.shard_draw])
    }
    fn from_json(v: &Value) -> Sym {
        let s = v[1].as_str().unwrap();
        let nums: Vec<u8> = s.chars().filter(|c| c.is_ascii_digit() || *c == ',').collect::<String>().split(',').filter(|x| !x.is_empty()).map(|x| x.trim().parse().unwrap()).collect();
        let op = if s.starts_with("SetTemp") {
            HOp::SetTemp(nums[0])
        } else if s.starts_with("PutTemp") {
            HOp::PutTemp(nums[0])
        } else if s.starts_with("SetLinked") {
            HOp::SetLinked(nums[0])
        } else if s.starts_with("PutLinked") {
            HOp::PutLinked(nums[0])
        } else if s.starts_with("Set") {
            HOp::Set(nums[0], nums[1])
        } else if s.starts_with("Put") {
            HOp::Put(nums[0])
        } else if s.starts_with("Get") {
            HOp::Get(nums[0])
        } else if s.starts_with("Estimates") {
            HOp::Estimates(nums[0])
        } else if s.starts_with("Touch") {
            HOp::Touch(nums[0])
        } else {
            HOp::Ensure(nums[0])
        };
        Sym { handle: v[0].as_u64().unwrap() as u8, op, fire: v[2].as_bool().unwrap(), shard_draw: v[3].as_u64().unwrap() as u8 }
    }
    fn is_write(&self) -> bool {
        matches!(self.op, HOp::Set(..) | HOp::Put(_) | HOp::Ensure(_) | HOp::SetLinked(_) | HOp::PutLinked(_) | HOp::SetTemp(_) | HOp::PutTemp(_))
    }
}

fn set_val(i: u8) -> Val {
    Val::one(i)
}
fn put_val() -> Val {
    Val::one(2)
}
fn ensure_val() -> Val {
    Val::one(3)
}
fn ro_val() -> Val {
    Val::one(4)
}

pub fn alphabet(cfg: &Config) -> Vec<Sym> {
    let mut v = Vec::new();
    let n = cfg.nshards();
    let sharded = !matches!(cfg.front, FrontKind::Plain);
    let mut envs: Vec<(bool, u8)> = Vec::new();
    if !cfg.always_fires() {
        envs.push((false, 0));
    }
    if sharded {
        let mut draws: Vec<u8> = vec![0, 1, (n - 1) as u8];
        draws.sort();
        draws.dedup();
        for d in draws {
            envs.push((true, d));
        }
    } else {
        envs.push((true, 0));
    }
    for h in 0..cfg.handles as u8 {
        for k in 0..cfg.nkeys as u8 {
            for &(fire, d) in &envs {
                for val in 0..2u8 {
                    v.push(Sym { handle: h, op: HOp::Set(k, val), fire, shard_draw: d });
                }
                v.push(Sym { handle: h, op: HOp::Put(k), fire, shard_draw: d });
                if !cfg.front.is_stack() && k == 0 && !fire {
                    v.push(Sym { handle: h, op: HOp::SetLinked(k), fire, shard_draw: d });
                    v.push(Sym { handle: h, op: HOp::PutLinked(k), fire, shard_draw: d });
                }
                if cfg.front.is_stack() {
                    v.push(Sym { handle: h, op: HOp::Ensure(k), fire, shard_draw: d });
                    if !fire {
                        v.push(Sym { handle: h, op: HOp::SetTemp(k), fire, shard_draw: d });
                        v.push(Sym { handle: h, op: HOp::PutTemp(k), fire, shard_draw: d });
                    }
                }
            }
            v.push(Sym { handle: h, op: HOp::Get(k), fire: false, shard_draw: 0 });
            v.push(Sym { handle: h, op: HOp::Touch(k), fire: false, shard_draw: 0 });
        }
        if matches!(cfg.front, FrontKind::Sharded(_)) {
            for p in 0..4u8 {
                v.push(Sym { handle: h, op: HOp::Estimates(p), fire: false, shard_draw: 0 });
            }
        }
    }
    v
}

enum Handle {
    Plain(kismet_cache::plain::Cache),
    Sharded(kismet_cache::sharded::Cache),
    Stack(kismet_cache::Cache),
}

struct Live {
    sc: Scratch,
    w: PathBuf,
    ro: PathBuf,
    app: PathBuf,
    handles: Vec<Handle>,
    model: BTreeMap<String, Val>,
    nsrc: u64,
}

#[derive(Debug, Clone, PartialEq)]
enum Got {
    Unit,
    Bool(bool),
    Miss,
    Hit(Vec<u8>),
    Err(String),
    Panic(String),
}

fn open_live(cfg: &Config) -> Live {
    run::reset_env();
    let sc = Scratch::new();
    let w = sc.path("w");
    let ro = sc.path("r0");
    let app = sc.path("app");
    shim::passthrough(|| {
        std::fs::create_dir_all(&w).unwrap();
        std::fs::create_dir_all(&app).unwrap();
    });
    if cfg.front.is_stack() {
        let old = run::base_time_ns() as i128 - 86_400_000_000_000;
        world::plant(&ro.join("ka"), &ro_val().bytes(), 0o444, old - 120_000_000_000, old);
        world::plant(&ro.join("other"), b"bystander", 0o444, old - 120_000_000_000, old);
    }
    let handles = (0..cfg.handles)
        .map(|hi| match cfg.front {
            FrontKind::Generic(n) if hi % 2 == 0 => Handle::Stack(kismet_cache::CacheBuilder::new().writer(&w, n, cfg.total_capacity()).take().build()),
            FrontKind::Generic(n) => Handle::Sharded(kismet_cache::sharded::Cache::new(w.clone(), n, cfg.total_capacity())),
            FrontKind::Plain => Handle::Plain(kismet_cache::plain::Cache::new(w.clone(), cfg.dir_capacity())),
            FrontKind::Sharded(n) => Handle::Sharded(kismet_cache::sharded::Cache::new(w.clone(), n, cfg.total_capacity())),
            FrontKind::Stack => Handle::Stack(
                kismet_cache::CacheBuilder::new()
                    .sharded_writer(&w, 2, cfg.total_capacity())
                    .plain_reader(&ro)
                    .take()
                    .build(),
            ),
            FrontKind::StackChecked => Handle::Stack(
                kismet_cache::CacheBuilder::new()
                    .sharded_writer(&w, 2, cfg.total_capacity())
                    .plain_reader(&ro)
                    .byte_equality_checker()
                    .take()
                    .build(),
            ),
        })
        .collect();
    let mut model = BTreeMap::new();
    if cfg.cap == CapMode::Odd {
        // start from a shard that is exactly full: ceil(total / shards) day-old unread entries in shard 0 (a candidate
        // shard of every key); nothing may leave it until a further entry arrives
        let day = run::base_time_ns() as i128 - 86_400_000_000_000;
        let dir = w.join(ops::shard_dir_name(0));
        for (i, k) in cfg.keys().iter().take(cfg.dir_capacity()).enumerate() {
            let val = Val::one(5 + i as u8);
            let m = day - (10 - i as i128) * 60_000_000_000;
            world::plant(&dir.join(&k.name), &val.bytes(), 0o444, m - 120_000_000_000, m);
            model.insert(k.name.clone(), val);
        }
    }
    if cfg.stale_temp {
        let stale = run::base_time_ns() as i128 - 7_200_000_000_000;
        let mut homes = vec![w.clone()];
        if cfg.nshards() > 1 {
            homes = (0..cfg.nshards()).map(|s| w.join(ops::shard_dir_name(s))).collect();
        }
        for h in homes {
            for k in cfg.keys() {
                world::plant(&h.join(".kismet_temp").join(&k.name), b"staged long ago", 0o600, stale, stale);
            }
        }
    }
    Live { sc, w, ro, app, handles, model, nsrc: 0 }
}

fn read_all(mut f: std::fs::File) -> Vec<u8> {
    let mut b = Vec::new();
    let _ = f.read_to_end(&mut b);
    b
}

fn io_got<T>(r: std::io::Result<T>, f: impl FnOnce(T) -> Got) -> Got {
    match r {
        Ok(x) => f(x),
        Err(e) => Got::Err(format!("{:?}: {}", e.kind(), e)),
    }
}

/// Executes `sym` on the live world; returns (result, trace, source path if any).
fn exec(live: &mut Live, cfg: &Config, sym: &Sym) -> (Got, Vec<Ev>, Option<PathBuf>) {
    let keys = cfg.keys();
    let (kidx, val) = match sym.op {
        HOp::Set(k, v) => (k, Some(set_val(v))),
        HOp::Put(k) => (k, Some(put_val())),
        HOp::SetLinked(k) | HOp::PutLinked(k) | HOp::SetTemp(k) | HOp::PutTemp(k) => (k, Some(put_val())),
        HOp::Ensure(k) => (k, Some(ensure_val())),
        HOp::Get(k) | HOp::Touch(k) => (k, None),
        HOp::Estimates(_) => (0, None),
    };
    let key = keys[kidx as usize].clone();
    let mut src = None;
    let needs_src = matches!(sym.op, HOp::Set(..) | HOp::Put(_) | HOp::SetLinked(_) | HOp::PutLinked(_)) && !matches!(live.handles[sym.handle as usize], Handle::Stack(_));
    if needs_src {
        live.nsrc += 1;
        let p = live.app.join(format!("src{}", live.nsrc));
        let linked = matches!(sym.op, HOp::SetLinked(_) | HOp::PutLinked(_));
        let existing: Option<PathBuf> = if linked {
            candidate_dirs(cfg, Some(&key)).iter().map(|d| live.w.join(d).join(&key.name)).find(|c| world::lstat(c).is_some())
        } else {
            None
        };
        shim::passthrough(|| match &existing {
            Some(e) => std::fs::hard_link(e, &p).unwrap(),
            None => std::fs::write(&p, val.unwrap().bytes()).unwrap(),
        });
        src = Some(p);
    }
    let handle = &live.handles[sym.handle as usize];
    let app = live.app.clone();
    let srcp = src.clone();
    let fire = sym.fire;
    let draw = sym.shard_draw as u64;
    let op = sym.op;
    let checked = cfg.front == FrontKind::StackChecked;
    let (r, trace) = run::as_participant(sym.handle as i32, 0, move || {
        if fire {
            run::trigger_fire_next(u64::MAX);
        } else {
            run::trigger_never();
        }
        run::shard_draws(&[], Some(draw));
        let k = key.key();
        match (handle, op) {
            (Handle::Plain(c), HOp::Set(..)) | (Handle::Plain(c), HOp::SetLinked(_)) => io_got(c.set(k.name, srcp.as_ref().unwrap()), |_| Got::Unit),
            (Handle::Plain(c), HOp::Put(_)) | (Handle::Plain(c), HOp::PutLinked(_)) => io_got(c.put(k.name, srcp.as_ref().unwrap()), |_| Got::Unit),
            (Handle::Plain(c), HOp::Get(_)) => io_got(c.get(k.name), |o| o.map(|f| Got::Hit(read_all(f))).unwrap_or(Got::Miss)),
            (Handle::Plain(c), HOp::Touch(_)) => io_got(c.touch(k.name), Got::Bool),
            (Handle::Sharded(c), HOp::Set(..)) | (Handle::Sharded(c), HOp::SetLinked(_)) => io_got(c.set(k, srcp.as_ref().unwrap()), |_| Got::Unit),
            (Handle::Sharded(c), HOp::Put(_)) | (Handle::Sharded(c), HOp::PutLinked(_)) => io_got(c.put(k, srcp.as_ref().unwrap()), |_| Got::Unit),
            (Handle::Sharded(c), HOp::Get(_)) => io_got(c.get(k), |o| o.map(|f| Got::Hit(read_all(f))).unwrap_or(Got::Miss)),
            (Handle::Sharded(c), HOp::Touch(_)) => io_got(c.touch(k), Got::Bool),
            (Handle::Sharded(c), HOp::Estimates(p)) => {
                let n = c.verif_load_estimates().len();
                for i in 0..n {
                    let v = match p {
                        0 => 0,
                        1 => i as u8,
                        2 => (n - i) as u8,
                        _ => {
                            if i == 0 {
                                5
                            } else {
                                0
                            }
                        }
                    };
                    c.verif_set_load_estimate(i, v);
                }
                Got::Unit
            }
            (Handle::Stack(c), _) => {
                let dirs = ops::Dirs { write: PathBuf::new(), reads: vec![], app_tmp: app.clone() };
                let o = match op {
                    HOp::Set(_, v) => ops::Op::Set(key.clone(), set_val(v)),
                    HOp::Put(_) | HOp::SetLinked(_) | HOp::PutLinked(_) => ops::Op::Put(key.clone(), put_val()),
                    HOp::SetTemp(_) => ops::Op::SetTemp(key.clone(), put_val()),
                    HOp::PutTemp(_) => ops::Op::PutTemp(key.clone(), put_val()),
                    HOp::Ensure(_) => ops::Op::Ensure(key.clone(), Pop::Value(if checked && key.name == "ka" { ro_val() } else { ensure_val() })),
                    HOp::Get(_) => ops::Op::Get(key.clone()),
                    HOp::Touch(_) | HOp::Estimates(_) => ops::Op::Touch(key.clone()),
                };
                match ops::exec(c, &dirs, &o, &Default::default()).res {
                    ops::Res::Unit => Got::Unit,
                    ops::Res::Bool(b) => Got::Bool(b),
                    ops::Res::Miss => Got::Miss,
                    ops::Res::Hit(b) => Got::Hit(b),
                    ops::Res::HitUnread => Got::Hit(vec![]),
                    ops::Res::Err(k, _, m) => Got::Err(format!("{:?}: {}", k, m)),
                    ops::Res::Panic(p) => Got::Panic(p),
                }
            }
            _ => Got::Err("ensure is only available on the stacked front-end".into()),
        }
    });
    let got = match r {
        Ok(g) => g,
        Err(p) => Got::Panic(p),
    };
    (got, trace, src)
}

/// Key-named files of the write side: relative path -> (dir, name).
fn entries(snap: &Snapshot) -> BTreeMap<String, (String, String)> {
    let mut m = BTreeMap::new();
    for (rel, n) in snap {
        if n.kind != 'f' || rel.contains(".kismet_temp") {
            continue;
        }
        let p = Path::new(rel);
        let name = p.file_name().unwrap().to_string_lossy().into_owned();
        if name.starts_with('.') {
            continue;
        }
        let dir = p.parent().map(|d| d.to_string_lossy().into_owned()).unwrap_or_default();
        m.insert(rel.clone(), (dir, name));
    }
    m
}

/// Is the delta of one directory a Second Chance outcome?  `evicted`: names unlinked by
/// maintenance; `restamped`: survivors whose mtime changed, in new-mtime order.
fn delta_explained(before: &[(String, i128, bool)], capacity: usize, evicted: &BTreeSet<String>, restamped: &[String]) -> bool {
    let n = before.len();
    if n <= capacity {
        return evicted.is_empty() && restamped.is_empty();
    }
    if evicted.len() != n - capacity {
        return false;
    }
    let idx = |name: &String| before.iter().position(|e| &e.0 == name);
    let ev: BTreeSet<u32> = evicted.iter().filter_map(|e| idx(e)).map(|i| i as u32).collect();
    let mv: Vec<u32> = restamped.iter().filter_map(|e| idx(e)).map(|i| i as u32).collect();
    if ev.len() != evicted.len() || mv.len() != restamped.len() {
        return false;
    }
    // brute force over tie orders (directories here hold <= 6 files)
    let mut order: Vec<u32> = (0..n as u32).collect();
    order.sort_by_key(|&i| before[i as usize].1);
    fn rec(order: &mut Vec<u32>, k: usize, before: &[(String, i128, bool)], capacity: usize, ev: &BTreeSet<u32>, mv: &[u32]) -> bool {
        if k == order.len() {
            let q: Vec<(u32, bool)> = order.iter().map(|&i| (i, before[i as usize].2)).collect();
            let (e, m) = classical(&q, capacity);
            return e.iter().copied().collect::<BTreeSet<u32>>() == *ev && m == mv;
        }
        for j in k..order.len() {
            if before[order[j] as usize].1 != before[order[k] as usize].1 && j != k {
                continue;
            }
            // only permute inside a tie group: positions k..j must all share the mtime of position k
            if (k..=j).any(|x| before[order[x] as usize].1 != before[order[k] as usize].1) {
                continue;
            }
            order.swap(k, j);
            let ok = rec(order, k + 1, before, capacity, ev, mv);
            order.swap(k, j);
            if ok {
                return true;
            }
        }
        false
    }
    rec(&mut order, 0, before, capacity, &ev, &mv)
}

/// Applies `sym` to the live world and checks everything the property says about this step.
thread_local! {
    /// did the operation of the last `step` report an error or panic? (the fault section tolerates that)
    static LAST_FAILED: std::cell::Cell<bool> = const { std::cell::Cell::new(false) };
}

fn step(live: &mut Live, cfg: &Config, sym: &Sym, rep: &mut Report) -> Vec<(String, String)> {
    let mut bad = Vec::new();
    let keys = cfg.keys();
    let before = world::snapshot(&live.w);
    let ro_before = if cfg.front.is_stack() { Some(world::snapshot(&live.ro)) } else { None };
    let (got, trace, src) = exec(live, cfg, sym);
    LAST_FAILED.with(|f| f.set(matches!(got, Got::Err(_) | Got::Panic(_))));
    rep.transitions += trace.len() as u64;
    let after = world::snapshot(&live.w);
    let wroot = live.w.to_string_lossy().into_owned();
    // --- evictions visible in the trace
    let mut evicted_by_dir: BTreeMap<String, BTreeSet<String>> = BTreeMap::new();
    let mut listed: BTreeSet<String> = BTreeSet::new();
    let mut requeued_by_dir: BTreeMap<String, Vec<String>> = BTreeMap::new();
    // a forced maintenance (load estimate far above the capacity) runs *after* the operation's own publication: the
    // directory it lists then holds the new entry too.  (dir, name) published before the first listing of dir.
    let mut published_before_listing: Vec<(String, String)> = Vec::new();
    let mut listed_so_far: BTreeSet<String> = BTreeSet::new();
    for e in &trace {
        if matches!(e.kind, Kind::Rename | Kind::Link) && e.ok() {
            if let Some(p) = &e.path2 {
                if p.starts_with(&wroot) && !p.contains("/.kismet_temp/") {
                    let rel = p[wroot.len()..].trim_start_matches('/');
                    let pp = Path::new(rel);
                    let dir = pp.parent().map(|d| d.to_string_lossy().into_owned()).unwrap_or_default();
                    let name = pp.file_name().unwrap().to_string_lossy().into_owned();
                    if !listed_so_far.contains(&dir) {
                        published_before_listing.push((dir, name));
                    }
                }
            }
        }
        if e.kind == Kind::Opendir && e.ok() {
            if let Some(p) = &e.path {
                if p.starts_with(&wroot) && !p.ends_with(".kismet_temp") {
                    listed_so_far.insert(p[wroot.len()..].trim_start_matches('/').to_string());
                }
            }
        }
    }
    for e in &trace {
        if e.kind == Kind::Utimens && e.ok() && e.sets_mtime {
            if let Some(p) = &e.path {
                if p.starts_with(&wroot) && !p.contains("/.kismet_temp/") {
                    let rel = p[wroot.len()..].trim_start_matches('/');
                    let pp = Path::new(rel);
                    let dir = pp.parent().map(|d| d.to_string_lossy().into_owned()).unwrap_or_default();
                    let name = pp.file_name().unwrap().to_string_lossy().into_owned();
                    if !name.starts_with('.') {
                        requeued_by_dir.entry(dir).or_default().push(name);
                    }
                }
            }
        }
        if e.kind == Kind::Opendir && e.ok() {
            if let Some(p) = &e.path {
                if p.starts_with(&wroot) && !p.ends_with(".kismet_temp") {
                    listed.insert(p[wroot.len()..].trim_start_matches('/').to_string());
                }
            }
        }
        if e.kind == Kind::Unlink && e.ok() {
            if let Some(p) = &e.path {
                if p.starts_with(&wroot) && !p.contains("/.kismet_temp/") {
                    let rel = p[wroot.len()..].trim_start_matches('/');
                    let pp = Path::new(rel);
                    let dir = pp.parent().map(|d| d.to_string_lossy().into_owned()).unwrap_or_default();
                    let name = pp.file_name().unwrap().to_string_lossy().into_owned();
                    evicted_by_dir.entry(dir).or_default().insert(name);
                }
            }
        }
    }
    let eb = entries(&before);
    let ea = entries(&after);
    // every unlink must be part of a maintenance of a listed, over-capacity directory, and be explainable
    let all_dirs: BTreeSet<String> = eb.values().map(|v| v.0.clone()).chain(listed.iter().cloned()).collect();
    for dir in &all_dirs {
        let before_entries: Vec<(String, i128, bool)> = eb
            .iter()
            .filter(|(_, v)| &v.0 == dir)
            .map(|(rel, v)| (v.1.clone(), before[rel].meta.mtime, before[rel].meta.accessed()))
            .collect();
        let mut before_entries = before_entries;
        for (d, name) in &published_before_listing {
            if d == dir && listed.contains(dir) {
                // the freshly published entry: newest, unread (replacing what the key held there before)
                before_entries.retain(|e| &e.0 != name);
                before_entries.push((name.clone(), i128::MAX / 4, false));
            }
        }
        let ev = evicted_by_dir.get(dir).cloned().unwrap_or_default();
        // re-queued entries, in order, read off the trace: a re-queue is a timestamp update that sets the
        // mtime of an entry of this directory (the snapshot alone would miss an entry that is re-queued and
        // then replaced by the operation's own set)
        let restamped: Vec<String> = requeued_by_dir.get(dir).cloned().unwrap_or_default();
        if !listed.contains(dir) {
            if !ev.is_empty() || !restamped.is_empty() {
                bad.push(("eviction-without-maintenance".into(), format!("entries {:?} removed / {:?} re-queued in {:?} although that directory was not listed", ev, restamped, dir)));
            }
            continue;
        }
        if !delta_explained(&before_entries, cfg.dir_capacity(), &ev, &restamped) {
            bad.push((
                "unexplained-eviction".into(),
                format!(
                    "maintenance of {:?} (capacity {}, {} files) removed {:?} and re-queued {:?}: not a Second Chance outcome",
                    dir,
                    cfg.dir_capacity(),
                    before_entries.len(),
                    ev,
                    restamped
                ),
            ));
        }
        for name in &ev {
            // the victim leaves the model only if it was the copy the model knows about
            let cands = candidate_dirs(cfg, keys.iter().find(|k| &k.name == name));
            if cands.contains(dir) {
                live.model.remove(name);
            }
        }
    }
    // --- result against the map model (maintenance precedes the operation's own effect)
    let (kidx, _) = match sym.op {
        HOp::Set(k, v) => (k, Some(v)),
        HOp::Put(k) | HOp::Get(k) | HOp::Touch(k) | HOp::Ensure(k) | HOp::SetLinked(k) | HOp::PutLinked(k) | HOp::SetTemp(k) | HOp::PutTemp(k) => (k, None),
        HOp::Estimates(_) => (0, None),
    };
    let key = &keys[kidx as usize];
    let ro_has = cfg.front.is_stack() && key.name == "ka";
    let in_model = live.model.get(&key.name).copied();
    let checked = cfg.front == FrontKind::StackChecked;
    // with the checker every lookup compares all present copies (ensure also what populate produces): any
    // disagreement is an error and changes nothing
    let populated = if checked && key.name == "ka" { ro_val() } else { ensure_val() };
    let copies: Vec<Val> = in_model.into_iter().chain(if ro_has { Some(ro_val()) } else { None }).collect();
    let disagree = |extra: Option<Val>| -> bool {
        let all: Vec<Val> = copies.iter().copied().chain(extra).collect();
        checked && all.windows(2).any(|w| w[0] != w[1])
    };
    let mismatch = Got::Err("<a mismatch reported by the consistency checker>".into());
    let expect: Got = match sym.op {
        HOp::Set(_, v) => {
            live.model.insert(key.name.clone(), set_val(v));
            Got::Unit
        }
        HOp::Put(_) | HOp::PutTemp(_) => {
            live.model.entry(key.name.clone()).or_insert(put_val());
            Got::Unit
        }
        HOp::SetTemp(_) => {
            live.model.insert(key.name.clone(), put_val());
            Got::Unit
        }
        HOp::SetLinked(_) | HOp::PutLinked(_) => {
            // the source holds the cached value itself (or, when the key is absent, the put value)
            live.model.entry(key.name.clone()).or_insert(put_val());
            Got::Unit
        }
        HOp::Get(_) if disagree(None) => mismatch.clone(),
        HOp::Get(_) => match in_model {
            Some(v) => Got::Hit(v.bytes()),
            None if ro_has => Got::Hit(ro_val().bytes()),
            None => Got::Miss,
        },
        HOp::Touch(_) => Got::Bool(in_model.is_some() || ro_has),
        HOp::Estimates(_) => Got::Unit,
        HOp::Ensure(_) if !copies.is_empty() && disagree(Some(populated)) => mismatch.clone(),
        HOp::Ensure(_) => match in_model {
            Some(v) => Got::Hit(v.bytes()),
            None if ro_has => {
                live.model.insert(key.name.clone(), ro_val());
                Got::Hit(ro_val().bytes())
            }
            None => {
                live.model.insert(key.name.clone(), populated);
                Got::Hit(populated.bytes())
            }
        },
    };
    let got = if matches!((&got, &expect), (Got::Err(_), Got::Err(_))) && expect == mismatch { mismatch.clone() } else { got };
    if got != expect {
        let show = |g: &Got| match g {
            Got::Hit(b) => format!("hit:{}", world::describe_bytes(b)),
            other => format!("{:?}", other),
        };
        bad.push((
            if matches!(got, Got::Miss) && in_model.is_some() { "lost-entry".into() } else { "wrong-result".into() },
            format!("{:?} on handle {} returned {}, the map model says {}", sym.op, sym.handle, show(&got), show(&expect)),
        ));
    }
    // --- state against the model
    let mut seen: BTreeMap<String, Vec<String>> = BTreeMap::new();
    for (rel, (dir, name)) in &ea {
        seen.entry(name.clone()).or_default().push(dir.clone());
        let k = keys.iter().find(|k| &k.name == name);
        let cands = candidate_dirs(cfg, k);
        if !cands.contains(dir) {
            bad.push(("misplaced-entry".into(), format!("{} lives in {:?}, outside its two candidate directories {:?}", name, dir, cands)));
        }
        let content = after[rel].content.as_deref().unwrap_or(&[]);
        match live.model.get(name) {
            Some(v) if v.bytes() == content => {}
            Some(v) => bad.push(("stale-or-wrong-content".into(), format!("{} holds {}, the model says {}", rel, world::describe_bytes(content), v.label()))),
            None => bad.push(("resurrected-entry".into(), format!("{} exists on disk but not in the model", rel))),
        }
    }
    for (name, dirs) in &seen {
        if dirs.len() > 1 {
            bad.push(("duplicate-entry".into(), format!("{} is stored in {} directories: {:?}", name, dirs.len(), dirs)));
        }
    }
    for name in live.model.keys() {
        if !seen.contains_key(name) {
            bad.push(("vanished-entry".into(), format!("{} is in the model but nowhere on disk, and no eviction explains it", name)));
        }
    }
    // --- a successful set/put consumes its source
    if let Some(s) = &src {
        if matches!(got, Got::Unit) && world::lstat(s).is_some() {
            bad.push(("source-not-consumed".into(), format!("{:?} succeeded but its source file still exists", sym.op)));
        }
        shim::passthrough(|| {
            let _ = std::fs::remove_file(s);
        });
    }
    // (debris planted by the configuration stays until a maintenance of its directory reclaims it)
    let planted_debris = |k: &str| cfg.stale_temp && keys.iter().any(|key| k.ends_with(&format!(".kismet_temp/{}", key.name)));
    if after.iter().any(|(k, n)| n.kind == 'f' && k.contains(".kismet_temp/") && !planted_debris(k)) {
        bad.push(("temp-leak".into(), "a temporary file was left behind".into()));
    }
    // --- the read-only level of the stacked front-end is never modified (C15's monitors)
    if let Some(rb) = ro_before {
        let ra = world::snapshot(&live.ro);
        for m in c15::mutations_under(&trace, std::slice::from_ref(&live.ro), &|p| p.ends_with("/ka")) {
            bad.push(("readonly-mutating-call".into(), m));
        }
        for v in c15::snapshot_violations(&rb, &ra, &|rel| rel == "ka") {
            bad.push(("readonly-changed".into(), v));
        }
    }
    bad
}

fn candidate_dirs(cfg: &Config, k: Option<&K>) -> Vec<String> {
    match (cfg.front, k) {
        (FrontKind::Plain, _) => vec![String::new()],
        (_, Some(k)) => {
            let (a, b) = ops::expected_shards(k.h1, k.h2, cfg.nshards());
            vec![ops::shard_dir_name(a), ops::shard_dir_name(b)]
        }
        (_, None) => vec![],
    }
}

/// Canonical key of the state the live world is in.
fn canon(live: &Live, cfg: &Config) -> String {
    let snap = world::snapshot(&live.w);
    let mut by_dir: BTreeMap<String, Vec<(String, String, i128, bool)>> = BTreeMap::new();
    for (rel, (dir, name)) in entries(&snap) {
        let n = &snap[&rel];
        by_dir.entry(dir).or_default().push((name, world::describe_bytes(n.content.as_deref().unwrap_or(&[])), n.meta.mtime, n.meta.accessed()));
    }
    let mut s = String::new();
    for (dir, mut v) in by_dir {
        let mut times: Vec<i128> = v.iter().map(|e| e.2).collect();
        times.sort();
        times.dedup();
        v.sort();
        s.push_str(&format!("[{}:", dir));
        for (name, val, mtime, acc) in v {
            let rank = times.iter().position(|t| *t == mtime).unwrap();
            s.push_str(&format!("{}={}@{}{};", name, val, rank, if acc { "*" } else { "" }));
        }
        s.push(']');
    }
    for h in &live.handles {
        if let Handle::Sharded(c) = h {
            s.push_str(&format!("{:?}", c.verif_load_estimates()));
        }
    }
    let _ = cfg;
    s
}

fn replay_history(cfg: &Config, hist: &[Sym], rep: &mut Report) -> (Live, Vec<(String, String)>) {
    let mut live = open_live(cfg);
    let mut scratch = Report::new("scratch");
    let mut bad = Vec::new();
    for (i, sym) in hist.iter().enumerate() {
        let last = i + 1 == hist.len();
        let b = step(&mut live, cfg, sym, if last { rep } else { &mut scratch });
        if last {
            bad = b;
        }
    }
    (live, bad)
}

fn case_json(cfg: &Config, hist: &[Sym]) -> Value {
    json!({
        "config": {"front": format!("{:?}", cfg.front), "cap": format!("{:?}", cfg.cap), "handles": cfg.handles, "nkeys": cfg.nkeys, "fixup_first": cfg.fixup_first, "stale_temp": cfg.stale_temp},
        "history": hist.iter().map(|s| s.to_json()).collect::<Vec<_>>(),
    })
}

fn parse_cfg(v: &Value) -> Config {
    let f = v["front"].as_str().unwrap();
    let front = if f == "Plain" {
        FrontKind::Plain
    } else if f == "Stack" {
        FrontKind::Stack
    } else if f == "StackChecked" {
        FrontKind::StackChecked
    } else if f.starts_with("Generic(") {
        FrontKind::Generic(f.trim_start_matches("Generic(").trim_end_matches(')').parse().unwrap())
    } else {
        FrontKind::Sharded(f.trim_start_matches("Sharded(").trim_end_matches(')').parse().unwrap())
    };
    Config {
        front,
        cap: match v["cap"].as_str().unwrap() {
            "Tight" => CapMode::Tight,
            "Odd" => CapMode::Odd,
            "Tiny" => CapMode::Tiny,
            _ => CapMode::Roomy,
        },
        handles: v["handles"].as_u64().unwrap() as usize,
        nkeys: v["nkeys"].as_u64().unwrap() as usize,
        fixup_first: v["fixup_first"].as_bool().unwrap_or(false),
        stale_temp: v["stale_temp"].as_bool().unwrap_or(false),
    }
}

/// BFS over histories of one configuration; this worker expands the subtrees whose first
/// symbol index is congruent to its shard index (dedup inside the worker).
fn bfs(cfg: &Config, depth: usize, shard: Shard, rep: &mut Report, wall_cap_s: f64) {
    let alpha = alphabet(cfg);
    let t0 = std::time::Instant::now();
    let mut seen: HashSet<u64> = HashSet::new();
    let mut frontier: Vec<Vec<Sym>> = vec![vec![]];
    let mut completed_depth = 0;
    let mut capped = false;
    let had_work = (0..alpha.len()).any(|si| shard.mine(si as u64));
    'outer: for d in 1..=depth {
        let mut next: Vec<Vec<Sym>> = Vec::new();
        for hist in &frontier {
            for (si, sym) in alpha.iter().enumerate() {
                if d == 1 && !shard.mine(si as u64) {
                    continue;
                }
                if t0.elapsed().as_secs_f64() > wall_cap_s {
                    capped = true;
                    break 'outer;
                }
                let mut h = hist.clone();
                h.push(*sym);
                let (live, bad) = replay_history(cfg, &h, rep);
                rep.evaluations += 1;
                rep.traces += 1;
                for (sig, msg) in bad {
                    rep.violation(format!("history:{}", sig), format!("{} after {} steps: {}", cfg.label(), h.len(), msg), case_json(cfg, &h));
                }
                let mut key = canon(&live, cfg);
                if cfg.front.is_stack() || matches!(cfg.front, FrontKind::Generic(_)) {
                    // the stacked Cache does not expose its writer's in-memory load estimates, which decide
                    // where new keys go: without them in the key, merging would not be sound, so every
                    // history of the stacked front-end is its own state (plain depth-bounded enumeration)
                    key.push_str(&format!("|{:?}", h));
                }
                let kh = world::fnv(format!("{}|{}", cfg.label(), key).as_bytes());
                if seen.insert(kh) {
                    rep.states += 1;
                    rep.outcomes.insert(kh);
                    if live.model.len() >= 2 {
                        rep.nontrivial.insert(kh);
                    }
                    next.push(h.clone());
                    if rep.samples.len() < 3 && h.len() == depth.min(3) && shard.index == 0 {
                        rep.sample(json!({"case": case_json(cfg, &h), "state": key}));
                    }
                }
            }
        }
        completed_depth = d;
        if next.is_empty() {
            if had_work {
                rep.count(&format!("subtrees_at_fixpoint[{}]", cfg.label()), 1);
            }
            break;
        }
        frontier = next;
    }
    if had_work {
        rep.count(&format!("subtrees[{}]", cfg.label()), 1);
        rep.fact(&format!("min_completed_depth[{}]", cfg.label()), json!(completed_depth));
    }
    if capped {
        rep.exhaustive = false;
        rep.fact(&format!("capped[{}]", cfg.label()), json!(true));
    }
}

/// Two-step histories whose second operation suffers one I/O fault (every call, two errnos each): if it
/// nevertheless reports success, the map model and the state oracle apply to it exactly as without a fault
/// ("set returned Ok but lookups still see the old value" is a stale read no eviction explains).
fn fault_section(shard: Shard, rep: &mut Report) {
    use crate::props::c18::{plausible, FailAt};
    use crate::shim::Controller;
    use std::sync::atomic::AtomicU64;
    use std::sync::{Arc, Mutex};
    let mut no = 0u64;
    for front in [FrontKind::Plain, FrontKind::Sharded(2)] {
        let cfg = Config { front, cap: CapMode::Roomy, handles: 1, nkeys: 2, fixup_first: false, stale_temp: false };
        let alpha: Vec<Sym> = alphabet(&cfg).into_iter().filter(|s| !s.fire).collect();
        for first in alpha.iter().filter(|s| s.is_write()) {
            for second in &alpha {
                // fault-free run to learn the second operation's calls
                let mut scratch = Report::new("scratch");
                let mut live = open_live(&cfg);
                step(&mut live, &cfg, first, &mut scratch);
                let t0 = shim::trace_len();
                step(&mut live, &cfg, second, &mut scratch);
                let trace = shim::trace_since(t0);
                drop(live);
                for (k, ev) in trace.iter().enumerate() {
                    if ev.kind == Kind::Read {
                        continue; // the application reading the handle it got: not a call of the library
                    }
                    for a in plausible(ev, false).into_iter().take(2) {
                        no += 1;
                        if !shard.mine(no) {
                            continue;
                        }
                        let mut live = open_live(&cfg);
                        step(&mut live, &cfg, first, &mut scratch);
                        let ctl = Arc::new(FailAt { faults: vec![(k as u64, a)], kinds: vec![Some(ev.kind)], n: AtomicU64::new(0), hit: Mutex::new(vec![]) });
                        shim::set_controller(Some(ctl.clone() as Arc<dyn Controller>));
                        let bad = step(&mut live, &cfg, second, &mut scratch);
                        shim::set_controller(None);
                        rep.evaluations += 1;
                        rep.traces += 1;
                        rep.count("faulted_second_step_cases", 1);
                        if LAST_FAILED.with(|f| f.get()) || ctl.hit.lock().unwrap().is_empty() {
                            continue;
                        }
                        // a lookup whose probe was answered with an absence errno may report a miss
                        let absence = matches!(a, crate::shim::Action::Fail(libc::ENOENT) | crate::shim::Action::Fail(libc::ESTALE));
                        for (sig, msg) in bad {
                            if absence && (sig == "lost-entry" || sig == "wrong-result") {
                                continue;
                            }
                            if sig == "temp-leak" || sig == "source-not-consumed" {
                                continue; // C18's business under faults
                            }
                            rep.violation(
                                format!("history:{}-after-fault", sig),
                                format!("{} history [{:?}, {:?}] with call {} ({}) of the second operation failing {:?}, which still reported success: {}", cfg.label(), first.op, second.op, k, ev.func, a, msg),
                                json!({"fault_section": true}),
                            );
                        }
                    }
                }
            }
        }
    }
}

pub fn configs(tier: Tier) -> Vec<(Config, usize)> {
    let mut v = Vec::new();
    let q = tier == Tier::Quick;
    let fronts: Vec<FrontKind> = if q {
        vec![FrontKind::Plain, FrontKind::Sharded(2), FrontKind::Sharded(3), FrontKind::Stack, FrontKind::StackChecked]
    } else {
        vec![FrontKind::Plain, FrontKind::Sharded(2), FrontKind::Sharded(3), FrontKind::Sharded(8), FrontKind::Stack, FrontKind::StackChecked]
    };
    // the key subject to the distinctness fix-up, alone and with one neighbour, on 3 and 4 shards (its secondary shard
    // is a function of the hashes alone, whatever the load estimates say)
    for front in [FrontKind::Sharded(3), FrontKind::Sharded(4)] {
        v.push((Config { front, cap: CapMode::Roomy, handles: 1, nkeys: 1, fixup_first: true, stale_temp: false }, if q { 4 } else { 6 }));
        v.push((Config { front, cap: CapMode::Tight, handles: 1, nkeys: 2, fixup_first: true, stale_temp: false }, if q { 3 } else { 5 }));
    }
    // one directory through the generic builder entry point and through an explicitly sharded handle, with a capacity
    // below the shard count
    for n in [3usize, 4] {
        v.push((Config { front: FrontKind::Generic(n), cap: CapMode::Tiny, handles: 2, nkeys: 2, fixup_first: false, stale_temp: false }, if q { 3 } else { 5 }));
        v.push((Config { front: FrontKind::Generic(n), cap: CapMode::Roomy, handles: 2, nkeys: 2, fixup_first: false, stale_temp: false }, if q { 3 } else { 4 }));
    }
    // stale temp files named like the keys
    for front in [FrontKind::Plain, FrontKind::Stack] {
        v.push((Config { front, cap: CapMode::Tight, handles: 1, nkeys: 2, fixup_first: false, stale_temp: true }, if q { 3 } else { 5 }));
    }
    // total capacities that the shard count does not divide
    for front in [FrontKind::Sharded(3), FrontKind::Sharded(4)] {
        v.push((Config { front, cap: CapMode::Odd, handles: 1, nkeys: 4, fixup_first: false, stale_temp: false }, if q { 4 } else { 6 }));
    }
    for front in fronts {
        for cap in [CapMode::Tight, CapMode::Roomy] {
            if q {
                let stack = front.is_stack();
                v.push((Config { front, cap, handles: 1, nkeys: if stack { 2 } else { 3 }, fixup_first: false, stale_temp: false }, if stack { 3 } else { 4 }));
                v.push((Config { front, cap, handles: 2, nkeys: 2, fixup_first: false, stale_temp: false }, if stack { 2 } else { 3 }));
            } else {
                v.push((Config { front, cap, handles: 1, nkeys: 4, fixup_first: false, stale_temp: false }, 5));
                v.push((Config { front, cap, handles: 2, nkeys: 3, fixup_first: false, stale_temp: false }, 4));
                v.push((Config { front, cap, handles: 3, nkeys: 2, fixup_first: false, stale_temp: false }, 4));
            }
        }
    }
    v
}

pub fn run(tier: Tier, shard: Shard, rep: &mut Report) {
    rep.rule = "breadth-first search over operation histories issued one at a time through 1-3 independent handles (own in-memory load \
        estimates) on the same directories: front-ends plain, sharded (2, 3, 8 shards), the generic builder entry point next to an explicitly sharded handle (3, 4 shards; capacity below the shard count), stacked (sharded writer + plain read-only level; \
        with and without the library's byte-equality checker, under which disagreeing copies must make the lookup fail and change nothing); \
        keys with the same shard pair, the swapped pair, and one whose secondary image equals its primary (fix-up); alphabet per handle \
        {set k A|B, put k C, get k, touch k, (stacked) ensure k D, (sharded) the handle's load estimates left in one of four patterns by peers} x environment answers {trigger fires / does not, random other shard \
        in {0, 1, n-1}}; capacities 'tight' (2 per directory: evictions all the time), 'roomy' (2^40) and 'odd' (2 x shards + 1 on 3 and 4 \
        shards: a total the shard count does not divide; each directory holds ceil(total/shards) files; these searches start from a \
        shard that is exactly full); plain and stacked also starting with two-hour-old temp files named like the keys in every .kismet_temp. States are deduplicated on a \
        canonical key (per directory: name, value, mtime rank with ties, read mark; per handle: load estimates) inside each worker; \
        every step is checked against a map model in which an entry may vanish only as a Second Chance victim of a maintenance whose \
        opendir and unlinks are in the call trace (decided by brute force over tie orders), plus: no key in two directories or outside \
        its two candidates, sources consumed, no temp residue, read-only level untouched. plus two-step histories whose second operation suffers each single I/O fault and still reports success (the same \
        oracle applies). states = distinct canonical keys (union over workers); non-trivial = states with >= 2 live keys."
        .into();
    rep.assumptions = vec![
        "environment answers (fire / not, shard draw) are enumerated as a superset of what the real countdown can produce".into(),
        "histories longer than the completed depth are covered only where the search reached a fixpoint (reported per configuration)".into(),
    ];
    rep.max_samples = 3;
    let wall = if tier == Tier::Quick { 40.0 } else { 1500.0 };
    let cfgs = configs(tier);
    let per = wall / cfgs.len() as f64;
    for (cfg, depth) in cfgs {
        bfs(&cfg, depth, shard, rep, per);
    }
    fault_section(shard, rep);
}

pub fn replay(case: &Value, rep: &mut Report) {
    if case.get("fault_section").is_some() {
        fault_section(Shard { index: 0, count: 1 }, rep);
        return;
    }
    let cfg = parse_cfg(&case["config"]);
    let hist: Vec<Sym> = case["history"].as_array().unwrap().iter().map(Sym::from_json).collect();
    let (_live, bad) = replay_history(&cfg, &hist, rep);
    rep.evaluations += 1;
    rep.states += 1;
    rep.traces += 1;
    for (sig, msg) in bad {
        rep.violation(format!("history:{}", sig), format!("{} after {} steps: {}", cfg.label(), hist.len(), msg), case_json(&cfg, &hist));
    }
}
