//! C20 — per-operation resource use is constant.
use crate::ops::{self, Checker, Dirs, Front, Op, Pop, StackCfg, K};
use crate::report::{Report, Shard, Tier};
use crate::run;
use crate::shim::{self, Ev, Kind};
use crate::world::{self, Scratch, Val};
use serde_json::{json, Value};
use std::collections::BTreeMap;

const SCENARIOS: [&str; 18] = [
    // the handle has already performed `size` writes (its in-memory state, e.g. the sharded load estimates, differs)
    "warm_put", "warm_set",
    "get_hit_all_levels", "touch_hit_all_levels", "ensure_hit_all_levels",
    "get_hit", "get_miss", "get_hit_last_level", "touch_hit", "touch_miss", "set_new", "set_existing", "put_insert", "put_hit",
    "ensure_hit", "ensure_miss", "ensure_promote", "set_temp_file",
];
const SIZES_QUICK: [usize; 4] = [0, 10, 100, 2000];
const SIZES_THOROUGH: [usize; 5] = [0, 10, 100, 2000, 20000];

fn all_sizes() -> &'static [usize] {
    if crate::props::e1::THOROUGH.load(std::sync::atomic::Ordering::SeqCst) {
        &SIZES_THOROUGH
    } else {
        &SIZES_QUICK
    }
}

#[derive(Clone, Debug)]
pub struct Case {
    pub scenario: String,
    pub sharded: bool,
    pub depth: usize,
    pub checker: bool,
    /// 0: maintenance does not fire.  1: it fires on an over-full directory (every third entry read since insertion, so
    /// the pass evicts and re-queues).  2: the same, and .kismet_temp holds a stale file, a young file and a stale
    /// three-level directory tree (what a writer staging a multi-file value leaves behind when it dies)
    pub maint: u8,
    /// (checker cells) the copies in the read-only levels hold another value than the first copy found: the
    /// comparison fails, and the bounds hold on that path too
    pub disagree: bool,
    /// (checker cells) every copy is a value of 1 MiB + 1 byte (size must not change what is held open)
    pub big: bool,
}

impl Case {
    fn to_json(&self) -> Value {
        json!({"scenario": self.scenario, "sharded": self.sharded, "depth": self.depth, "checker": self.checker, "maint": self.maint, "disagree": self.disagree, "big": self.big})
    }
    fn from_json(v: &Value) -> Case {
        Case {
            scenario: v["scenario"].as_str().unwrap().to_string(),
            sharded: v["sharded"].as_bool().unwrap(),
            depth: v["depth"].as_u64().unwrap() as usize,
            checker: v["checker"].as_bool().unwrap(),
            maint: v["maint"].as_u64().unwrap_or(0) as u8,
            disagree: v["disagree"].as_bool().unwrap_or(false),
            big: v["big"].as_bool().unwrap_or(false),
        }
    }
}

thread_local! {
    /// depth of the stale directory tree planted in .kismet_temp by maint == 2 cases
    static TREE_DEPTH: std::cell::Cell<usize> = const { std::cell::Cell::new(3) };
}

struct Obs {
    trace: Vec<Ev>,
    counts: BTreeMap<&'static str, u64>,
    peak: usize,
    residual: usize,
    proc_residual: i64,
    locks: u64,
    opens_per_dir: BTreeMap<String, u64>,
    result: String,
    events: usize,
    listed: u64,
}

fn key() -> K {
    ops::key_for_shards("key", 1, 2, 3)
}

fn populate_dir(root: &std::path::Path, sharded: bool, n: usize, old: i128) {
    shim::passthrough(|| {
        std::fs::create_dir_all(root).unwrap();
        if sharded {
            // the directory structure is the same for every size; only the entry count varies
            for s in 0..3 {
                std::fs::create_dir_all(root.join(ops::shard_dir_name(s))).unwrap();
            }
        }
    });
    for i in 0..n {
        let d = if sharded { root.join(ops::shard_dir_name(1 + (i % 2))) } else { root.to_path_buf() };
        world::plant(&d.join(format!("e{:05}", i)), b"x", 0o444, old - 120_000_000_000, old);
    }
}

fn c_val() -> Val {
    Val::one(2)
}

fn count_proc_fds() -> i64 {
    shim::passthrough(|| std::fs::read_dir("/proc/self/fd").map(|d| d.count() as i64).unwrap_or(-1))
}

fn observe(case: &Case, size: usize) -> Obs {
    observe_with(case, size, None)
}

fn observe_with(case: &Case, size: usize, ctl: Option<std::sync::Arc<dyn shim::Controller>>) -> Obs {
    run::reset_env();
    let sc = Scratch::new();
    let dirs = Dirs::under(&sc.root, case.depth - 1);
    let old = run::base_time_ns() as i128 - 86_400_000_000_000;
    let front = if case.sharded { Front::Sharded(3) } else { Front::Plain };
    let warm = case.scenario.starts_with("warm_");
    populate_dir(&dirs.write, case.sharded, if warm { 0 } else { size }, old);
    for r in &dirs.reads {
        populate_dir(r, false, if warm { 0 } else { size }, old);
    }
    let k = key();
    let a = Val::new(0, world::Size::Five);
    // (big cells: a value of 1 MiB + 1 byte, the same in every level)
    let a_bytes: Vec<u8> = if case.big { vec![b'A'; (1 << 20) + 1] } else { a.bytes() };
    let wpath = ops::candidate_dirs(&dirs.write, front, &k)[0].join("key");
    let everywhere = case.scenario.ends_with("_all_levels");
    let in_write = everywhere || matches!(case.scenario.as_str(), "get_hit" | "touch_hit" | "set_existing" | "put_hit" | "ensure_hit");
    let in_last = matches!(case.scenario.as_str(), "get_hit_last_level" | "ensure_promote");
    if in_write {
        world::plant(&wpath, &a_bytes, 0o444, old - 120_000_000_000, old);
    }
    if in_last {
        let p = dirs.reads.last().map(|r| r.join("key")).unwrap_or(wpath.clone());
        world::plant(&p, &a_bytes, 0o444, old - 120_000_000_000, old);
    }
    if case.maint > 0 {
        // every third entry of the write side has been read since insertion
        for i in (0..size).step_by(3) {
            let d = if case.sharded { dirs.write.join(ops::shard_dir_name(1 + (i % 2))) } else { dirs.write.clone() };
            world::set_times(&d.join(format!("e{:05}", i)), old + 5_000_000_000, old);
        }
    }
    if case.maint > 1 {
        let t = ops::candidate_dirs(&dirs.write, front, &k)[0].join(".kismet_temp");
        let stale = old;
        let young = run::base_time_ns() as i128 - 60_000_000_000;
        world::plant(&t.join("stale_file"), b"debris", 0o600, stale, stale);
        world::plant(&t.join("young_file"), b"debris", 0o600, young, young);
        if TREE_DEPTH.with(|d| d.get()) >= 3 {
            world::plant(&t.join("stale_tree/a/b/f"), b"debris", 0o600, stale, stale);
            world::plant(&t.join("stale_tree/a/g"), b"debris", 0o600, stale, stale);
            for d in ["stale_tree/a/b", "stale_tree/a", "stale_tree"] {
                world::set_times(&t.join(d), stale, stale);
            }
        } else {
            world::plant(&t.join("stale_tree/f"), b"debris", 0o600, stale, stale);
            world::set_times(&t.join("stale_tree"), stale, stale);
        }
    }
    if case.checker || everywhere {
        // an identical copy in every read level (work for the checker; without one, later copies must not even be opened)
        for (ri, r) in dirs.reads.iter().enumerate() {
            if world::lstat(&r.join("key")).is_none() && (in_write || in_last) {
                // (disagreeing: every level its own value, so that the read-only levels disagree among themselves too)
                let v = if case.disagree { Val::new(1 + ri as u8, world::Size::Five) } else { a };
                let vb = if case.big { a_bytes.clone() } else { v.bytes() };
                world::plant(&r.join("key"), &vb, 0o444, old - 120_000_000_000, old);
            }
        }
    }
    let cfg = StackCfg {
        writer: Some((front, if case.maint > 0 { (size / 2).max(3) } else { 1usize << 60 })),
        readers: vec![Front::Plain; case.depth - 1],
        checker: if case.checker { Checker::ByteEq } else { Checker::None },
        auto_sync: true,
    };
    let cache = ops::build(&cfg, &dirs, None);
    let c = Val::one(2);
    if warm {
        let (_r, _t) = run::as_participant(0, 1, || {
            run::trigger_never();
            for i in 0..size as u64 {
                let wk = K::new(&format!("w{:05}", i), i.wrapping_mul(0x9E37_79B9_7F4A_7C15), i.wrapping_mul(0xC2B2_AE3D_27D4_EB4F).wrapping_add(1));
                let _ = ops::exec(&cache, &dirs, &Op::Put(wk, c_val()), &Default::default());
            }
        });
    }
    let op = match case.scenario.as_str() {
        "warm_put" => Op::Put(k, c_val()),
        "warm_set" => Op::Set(k, c_val()),
        "get_hit" | "get_miss" | "get_hit_last_level" | "get_hit_all_levels" => Op::Get(k),
        "touch_hit" | "touch_miss" | "touch_hit_all_levels" => Op::Touch(k),
        "set_new" | "set_existing" => Op::Set(k, c),
        "put_insert" | "put_hit" => Op::Put(k, c),
        "set_temp_file" => Op::SetTemp(k, c),
        _ => Op::Ensure(k, Pop::Value(a)),
    };
    let fds_before = count_proc_fds();
    shim::set_controller(ctl);
    let fire = case.maint > 0;
    let (out, trace) = run::as_participant(0, 0, || {
        if fire {
            run::trigger_fire_next(u64::MAX);
        } else {
            run::trigger_never();
        }
        ops::exec(&cache, &dirs, &op, &Default::default())
    });
    shim::set_controller(None);
    let fds_after = count_proc_fds();
    let residual = shim::open_fds().len() + shim::open_dir_streams();
    let app = dirs.app_tmp.to_string_lossy().into_owned();
    let mut counts: BTreeMap<&'static str, u64> = BTreeMap::new();
    let mut open_now: i64 = 0;
    let mut peak: i64 = 0;
    let mut locks = 0;
    let mut opens_per_dir: BTreeMap<String, u64> = BTreeMap::new();
    let mut app_fds: std::collections::BTreeSet<i32> = Default::default();
    let mut listed = 0;
    let is_touch = case.scenario.starts_with("touch");
    let mut seen_paths: std::collections::BTreeSet<String> = Default::default();
    for e in &trace {
        *counts.entry(e.kind.name()).or_insert(0) += 1;
        let is_app = e.path.as_ref().map(|p| p.starts_with(&app)).unwrap_or(false);
        match e.kind {
            Kind::Open if e.ok() => {
                if is_app {
                    app_fds.insert(e.fd);
                } else {
                    open_now += 1;
                }
            }
            Kind::Opendir if e.ok() => {
                open_now += 1;
            }
            Kind::Dup if e.ok() => open_now += 1,
            Kind::Close => {
                if !app_fds.remove(&e.fd) {
                    open_now -= 1;
                }
            }
            Kind::Closedir => open_now -= 1,
            Kind::Lock => locks += 1,
            Kind::Readdir => listed += 1,
            _ => {}
        }
        if e.kind == Kind::Open && !is_app {
            if let Some(p) = &e.path {
                // touch: filetime retries a failed read-only open of the same path write-only; the
                // property bounds the files probed per directory, so count distinct paths there
                if is_touch && !seen_paths.insert(p.clone()) {
                    continue;
                }
                let parent = std::path::Path::new(p).parent().map(|x| x.to_string_lossy().into_owned()).unwrap_or_default();
                if !parent.ends_with(".kismet_temp") {
                    *opens_per_dir.entry(parent).or_insert(0) += 1;
                }
            }
        }
        peak = peak.max(open_now);
    }
    let result = match &out {
        Ok(o) => o.res.label(),
        Err(p) => format!("panic:{}", p),
    };
    Obs {
        trace: trace.clone(),
        counts,
        peak: peak.max(0) as usize,
        residual,
        proc_residual: fds_after - fds_before,
        locks,
        opens_per_dir,
        result,
        events: trace.len(),
        listed,
    }
}

pub fn run_case(case: &Case, rep: &mut Report) -> Vec<(String, String)> {
    let mut bad = Vec::new();
    let sizes: &[usize] = if case.maint > 0 { &[0, 10, 100] } else { all_sizes() };
    let obs: Vec<Obs> = sizes.iter().map(|&s| observe(case, s)).collect();
    rep.transitions += obs.iter().map(|o| o.events as u64).sum::<u64>();
    for (i, o) in obs.iter().enumerate() {
        if case.maint > 0 {
            // with maintenance firing the number of calls grows with the directory, by design; the clauses about what is
            // held open, what stays open and locks apply to every call
            if o.result.starts_with("err") || o.result.starts_with("panic") {
                bad.push(("error".into(), format!("operation failed: {}", o.result)));
            }
            // "no call holds more than two (three) at once", for the operations the property names; ensure keeps the
            // file it is populating open across its put's maintenance, one more (outside the stated scope, see DESIGN)
            let named = matches!(case.scenario.as_str(), "set_new" | "set_existing" | "put_insert" | "set_temp_file");
            let limit = if case.checker { 3 } else { 2 };
            if named && o.peak > limit {
                bad.push(("peak-fds".into(), format!("{} files/directory streams open at once while maintaining {} entries (limit {})", o.peak, sizes[i], limit)));
            }
            // constant: what is held open does not grow with the number of entries ...
            if i > 0 && o.peak > obs[1.min(i)].peak && i > 1 {
                bad.push(("peak-grows-with-size".into(), format!("{} open at once with {} entries, {} with {}", o.peak, sizes[i], obs[1].peak, sizes[1])));
            }
            if o.residual != 0 {
                bad.push(("fd-leak".into(), format!("{} descriptors still open after the call returned and its result was dropped", o.residual)));
            }
            if o.proc_residual != 0 {
                bad.push(("fd-leak-proc".into(), format!("/proc/self/fd grew by {} across the call", o.proc_residual)));
            }
            if o.locks > 0 {
                bad.push(("lock-taken".into(), format!("{} locking calls", o.locks)));
            }
            if case.maint > 1 {
                // ... nor with the shape of the debris: the same cell with a one-level stale directory instead
                TREE_DEPTH.with(|d| d.set(1));
                let flat = observe(case, sizes[i]);
                TREE_DEPTH.with(|d| d.set(3));
                if o.peak > flat.peak {
                    bad.push((
                        "peak-grows-with-debris".into(),
                        format!("{} open at once with a three-level stale tree in .kismet_temp, {} with a one-level one ({} entries)", o.peak, flat.peak, sizes[i]),
                    ));
                }
            }
            continue;
        }
        if o.counts != obs[0].counts {
            bad.push((
                "count-depends-on-size".into(),
                format!(
                    "call counts with {} entries {:?} differ from those with {} entries {:?}",
                    sizes[i], o.counts, sizes[0], obs[0].counts
                ),
            ));
        }
        if o.result != obs[0].result {
            bad.push(("result-depends-on-size".into(), format!("{} vs {}", o.result, obs[0].result)));
        }
        // (over disagreeing copies the checker's verdict is the expected result)
        if (o.result.starts_with("err") && !case.disagree) || o.result.starts_with("panic") {
            bad.push(("error".into(), format!("operation failed: {}", o.result)));
        }
        if o.listed > 0 {
            bad.push(("lists-directory".into(), format!("{} readdir calls outside maintenance", o.listed)));
        }
        let limit = if case.checker { 3 } else { 2 };
        if o.peak > limit {
            bad.push(("peak-fds".into(), format!("{} files/directory streams open at once (limit {})", o.peak, limit)));
        }
        let expect_residual = 0; // the returned handle has been dropped by the time we look
        if o.residual != expect_residual {
            bad.push(("fd-leak".into(), format!("{} descriptors still open after the call returned and its result was dropped", o.residual)));
        }
        if o.proc_residual != 0 {
            bad.push(("fd-leak-proc".into(), format!("/proc/self/fd grew by {} across the call", o.proc_residual)));
        }
        if o.locks > 0 {
            bad.push(("lock-taken".into(), format!("{} locking calls", o.locks)));
        }
        if matches!(
            case.scenario.as_str(),
            "get_hit" | "get_miss" | "get_hit_last_level" | "touch_hit" | "touch_miss" | "get_hit_all_levels" | "touch_hit_all_levels"
        ) {
            for (d, n) in &o.opens_per_dir {
                let per_cache_dir = if case.sharded && d.contains("/w/") { 1 } else { 2 };
                let _ = per_cache_dir;
                if *n > 2 {
                    bad.push(("too-many-opens".into(), format!("{} open attempts in {}", n, d)));
                }
            }
            // at most two open attempts per cache (root) directory
            let mut per_root: BTreeMap<String, u64> = BTreeMap::new();
            for (d, n) in &o.opens_per_dir {
                let root = d.split("/.kismet_").next().unwrap_or(d).to_string();
                *per_root.entry(root).or_insert(0) += n;
            }
            for (r, n) in per_root {
                if n > 2 {
                    bad.push(("too-many-opens".into(), format!("{} open attempts for cache directory {}", n, r)));
                }
            }
        }
    }
    bad
}

fn record(case: &Case, rep: &mut Report) {
    rep.evaluations += all_sizes().len() as u64;
    rep.states += all_sizes().len() as u64;
    rep.traces += all_sizes().len() as u64;
    rep.count("nontrivial_count", 1);
    for (sig, msg) in run_case(case, rep) {
        let msg: String = msg.chars().take(500).collect();
        rep.violation(format!("resources:{}", sig), format!("{}: {}", case.to_json(), msg), case.to_json());
    }
}

/// "None stays open after the call returns" holds on error paths too: for every scenario (10 entries per
/// directory) each call fails once in turn (two errnos per call); afterwards the shim's descriptor table and
/// /proc/self/fd must be back where they were.
fn fault_section(shard: Shard, rep: &mut Report) {
    use crate::props::c18::{plausible, FailAt};
    use crate::shim::Controller;
    use std::sync::atomic::AtomicU64;
    use std::sync::{Arc, Mutex};
    let mut no = 0u64;
    for sc in SCENARIOS.iter() {
        for sharded in [false, true] {
            for depth in [1usize, 2] {
                if sc.ends_with("last_level") || sc.ends_with("promote") || sc.ends_with("all_levels") {
                    if depth == 1 {
                        continue;
                    }
                }
                let case = Case { scenario: sc.to_string(), sharded, depth, checker: false, maint: 0, disagree: false, big: false };
                let base = observe_with(&case, 10, None);
                for (k, ev) in base.trace.iter().enumerate() {
                    for a in plausible(ev, false).into_iter().take(if crate::props::e1::THOROUGH.load(std::sync::atomic::Ordering::SeqCst) || (ev.kind == Kind::Open && sc.starts_with("get")) { 8 } else { 2 }) {
                        no += 1;
                        if !shard.mine(no) {
                            continue;
                        }
                        let ctl = Arc::new(FailAt { faults: vec![(k as u64, a)], kinds: vec![Some(ev.kind)], n: AtomicU64::new(0), hit: Mutex::new(vec![]) });
                        let o = observe_with(&case, 10, Some(ctl.clone() as Arc<dyn Controller>));
                        rep.evaluations += 1;
                        rep.states += 1;
                        rep.traces += 1;
                        rep.count("fd_residue_under_fault_cases", 1);
                        if ctl.hit.lock().unwrap().is_empty() {
                            continue;
                        }
                        // a lookup makes at most two open attempts per cache directory whatever the answers it gets
                        if matches!(case.scenario.as_str(), "get_hit" | "get_miss" | "get_hit_last_level" | "get_hit_all_levels") {
                            let mut per_root: BTreeMap<String, u64> = BTreeMap::new();
                            for (d, n) in &o.opens_per_dir {
                                let root = d.split("/.kismet_").next().unwrap_or(d).to_string();
                                *per_root.entry(root).or_insert(0) += n;
                            }
                            for (r, n) in per_root {
                                if n > 2 {
                                    rep.violation(
                                        "resources:too-many-opens-under-fault",
                                        format!("{} with call {} ({}) failing {:?}: {} open attempts for cache directory {}", case.to_json(), k, ev.func, a, n, r.rsplit('/').next().unwrap_or("")),
                                        json!({"fault_section": true}),
                                    );
                                }
                            }
                        }
                        // the operation's cost stays independent of the directory's size on error paths too (the call
                        // sequence is the same up to the failing call whatever the size, so the same index is the same call)
                        let big = observe_with(&case, 100, Some(Arc::new(FailAt { faults: vec![(k as u64, a)], kinds: vec![Some(ev.kind)], n: AtomicU64::new(0), hit: Mutex::new(vec![]) }) as Arc<dyn Controller>));
                        if big.counts != o.counts || big.listed > 0 || o.listed > 0 {
                            rep.violation(
                                "resources:count-depends-on-size-after-fault",
                                format!(
                                    "{} with call {} ({}) failing {:?}: call counts with 10 entries {:?} (listing calls {}), with 100 entries {:?} (listing calls {})",
                                    case.to_json(), k, ev.func, a, o.counts, o.listed, big.counts, big.listed
                                ),
                                json!({"fault_section": true}),
                            );
                        }
                        if o.residual != 0 || o.proc_residual != 0 {
                            rep.violation(
                                "resources:fd-leak-after-fault",
                                format!(
                                    "{} with call {} ({}) failing {:?}: {} descriptors in the shim's table and {} in /proc/self/fd left open after the call returned ({})",
                                    case.to_json(), k, ev.func, a, o.residual, o.proc_residual, o.result
                                ),
                                json!({"fault_section": true}),
                            );
                        }
                    }
                }
            }
        }
    }
}

fn concurrent_programs() -> Vec<(crate::sched::Program, crate::props::e1::Mode)> {
    use crate::props::e1::{self, api, planted, Mode};
    use crate::sched::POp;
    use crate::world::Size;
    let k = e1::key1();
    let mut out = Vec::new();
    let s0 = ops::shard_dir_name(0);
    let s1 = ops::shard_dir_name(1);
    for (front, cfg, locs) in [
        ("plain", e1::plain_cfg(1 << 40), vec!["k".to_string()]),
        ("sharded", e1::sharded_cfg(1 << 40), vec![format!("{}/k", s0), format!("{}/k", s1)]),
    ] {
        for loc in &locs {
            let pre = vec![planted(loc, Val::new(0, Size::Five), false, 3)];
            let tag = if loc.contains(&s1) { "secondary" } else { "primary" };
            let mut add = |name: &str, other: Vec<POp>| {
                out.push((
                    crate::sched::Program {
                        name: format!("lookup-{}-{}-{}", front, tag, name),
                        cfg: cfg.clone(),
                        pre: pre.clone(),
                        threads: e1::own_handles(vec![vec![api(Op::Get(k.clone())), api(Op::Touch(k.clone()))], other], false),
                        create_write_dir: true,
                    },
                    crate::props::e1::side_bound(),
                ));
            };
            add("set", vec![api(Op::Set(k.clone(), e1::wval(1, 0, Size::One)))]);
            add("deleter", vec![POp::Unlink(loc.clone())]);
        }
    }
    out
}

fn concurrent_check(x: &crate::sched::Execution) -> Vec<(String, String)> {
    let mut bad = Vec::new();
    let wroot = x.root.join("w").to_string_lossy().into_owned();
    // thread 0 does the lookups: per operation, open attempts (get) / distinct files probed (touch) in the cache directory
    for r in x.history.iter().filter(|r| r.tid == 0) {
        let is_touch = matches!(&r.op, crate::sched::POp::Api(Op::Touch(_)));
        let mut n = 0;
        let mut seen: std::collections::BTreeSet<String> = Default::default();
        for e in x.trace.iter().filter(|e| e.tid == 0 && e.op as usize == r.idx && e.kind == Kind::Open) {
            if let Some(p) = &e.path {
                if p.starts_with(&wroot) && !p.contains("/.kismet_temp/") {
                    if is_touch && !seen.insert(p.clone()) {
                        continue;
                    }
                    n += 1;
                }
            }
        }
        if n > 2 {
            bad.push((
                "too-many-opens-under-race".into(),
                format!("t0 {} made {} open attempts in one cache directory while a peer was replacing/removing the entry", r.op.label(), n),
            ));
        }
        if x.trace.iter().any(|e| e.tid == 0 && e.op as usize == r.idx && matches!(e.kind, Kind::Readdir | Kind::Opendir | Kind::Lock)) {
            bad.push(("lookup-lists-or-locks".into(), format!("t0 {} listed a directory or took a lock", r.op.label())));
        }
    }
    bad
}

pub fn run(_tier: Tier, shard: Shard, rep: &mut Report) {
    rep.rule = "operation scenario {get hit/miss/hit in the last level, touch hit/miss, set new/existing, put insert/hit, ensure \
        hit/miss/promote, set_temp_file, get/touch/ensure with the key present in every level, and put/set through a handle that has \
        already performed that many writes} x write front-end {plain, sharded(3)} x stack depth 1-3 x checker {off, on; lookups with a checker also over disagreeing copies and over copies of 1 MiB + 1 byte} with every \
        directory pre-populated with 0, 10, 100 and 2000 (thorough: also 20000; stack depth up to 4) entries (maintenance scripted not to fire): per-kind call counts identical \
        across the four sizes, no readdir, <= 2 open attempts per cache directory per lookup, peak simultaneously open \
        files + directory streams <= 2 (3 with a checker) from the intercepted open/close stream, nothing left open afterwards \
        (shim fd table and /proc/self/fd), no locking call. Plus, under concurrency: get and touch racing with a set of the same key or with a deleter (all schedules \
        with <= 2 preemptions, entry in the primary or the secondary shard): still at most two open attempts per cache directory, \
        no listing, no lock. And with maintenance firing on directories of 0, 10 and 100 \
        entries (over capacity, every third entry read; .kismet_temp also holding a stale file, a young file and a stale three-level directory \
        tree): nothing left open, no lock, the peak does not grow with the number of entries nor with the depth of the stale tree, \
        and for set/put and their temp-file variants it stays within 2 (3) (call counts legitimately grow there). And on error paths: every call of every scenario failing once in turn, nothing may stay open \
        afterwards, a lookup still makes at most two open attempts per cache directory (every errno on its opens, ESTALE included), no directory is listed and the call counts with 10 and with 100 entries are identical. Every case is non-trivial (4 sizes compared)."
        .into();
    rep.assumptions = vec![
        "descriptors the scenario itself holds (the application's source temp file) are not attributed to the library".into(),
    ];
    let mut no = 0u64;
    for sc in SCENARIOS.iter() {
        for sharded in [false, true] {
            for depth in 1..=(if _tier == Tier::Thorough { 4usize } else { 3 }) {
                for checker in [false, true] {
                    if (sc == &"get_hit_last_level" || sc == &"ensure_promote") && depth == 1 {
                        continue;
                    }
                    no += 1;
                    if !shard.mine(no) {
                        continue;
                    }
                    let case = Case { scenario: sc.to_string(), sharded, depth, checker, maint: 0, disagree: false, big: false };
                    record(&case, rep);
                    if checker && depth >= 2 && matches!(*sc, "get_hit" | "get_hit_all_levels" | "get_hit_last_level" | "ensure_hit" | "touch_hit_all_levels") {
                        let mut d = case.clone();
                        d.disagree = true;
                        rep.count("disagreeing_copy_cells", 1);
                        record(&d, rep);
                    }
                    if checker && depth >= 2 && matches!(*sc, "get_hit" | "get_hit_all_levels" | "get_hit_last_level") {
                        let mut b = case.clone();
                        b.big = true;
                        rep.count("big_value_checker_cells", 1);
                        record(&b, rep);
                    }
                    if no % 37 == 0 {
                        rep.sample(case.to_json());
                    }
                }
            }
        }
    }
    // what is held open, left open or locked, with maintenance firing
    for sc in ["set_new", "set_existing", "put_insert", "ensure_miss", "set_temp_file", "ensure_promote"] {
        for sharded in [false, true] {
            for depth in 1..=2usize {
                for checker in [false, true] {
                    for maint in [1u8, 2] {
                        if sc == "ensure_promote" && depth == 1 {
                            continue;
                        }
                        no += 1;
                        if !shard.mine(no) {
                            continue;
                        }
                        rep.count("maintenance_firing_cells", 1);
                        record(&Case { scenario: sc.to_string(), sharded, depth, checker, maint, disagree: false, big: false }, rep);
                    }
                }
            }
        }
    }
    rep.fact("cells_total", json!(no));
    let _: Option<Ev> = None;
    let progs = concurrent_programs();
    let mut chk = |_pi: usize, x: &crate::sched::Execution| concurrent_check(x);
    crate::props::e1::explore_all("C20", &progs, shard, rep, &|_| crate::sched::RunOpts::default(), &mut chk, 500_000);
    run::reset_env();
    fault_section(shard, rep);
}

pub fn replay(case: &Value, rep: &mut Report) {
    if case.get("fault_section").is_some() {
        fault_section(Shard { index: 0, count: 1 }, rep);
        return;
    }
    if case.get("program").is_some() {
        let progs: Vec<crate::sched::Program> = concurrent_programs().into_iter().map(|p| p.0).collect();
        let mut chk = |x: &crate::sched::Execution| concurrent_check(x);
        crate::props::e1::replay_case("C20", &progs, case, rep, &|| crate::sched::RunOpts::default(), &mut chk);
        return;
    }
    record(&Case::from_json(case), rep);
}
