//! C05 — concurrent activity never surfaces as an error or a panic.
//! C06 shares these programs (plus C04's) with its own monitors.
use crate::ops::{Op, Pop, Res};
use crate::props::e1::{self, api, planted, Mode};
use crate::report::{Report, Shard, Tier};
use crate::sched::{Execution, POp, Planted, Program, RunOpts};
use crate::world::{Size, Val};
use serde_json::Value;

pub fn check(x: &Execution) -> Vec<(String, String)> {
    let mut bad = Vec::new();
    for r in &x.history {
        match (&r.op, &r.outcome.res) {
            (POp::Unlink(_), _) | (POp::ClockJump(_), _) => {}
            (POp::Api(op), Res::Err(kind, os, msg)) => bad.push((
                "error".into(),
                format!("t{} {} returned an error because of concurrent activity: {:?}/{:?} {}", r.tid, op.label(), kind, os, msg),
            )),
            (POp::Api(op), Res::Panic(p)) => bad.push(("panic".into(), format!("t{} {} panicked: {}", r.tid, op.label(), p))),
            _ => {}
        }
    }
    if x.deadlock {
        bad.push(("deadlock".into(), "no participant enabled before all finished".into()));
    }
    bad
}

fn progs_for(front: &str, tier: Tier) -> Vec<(Program, Mode)> {
    let k = e1::key1();
    let j = e1::key2();
    let cfg = |cap: usize| match front {
        "plain" => e1::plain_cfg(cap),
        "sharded" => e1::sharded_cfg(cap),
        _ => e1::stack_cfg(cap),
    };
    let sd = crate::ops::shard_dir_name(0);
    let loc = |n: &str| if front == "sharded" { format!("{}/{}", sd, n) } else { n.to_string() };
    // over capacity: entries of different ages, some read since insertion
    let crowd = || -> Vec<Planted> {
        vec![
            planted(&loc("k"), Val::new(0, Size::Five), true, 3),
            planted(&loc("j"), Val::new(22, Size::Five), false, 5),
            planted(&loc("x1"), Val::new(23, Size::One), true, 7),
            planted(&loc("x2"), Val::new(24, Size::One), false, 9),
        ]
    };
    let v = |t: usize, i: usize| e1::wval(t, i, Size::One);
    let b2 = Mode::Bounded(2);
    let mut out: Vec<(Program, Mode)> = Vec::new();
    let mut add = |name: &str, cap: usize, pre: Vec<Planted>, threads: Vec<Vec<POp>>, mkdir: bool, mode: Mode| {
        let mut pre = pre;
        if front == "stack" {
            pre.push(planted("@k", Val::new(21, Size::Five), false, 50));
        }
        out.push((
            Program {
                name: format!("{}-{}", front, name),
                cfg: cfg(cap),
                pre,
                threads: e1::own_handles(threads, true),
                create_write_dir: mkdir,
            },
            mode,
        ));
    };
    let cap = if front == "sharded" { 4 } else { 2 };
    // two maintainers over a crowded directory
    add("maint|maint", cap, crowd(), vec![vec![api(Op::Set(k.clone(), v(0, 0)))], vec![api(Op::Put(j.clone(), v(1, 0)))]], true, b2);
    // two maintainers reclaiming the same stale debris of dead writers
    let mut littered = crowd();
    littered.push(planted(&loc(".kismet_temp/dead1"), Val::new(25, Size::One), false, 200));
    littered.push(planted(&loc(".kismet_temp/dead2"), Val::new(25, Size::One), false, 201));
    add("debris-maint|maint", cap, littered, vec![vec![api(Op::Set(k.clone(), v(0, 0)))], vec![api(Op::Put(j.clone(), v(1, 0)))]], true, b2);
    // maintenance vs lookups and touches
    add("maint|get-touch", cap, crowd(), vec![vec![api(Op::Set(k.clone(), v(0, 0)))], vec![api(Op::Get(k.clone())), api(Op::Touch(j.clone()))]], true, b2);
    add("ensure|ensure-crowd", cap, crowd(), vec![vec![api(Op::Ensure(k.clone(), Pop::Value(v(0, 0))))], vec![api(Op::Ensure(j.clone(), Pop::Value(v(1, 0))))]], true, b2);
    // an outsider deleting published files under everybody's feet
    add("deleter|set-get", cap, crowd(), vec![vec![POp::Unlink(loc("k")), POp::Unlink(loc("x1"))], vec![api(Op::Set(j.clone(), v(1, 0))), api(Op::Get(k.clone()))]], true, b2);
    add("deleter|ensure", cap, crowd(), vec![vec![POp::Unlink(loc("k"))], vec![api(Op::Ensure(k.clone(), Pop::Value(v(1, 0))))]], true, b2);
    add("deleter|touch-put", cap, crowd(), vec![vec![POp::Unlink(loc("j")), POp::Unlink(loc("k"))], vec![api(Op::Touch(j.clone())), api(Op::Put(k.clone(), v(1, 1)))]], true, b2);
    // nothing exists yet: directory creation races with publication
    add("fresh-set|put", 1 << 20, vec![], vec![vec![api(Op::Set(k.clone(), v(0, 0)))], vec![api(Op::Put(j.clone(), v(1, 0)))]], false, b2);
    add("fresh-ensure|ensure", 1 << 20, vec![], vec![vec![api(Op::Ensure(k.clone(), Pop::Value(v(0, 0))))], vec![api(Op::Ensure(k.clone(), Pop::Value(v(1, 0))))]], false, b2);
    add("fresh-settemp|get", 1 << 20, vec![], vec![vec![api(Op::SetTemp(k.clone(), v(0, 0)))], vec![api(Op::Get(k.clone())), api(Op::Touch(k.clone()))]], false, b2);
    // the entry an ensure has just published is deleted (or evicted) before it re-opens it
    add("fresh-ensure|deleter", 1 << 20, vec![], vec![vec![api(Op::Ensure(k.clone(), Pop::Value(v(0, 0))))], vec![POp::Unlink(loc("k"))]], true, b2);
    add("fresh-ensure-get|deleter", 1 << 20, vec![], vec![vec![api(Op::Ensure(k.clone(), Pop::Value(v(0, 0)))), api(Op::Get(k.clone()))], vec![POp::Unlink(loc("k")), POp::Unlink(loc("k"))]], true, b2);
    add("replace|deleter", 1 << 20, vec![planted(&loc("k"), Val::new(0, Size::Five), false, 3)], vec![vec![api(Op::Gou(k.clone(), crate::ops::Act::Replace, Pop::Value(v(0, 0))))], vec![POp::Unlink(loc("k"))]], true, b2);
    // the same races on a filesystem whose directory listings carry no entry type (d_type = DT_UNKNOWN)
    add("dtunknown-maint|maint", cap, crowd(), vec![vec![api(Op::Set(k.clone(), v(0, 0)))], vec![api(Op::Put(j.clone(), v(1, 0)))]], true, b2);
    add("dtunknown-deleter|set-get", cap, crowd(), vec![vec![POp::Unlink(loc("k")), POp::Unlink(loc("x1"))], vec![api(Op::Set(j.clone(), v(1, 0))), api(Op::Get(k.clone()))]], true, b2);
    add("dtunknown-deleter|put", cap, crowd(), vec![vec![POp::Unlink(loc("x2")), POp::Unlink(loc("j"))], vec![api(Op::Put(k.clone(), v(1, 1)))]], true, b2);
    // a value staged in the cache's own .kismet_temp and dated a day ahead of the local clock (copied with its timestamps,
    // or written on a host whose clock runs ahead), while a peer's write maintains the directory, temp files included
    add("stagedfuture-set|maint-put", cap, crowd(), vec![vec![api(Op::Set(k.clone(), v(0, 0)))], vec![api(Op::Put(j.clone(), v(1, 0)))]], true, b2);
    add("stagedfuture-puttemp|maint-set", cap, crowd(), vec![vec![api(Op::PutTemp(k.clone(), v(0, 0)))], vec![api(Op::Set(j.clone(), v(1, 0)))]], true, b2);
    // the destination of a put is deleted and published again by peers while the put is between its link and its touch
    add(
        "put|deleter|republisher",
        1 << 20,
        vec![planted(&loc("k"), Val::new(0, Size::Five), false, 3)],
        vec![vec![api(Op::Put(k.clone(), v(0, 0)))], vec![POp::Unlink(loc("k"))], vec![api(Op::Set(k.clone(), v(2, 0)))]],
        true,
        b2,
    );
    add(
        "ensure|deleter|republisher",
        1 << 20,
        vec![planted(&loc("k"), Val::new(0, Size::Five), false, 3)],
        vec![vec![api(Op::Ensure(k.clone(), Pop::Value(v(0, 0))))], vec![POp::Unlink(loc("k"))], vec![api(Op::Put(k.clone(), v(2, 0)))]],
        true,
        b2,
    );
    add("tiny-ensure|maint", if front == "sharded" { 2 } else { 1 }, vec![], vec![vec![api(Op::Ensure(k.clone(), Pop::Value(v(0, 0))))], vec![api(Op::Set(j.clone(), v(1, 0))), api(Op::Set(key3(), v(1, 1)))]], true, b2);
    if tier == Tier::Thorough {
        add("maint|maint|deleter", cap, crowd(), vec![vec![api(Op::Set(k.clone(), v(0, 0)))], vec![api(Op::Put(j.clone(), v(1, 0)))], vec![POp::Unlink(loc("x2"))]], true, b2);
        add("maint|maint-bound3", cap, crowd(), vec![vec![api(Op::Set(k.clone(), v(0, 0)))], vec![api(Op::Put(j.clone(), v(1, 0)))]], true, Mode::Bounded(3));
        add("deleter|ensure-bound3", cap, crowd(), vec![vec![POp::Unlink(loc("k"))], vec![api(Op::Ensure(k.clone(), Pop::Value(v(1, 0))))]], true, Mode::Bounded(3));
        add("fresh-set|put-unbounded", 1 << 20, vec![], vec![vec![api(Op::Set(k.clone(), v(0, 0)))], vec![api(Op::Put(j.clone(), v(1, 0)))]], false, Mode::Sleep);
        add("replace|maint", cap, crowd(), vec![vec![api(Op::Gou(k.clone(), crate::ops::Act::Replace, Pop::Value(v(0, 0))))], vec![api(Op::Set(j.clone(), v(1, 0)))]], true, b2);
        add("fresh-ensure|ensure|get", 1 << 20, vec![], vec![vec![api(Op::Ensure(k.clone(), Pop::Value(v(0, 0))))], vec![api(Op::Ensure(j.clone(), Pop::Value(v(1, 0))))], vec![api(Op::Get(k.clone()))]], false, b2);
    }
    out
}

fn key3() -> crate::ops::K {
    crate::ops::key_for_shards("m", 0, 1, 2)
}

pub fn programs(tier: Tier) -> Vec<(Program, Mode)> {
    let mut v = Vec::new();
    for f in ["plain", "sharded", "stack"] {
        v.extend(progs_for(f, tier));
    }
    v
}

/// A peer removing or replacing an entry between two of our calls shows up, on a network filesystem,
/// as ENOENT or ESTALE on the next call that names it.  For every call of every scenario that names a
/// cache entry or probes for one, that answer is injected once: the operation must still not fail.
fn absence_section(shard: Shard, rep: &mut Report) {
    use crate::props::c02::fault_free;
    use crate::props::c18::FailAt;
    use crate::props::scn;
    use crate::shim::{Action, Kind};
    use std::sync::atomic::AtomicU64;
    use std::sync::{Arc, Mutex};
    let mut no = 0u64;
    for scn in scn::all_scenarios() {
        let (n, trace, _res) = fault_free(&scn);
        for k in 0..n {
            let e = &trace[k];
            // debris left in .kismet_temp by dead writers is reclaimed by every maintainer: a peer's reclamation
            // looks the same (the operation's own temporary file is not debris; nobody else touches it)
            let names_debris = e.path.as_ref().map(|p| p.contains("/.kismet_temp/") && p.ends_with("_debris")).unwrap_or(false);
            let names_entry = names_debris || e.path.as_ref().map(|p| {
                let name = std::path::Path::new(p).file_name().map(|n| n.to_string_lossy().into_owned()).unwrap_or_default();
                (p.contains("/w/") || p.contains("/r0/") || p.contains("/r1/")) && !p.contains("/.kismet_temp/") && !p.contains("/app_tmp/") && !name.starts_with('.') && !name.is_empty()
            }).unwrap_or(false);
            if !names_entry || !matches!(e.kind, Kind::Open | Kind::Stat | Kind::Unlink | Kind::Utimens | Kind::Link | Kind::Rename) {
                continue;
            }
            // the destination of a link/rename reported absent makes no sense for a successful call; only
            // failures that a vanished *entry* can cause
            if matches!(e.kind, Kind::Link | Kind::Rename) {
                continue;
            }
            for errno in [libc::ENOENT, libc::ESTALE] {
                no += 1;
                if !shard.mine(no) {
                    continue;
                }
                let w = scn::setup(&scn);
                let cache = w.cache();
                let force = w.force_maintenance;
                let ctl = Arc::new(FailAt { faults: vec![(k as u64, Action::Fail(errno))], kinds: vec![Some(e.kind)], n: AtomicU64::new(0), hit: Mutex::new(vec![]) });
                crate::shim::set_controller(Some(ctl.clone()));
                let (r, t) = crate::run::as_participant(0, 0, || {
                    if force {
                        crate::run::trigger_fire_next(u64::MAX);
                    } else {
                        crate::run::trigger_never();
                    }
                    crate::ops::exec(&cache, &w.dirs, &w.op, &Default::default())
                });
                crate::shim::set_controller(None);
                rep.evaluations += 1;
                rep.states += 1;
                rep.traces += 1;
                rep.transitions += t.len() as u64;
                rep.count("absence_answer_cases", 1);
                if ctl.hit.lock().unwrap().is_empty() {
                    continue;
                }
                let res = match r {
                    Ok(o) => o.res,
                    Err(p) => Res::Panic(p),
                };
                if res.is_err() || res.is_panic() {
                    rep.violation(
                        "concurrency:absence-not-benign",
                        format!(
                            "{}: call {} ({} {}) answered errno {} (what a concurrent removal looks like): the operation returned {}",
                            scn.to_json(),
                            k,
                            e.func,
                            e.path.as_deref().unwrap_or("").rsplit('/').next().unwrap_or(""),
                            errno,
                            res.label()
                        ),
                        serde_json::json!({"absence": true, "scenario": scn.to_json(), "call": k, "errno": errno}),
                    );
                }
            }
        }
    }
}

pub fn run(tier: Tier, shard: Shard, rep: &mut Report) {
    rep.rule = "programs of 2-3 participants where every write maintains (capacity 1-2 per directory, trigger always firing) over \
        directories crowded with entries of different ages and read marks (so maintenance both unlinks and re-queues), plus an adversary \
        whose operations are unlink(<published cache file>) schedulable at any call boundary, plus programs starting with no cache \
        directory at all (create_dir_all races with rename/link); plain, sharded (shard directories initially missing) and stacked \
        front-ends; three of the races again on a filesystem whose listings report no entry type (DT_UNKNOWN); writes whose value is staged in the cache's own .kismet_temp and dated a day ahead while a peer's write maintains that directory; every interleaving with <= 2 preemptions (thorough: bound 3, 3 participants, unbounded for one pair). Oracle: every \
        operation returns Ok (a lost race shows as a miss / false / a completed write), no panic, no deadlock. Plus, single-participant: every call of every C02 scenario that names a cache entry \
        answered ENOENT and ESTALE in turn (what a concurrent removal looks like on a network filesystem): the operation must not fail; likewise every call naming a piece of debris in .kismet_temp \
        (which a peer's maintenance reclaims too). Non-trivial = execution with >= 1 preemption."
        .into();
    rep.assumptions = vec![
        "the adversary deletes published entries only (never temp files or directories); callers pass valid names and same-filesystem sources".into(),
    ];
    let progs = programs(tier);
    let cap = if tier == Tier::Quick { 300_000 } else { 30_000_000 };
    let mut chk = |_pi: usize, x: &Execution| check(x);
    e1::explore_all("C05", &progs, shard, rep, &|_| RunOpts::default(), &mut chk, cap);
    crate::run::reset_env();
    absence_section(shard, rep);
}

pub fn replay(case: &Value, rep: &mut Report) {
    if case.get("absence").is_some() {
        absence_section(Shard { index: 0, count: 1 }, rep);
        return;
    }
    crate::sched::install_hooks();
    let progs: Vec<Program> = programs(Tier::Thorough).into_iter().map(|p| p.0).collect();
    let mut chk = |x: &Execution| check(x);
    e1::replay_case("C05", &progs, case, rep, &|| RunOpts::default(), &mut chk);
}
