//! E1 — the schedule explorer: stateless search over the interleavings of 2-3
//! participants at filesystem-call granularity, on the real code.
//!
//! Participants are OS threads that run only while they hold the baton; the
//! hand-off happens inside the shim's `before` hook, i.e. exactly between two
//! intercepted calls.  Two search modes: iterative preemption bounding (no
//! partial-order reduction) and unbounded depth-first search with sleep sets.
use crate::ops::{self, Dirs, Op, Outcome, Res, StackCfg};
use crate::report::Report;
use crate::run;
use crate::shim::{self, Action, Controller, Ev, Kind};
use crate::world::{self, Scratch, Val};
use serde_json::{json, Value};
use std::collections::{BTreeMap, BTreeSet};
use std::path::PathBuf;
use std::sync::{Arc, Condvar, Mutex};
use std::time::Duration;

#[derive(Clone, Debug, PartialEq, Eq, Hash)]
pub enum POp {
    Api(Op),
    /// an outsider deleting a published cache file (path relative to the write dir)
    Unlink(String),
    /// time passes (seconds) while the other participants are suspended
    ClockJump(i64),
}

impl POp {
    pub fn label(&self) -> String {
        match self {
            POp::Api(o) => o.label(),
            POp::Unlink(p) => format!("unlink({})", p),
            POp::ClockJump(s) => format!("clock_jump({}s)", s),
        }
    }
}

#[derive(Clone, Debug)]
pub struct ThreadSpec {
    pub ops: Vec<POp>,
    /// threads with the same handle id share one cache object (clones)
    pub handle: usize,
    /// does the maintenance trigger fire on this thread's write events?
    pub fire: bool,
}

#[derive(Clone, Debug)]
pub struct Planted {
    /// relative to the write dir (or "r0/..." for the first read-only level when prefixed with '@')
    pub rel: String,
    pub val: Val,
    pub read_marked: bool,
    /// age rank: larger = older
    pub age: i64,
}

#[derive(Clone, Debug)]
pub struct Program {
    pub name: String,
    pub cfg: StackCfg,
    pub pre: Vec<Planted>,
    pub threads: Vec<ThreadSpec>,
    /// create the write directory (and nothing else) beforehand?
    pub create_write_dir: bool,
}

impl Program {
    pub fn to_json(&self) -> Value {
        json!({
            "name": self.name,
            "cfg": self.cfg.label(),
            "pre": self.pre.iter().map(|p| json!([p.rel, p.val.label(), p.read_marked])).collect::<Vec<_>>(),
            "threads": self.threads.iter().map(|t| json!({
                "ops": t.ops.iter().map(|o| o.label()).collect::<Vec<_>>(), "handle": t.handle, "fire": t.fire})).collect::<Vec<_>>(),
        })
    }
}

#[derive(Clone, Debug)]
pub struct OpRecord {
    pub tid: usize,
    pub idx: usize,
    pub begin: u64,
    pub end: u64,
    pub op: POp,
    pub outcome: Outcome,
}

#[derive(Clone, Debug)]
pub struct Point {
    pub enabled: Vec<usize>,
    pub chosen: usize,
    pub running_before: Option<usize>,
    /// pending call of each enabled thread (for dependence / sleep sets)
    pub pending: Vec<Ev>,
}

pub struct Execution {
    pub choices: Vec<usize>,
    pub points: Vec<Point>,
    pub trace: Vec<Ev>,
    pub history: Vec<OpRecord>,
    pub invariant: Vec<String>,
    pub deadlock: bool,
    pub hang: bool,
    pub divergence: Option<String>,
    pub final_snapshot: world::Snapshot,
    pub root: PathBuf,
    pub sleep_blocked: bool,
}

#[derive(Clone, Copy, PartialEq, Eq, Debug)]
enum TState {
    Running,
    Parked,
    Finished,
}

struct SchedState {
    state: Vec<TState>,
    pending: Vec<Option<Ev>>,
    grant: Option<usize>,
    free_run: bool,
    runaway: bool,
    op_events: Vec<u64>,
}

pub type Invariant = Box<dyn Fn(&Ev) -> Option<String> + Send + Sync>;

pub struct Scheduler {
    st: Mutex<SchedState>,
    cv: Condvar,
    invariant: Option<Invariant>,
    inv_hits: Mutex<Vec<String>>,
    event_budget: u64,
    fault: Option<SchedFault>,
    fault_seen: std::sync::atomic::AtomicU64,
}

/// Calls that cannot conflict by construction are not scheduling points.
pub fn is_scheduling_point(ev: &Ev) -> bool {
    match ev.kind {
        Kind::Close | Kind::Lseek | Kind::Closedir | Kind::Fcntl | Kind::Dup => false,
        Kind::Readdir => ev.arg == 0,
        _ => true,
    }
}

impl Controller for Scheduler {
    fn before(&self, ev: &Ev) -> Action {
        let tid = ev.tid as usize;
        let mut g = self.st.lock().unwrap();
        if tid >= g.state.len() {
            return Action::Proceed;
        }
        g.op_events[tid] += 1;
        if g.op_events[tid] > self.event_budget && !g.free_run {
            // livelock guard: stop controlling and fail every further call of this execution's participants
            g.free_run = true;
            g.runaway = true;
            shim::retire_generation();
            self.cv.notify_all();
        }
        // the configured fault, if this is the call it names
        let mut answer = Action::Proceed;
        if let Some(f) = &self.fault {
            if f.tid == tid && f.kind == ev.kind && self.fault_seen.fetch_add(1, std::sync::atomic::Ordering::SeqCst) == f.nth {
                answer = f.action;
            }
        }
        let point = is_scheduling_point(ev) || (self.fault.is_some() && ev.kind == Kind::Close);
        if g.free_run || !point {
            return answer;
        }
        g.pending[tid] = Some(ev.clone());
        g.state[tid] = TState::Parked;
        self.cv.notify_all();
        loop {
            if g.free_run {
                break;
            }
            if g.grant == Some(tid) {
                g.grant = None;
                break;
            }
            g = self.cv.wait(g).unwrap();
        }
        g.state[tid] = TState::Running;
        g.pending[tid] = None;
        answer
    }

    fn after(&self, ev: &Ev) {
        if let Some(inv) = &self.invariant {
            if let Some(msg) = inv(ev) {
                self.inv_hits.lock().unwrap().push(msg);
            }
        }
    }
}

impl Scheduler {
    fn finish(&self, tid: usize) {
        let mut g = self.st.lock().unwrap();
        g.state[tid] = TState::Finished;
        g.pending[tid] = None;
        self.cv.notify_all();
    }
    fn op_started(&self, tid: usize) {
        let mut g = self.st.lock().unwrap();
        g.op_events[tid] = 0;
    }
}

/// Participant threads abandoned as zombies so far in this process.
pub static LEAKED: std::sync::atomic::AtomicU64 = std::sync::atomic::AtomicU64::new(0);

pub struct RunOpts {
    pub invariant: Option<Invariant>,
    pub event_budget: u64,
    /// sleep sets: threads asleep at the first free choice point (after the prefix)
    pub sleep: Option<BTreeSet<usize>>,
    /// one environment fault inside the explored execution
    pub fault: Option<SchedFault>,
}

/// The `nth` call of kind `kind` issued by participant `tid` is answered with `action`.  With a fault configured,
/// `close` is a scheduling point too (what happens between a failed close and whatever the caller does next matters).
#[derive(Clone, Copy, Debug)]
pub struct SchedFault {
    pub tid: usize,
    pub kind: Kind,
    pub nth: u64,
    pub action: Action,
}

impl SchedFault {
    /// Programs carry their fault in their name: "...closefault<n>..." = the n-th close of participant 0 releases
    /// the descriptor and then reports EINTR (what Linux does when a signal interrupts a close).
    pub fn from_program_name(name: &str) -> Option<SchedFault> {
        let i = name.find("closefault")?;
        let digits: String = name[i + "closefault".len()..].chars().take_while(|c| c.is_ascii_digit()).collect();
        Some(SchedFault { tid: 0, kind: Kind::Close, nth: digits.parse().ok()?, action: Action::FailAfter(libc::EINTR) })
    }
}

impl Default for RunOpts {
    fn default() -> Self {
        RunOpts { invariant: None, event_budget: 4000, sleep: None, fault: None }
    }
}

fn yield_hook() {
    shim::pseudo_event(Kind::Estimate, "load_estimate", 0);
}

pub fn install_hooks() {
    kismet_cache::verif_hooks::set_yield_callback(Some(yield_hook));
}

/// Pins this process (and the participant threads it spawns) to one CPU: baton hand-offs
/// then are same-core context switches instead of cross-core wake-ups of idle cores.
pub fn pin_to_cpu(index: u64) {
    unsafe {
        let n = libc::sysconf(libc::_SC_NPROCESSORS_ONLN).max(1) as u64;
        let mut set: libc::cpu_set_t = std::mem::zeroed();
        libc::CPU_SET((index % n) as usize, &mut set);
        libc::sched_setaffinity(0, std::mem::size_of::<libc::cpu_set_t>(), &set);
    }
}

pub fn plant_pre(prog: &Program, dirs: &Dirs) {
    let now = run::base_time_ns() as i128;
    if prog.create_write_dir {
        shim::passthrough(|| std::fs::create_dir_all(&dirs.write).unwrap());
    }
    for r in &dirs.reads {
        shim::passthrough(|| std::fs::create_dir_all(r).unwrap());
    }
    for p in &prog.pre {
        let m = now - 86_400_000_000_000 - (p.age as i128) * 60_000_000_000;
        let a = if p.read_marked { m + 5_000_000_000 } else { m - 120_000_000_000 };
        let path = if let Some(rest) = p.rel.strip_prefix('@') {
            dirs.reads[0].join(rest)
        } else {
            dirs.write.join(&p.rel)
        };
        world::plant(&path, &p.val.bytes(), 0o444, a, m);
    }
}

/// Dependence (over-approximated) between two pending calls of different threads.
pub fn dependent(a: &Ev, b: &Ev) -> bool {
    // op boundaries order the history; treat them as mutually dependent
    if a.kind == Kind::OpBegin || b.kind == Kind::OpBegin {
        return a.kind == b.kind;
    }
    if a.kind == Kind::Clock || b.kind == Kind::Clock {
        return a.kind == Kind::Clock && b.kind == Kind::Clock;
    }
    if a.kind == Kind::Estimate || b.kind == Kind::Estimate {
        return a.kind == b.kind;
    }
    let fa = footprint(a);
    let fb = footprint(b);
    for (oa, wa) in &fa {
        for (ob, wb) in &fb {
            if (*wa || *wb) && objects_overlap(oa, ob) {
                return true;
            }
        }
    }
    false
}

#[derive(Clone, Debug, PartialEq, Eq)]
pub enum Obj {
    /// a directory entry (path)
    Name(String),
    /// the listing of a directory
    Listing(String),
    /// an inode (metadata and content)
    Inode(u64),
}

fn objects_overlap(a: &Obj, b: &Obj) -> bool {
    match (a, b) {
        (Obj::Name(x), Obj::Name(y)) => x == y || x.starts_with(&format!("{}/", y)) || y.starts_with(&format!("{}/", x)),
        (Obj::Listing(d), Obj::Name(n)) | (Obj::Name(n), Obj::Listing(d)) => {
            std::path::Path::new(n).parent().map(|p| p.to_string_lossy() == d.as_str()).unwrap_or(false) || n == d
        }
        (Obj::Listing(x), Obj::Listing(y)) => x == y,
        (Obj::Inode(x), Obj::Inode(y)) => x == y && *x != 0,
        _ => false,
    }
}

/// (object, written?) pairs touched by a call.
pub fn footprint(e: &Ev) -> Vec<(Obj, bool)> {
    let mut v = Vec::new();
    let name = |p: &Option<String>| p.clone().map(Obj::Name);
    match e.kind {
        Kind::Open => {
            let creates = (e.flags as i32 & (libc::O_CREAT | libc::O_TRUNC)) != 0;
            if let Some(n) = name(&e.path) {
                v.push((n, creates));
            }
            if e.ino != 0 {
                v.push((Obj::Inode(e.ino), creates));
            }
        }
        Kind::Stat => {
            if let Some(n) = name(&e.path) {
                v.push((n, false));
            }
            if e.ino != 0 {
                v.push((Obj::Inode(e.ino), false));
            }
        }
        Kind::Rename | Kind::Link => {
            if let Some(n) = name(&e.path) {
                v.push((n, true));
            }
            if let Some(n) = name(&e.path2) {
                v.push((n, true));
            }
            if e.ino != 0 {
                v.push((Obj::Inode(e.ino), true));
            }
            if e.ino2 != 0 {
                v.push((Obj::Inode(e.ino2), true));
            }
        }
        Kind::Unlink | Kind::Rmdir | Kind::Mkdir | Kind::Symlink => {
            if let Some(n) = name(&e.path) {
                v.push((n, true));
            }
            if e.ino != 0 {
                v.push((Obj::Inode(e.ino), true));
            }
        }
        Kind::Chmod | Kind::Truncate => {
            if let Some(n) = name(&e.path) {
                v.push((n, false));
            }
            if e.ino != 0 {
                v.push((Obj::Inode(e.ino), true));
            }
        }
        Kind::Fchmod | Kind::Utimens | Kind::Write | Kind::CopyRange | Kind::Fsync => {
            if e.kind == Kind::Utimens {
                if let Some(n) = name(&e.path) {
                    if e.fd < 0 {
                        v.push((n, false));
                    }
                }
            }
            if e.ino != 0 {
                v.push((Obj::Inode(e.ino), e.kind != Kind::Fsync));
            }
            if e.ino2 != 0 {
                v.push((Obj::Inode(e.ino2), false));
            }
        }
        Kind::Read => {
            if e.ino != 0 {
                // reading may update atime (emulated): a metadata write
                v.push((Obj::Inode(e.ino), true));
            }
        }
        Kind::Opendir => {
            if let Some(p) = &e.path {
                v.push((Obj::Name(p.clone()), false));
            }
        }
        Kind::Readdir => {
            if let Some(p) = &e.path {
                v.push((Obj::Listing(p.clone()), false));
            }
        }
        _ => {}
    }
    v
}

/// One execution under the given choice prefix; afterwards the default policy
/// (keep running the current thread, else the lowest enabled id).
pub fn run_schedule(prog: &Program, prefix: &[usize], opts: RunOpts) -> Execution {
    run::reset_env();
    // (programs named "...-dtunknown-..." run on a filesystem whose listings report no entry type)
    shim::set_dtype_unknown(prog.name.contains("dtunknown"));
    // (programs named "...-stagedfuture-...": values are staged in the cache's .kismet_temp, dated a day ahead)
    ops::set_staged_source(if prog.name.contains("stagedfuture") { Some(86_400_000_000_000) } else { None });
    let sc = Scratch::new();
    let dirs = Dirs::under(&sc.root, prog.cfg.readers.len());
    plant_pre(prog, &dirs);
    let n = prog.threads.len();
    let sched = Arc::new(Scheduler {
        st: Mutex::new(SchedState {
            state: vec![TState::Finished; n],
            pending: vec![None; n],
            grant: None,
            free_run: false,
            runaway: false,
            op_events: vec![0; n],
        }),
        cv: Condvar::new(),
        invariant: opts.invariant,
        inv_hits: Mutex::new(vec![]),
        event_budget: opts.event_budget,
        fault: opts.fault,
        fault_seen: std::sync::atomic::AtomicU64::new(0),
    });
    shim::set_controller(Some(sched.clone() as Arc<dyn Controller>));
    let history: Arc<Mutex<Vec<OpRecord>>> = Arc::new(Mutex::new(Vec::new()));
    // shared handles
    let mut handles: BTreeMap<usize, kismet_cache::Cache> = BTreeMap::new();
    for t in &prog.threads {
        handles.entry(t.handle).or_insert_with(|| ops::build(&prog.cfg, &dirs, None));
    }
    let mut joins = Vec::new();
    let mut hang = false;
    for (tid, spec) in prog.threads.iter().enumerate() {
        {
            let mut g = sched.st.lock().unwrap();
            g.state[tid] = TState::Running;
        }
        let cache = handles[&spec.handle].clone();
        let spec = spec.clone();
        let dirs = dirs.clone();
        let sched2 = sched.clone();
        let hist = history.clone();
        let h = std::thread::Builder::new()
            .stack_size(512 * 1024)
            .spawn(move || {
                shim::set_participant(tid as i32);
                for (i, op) in spec.ops.iter().enumerate() {
                    shim::set_op(i as u32);
                    sched2.op_started(tid);
                    if spec.fire {
                        run::trigger_always();
                    } else {
                        run::trigger_never();
                    }
                    run::shard_draws(&[], Some(0));
                    // operation start: a scheduling point, so that "b was called after a returned" is explored
                    shim::pseudo_event(Kind::OpBegin, "op_begin", i as i64);
                    let begin = shim::trace_len() as u64;
                    let outcome = match op {
                        POp::Api(o) => ops::exec(&cache, &dirs, o, &Default::default()),
                        POp::ClockJump(secs) => {
                            shim::clock_jump(secs * 1_000_000_000);
                            Outcome { res: Res::Unit, judge: vec![], populate_calls: 0, populate_old: vec![], handle: None, source: None }
                        }
                        POp::Unlink(rel) => {
                            let r = std::fs::remove_file(dirs.write.join(rel));
                            Outcome {
                                res: match r {
                                    Ok(()) => Res::Unit,
                                    Err(e) if e.kind() == std::io::ErrorKind::NotFound => Res::Bool(false),
                                    Err(e) => Res::Err(e.kind(), e.raw_os_error(), e.to_string()),
                                },
                                judge: vec![],
                                populate_calls: 0,
                                populate_old: vec![],
                                handle: None,
                                source: None,
                            }
                        }
                    };
                    let end = shim::trace_len() as u64;
                    hist.lock().unwrap().push(OpRecord { tid, idx: i, begin, end, op: op.clone(), outcome });
                }
                shim::set_participant(-1);
                sched2.finish(tid);
            })
            .expect("spawn participant");
        joins.push(h);
        // wait until it is parked at its first scheduling point (or done)
        let mut g = sched.st.lock().unwrap();
        let deadline = std::time::Instant::now() + Duration::from_secs(20);
        while g.state[tid] == TState::Running {
            let (ng, to) = sched.cv.wait_timeout(g, Duration::from_millis(500)).unwrap();
            g = ng;
            if to.timed_out() && std::time::Instant::now() > deadline {
                hang = true;
                g.free_run = true;
                sched.cv.notify_all();
                break;
            }
        }
    }
    let mut choices: Vec<usize> = Vec::new();
    let mut points: Vec<Point> = Vec::new();
    let mut running: Option<usize> = None;
    let mut deadlock = false;
    let mut divergence = None;
    let mut sleep: BTreeSet<usize> = BTreeSet::new();
    let mut sleep_blocked = false;
    loop {
        let mut g = sched.st.lock().unwrap();
        let deadline = std::time::Instant::now() + Duration::from_secs(20);
        while g.state.iter().any(|s| *s == TState::Running) && !g.free_run {
            let (ng, _to) = sched.cv.wait_timeout(g, Duration::from_millis(500)).unwrap();
            g = ng;
            if std::time::Instant::now() > deadline {
                hang = true;
                g.free_run = true;
                sched.cv.notify_all();
            }
        }
        if g.free_run {
            break;
        }
        let enabled: Vec<usize> = (0..n).filter(|&t| g.state[t] == TState::Parked).collect();
        if enabled.is_empty() {
            if g.state.iter().any(|s| *s != TState::Finished) {
                deadlock = true;
            }
            break;
        }
        let step = choices.len();
        let pending: Vec<Ev> = enabled.iter().map(|&t| g.pending[t].clone().unwrap()).collect();
        if step == prefix.len() {
            if let Some(s) = &opts.sleep {
                sleep = s.clone();
            }
        }
        let chosen = if step < prefix.len() {
            let c = prefix[step];
            if !enabled.contains(&c) {
                divergence = Some(format!("replay divergence at step {}: thread {} not enabled (enabled {:?})", step, c, enabled));
                g.free_run = true;
                sched.cv.notify_all();
                break;
            }
            c
        } else {
            // default policy, skipping sleeping threads
            let awake: Vec<usize> = enabled.iter().copied().filter(|t| !sleep.contains(t)).collect();
            if awake.is_empty() {
                sleep_blocked = true;
                g.free_run = true;
                sched.cv.notify_all();
                break;
            }
            match running {
                Some(r) if awake.contains(&r) => r,
                _ => awake[0],
            }
        };
        // sleep-set maintenance: wake up sleepers whose pending call depends on the chosen call
        if !sleep.is_empty() {
            let chosen_ev = &pending[enabled.iter().position(|&t| t == chosen).unwrap()];
            let still: BTreeSet<usize> = sleep
                .iter()
                .copied()
                .filter(|&t| match enabled.iter().position(|&x| x == t) {
                    Some(i) => !dependent(&pending[i], chosen_ev),
                    None => false,
                })
                .collect();
            sleep = still;
        }
        points.push(Point { enabled: enabled.clone(), chosen, running_before: running, pending });
        choices.push(chosen);
        running = Some(chosen);
        g.state[chosen] = TState::Running;
        g.grant = Some(chosen);
        sched.cv.notify_all();
    }
    // wait for the participants; abandon (as zombies) those that do not come back
    {
        let mut g = sched.st.lock().unwrap();
        let deadline = std::time::Instant::now() + Duration::from_secs(5);
        while g.state.iter().any(|s| *s != TState::Finished) && std::time::Instant::now() < deadline {
            let (ng, _) = sched.cv.wait_timeout(g, Duration::from_millis(100)).unwrap();
            g = ng;
        }
        if g.runaway {
            hang = true;
        }
        if g.state.iter().any(|s| *s != TState::Finished) {
            hang = true;
            g.free_run = true;
            shim::retire_generation();
            sched.cv.notify_all();
            let deadline = std::time::Instant::now() + Duration::from_secs(3);
            while g.state.iter().any(|s| *s != TState::Finished) && std::time::Instant::now() < deadline {
                let (ng, _) = sched.cv.wait_timeout(g, Duration::from_millis(100)).unwrap();
                g = ng;
            }
        }
        let finished: Vec<bool> = g.state.iter().map(|s| *s == TState::Finished).collect();
        drop(g);
        for (i, h) in joins.into_iter().enumerate() {
            if finished[i] {
                let _ = h.join();
            } else {
                LEAKED.fetch_add(1, std::sync::atomic::Ordering::SeqCst);
                drop(h); // detached zombie
            }
        }
    }
    shim::set_controller(None);
    let trace = shim::take_trace();
    let mut history = std::mem::take(&mut *history.lock().unwrap());
    history.sort_by_key(|r| (r.begin, r.tid));
    let invariant = std::mem::take(&mut *sched.inv_hits.lock().unwrap());
    let final_snapshot = world::snapshot(&sc.root);
    // leftover descriptors from a drained execution
    for (fd, _) in shim::open_fds() {
        unsafe { libc::syscall(libc::SYS_close, fd) };
    }
    let root = sc.root.clone();
    drop(sc);
    Execution {
        choices,
        points,
        trace,
        history,
        invariant,
        deadlock,
        hang,
        divergence,
        final_snapshot,
        root,
        sleep_blocked,
    }
}

pub fn preemptions(points: &[Point]) -> usize {
    points
        .iter()
        .filter(|p| match p.running_before {
            Some(r) => p.enabled.contains(&r) && p.chosen != r,
            None => false,
        })
        .count()
}

/// Canonical form of an execution's observable behaviour (for determinism
/// self-tests and outcome counting): the trace with scratch paths, temp names,
/// inode and fd numbers abstracted, plus results.
pub fn canonical(exec: &Execution) -> String {
    let root = exec.root.to_string_lossy().into_owned();
    let mut tmp_names: BTreeMap<String, usize> = BTreeMap::new();
    let mut canon_path = |p: &str| -> String {
        let p = p.replace(&root, "");
        if let Some(i) = p.find("/.tmp") {
            let (head, tail) = p.split_at(i + 1);
            let n = tmp_names.len();
            let id = *tmp_names.entry(tail.to_string()).or_insert(n);
            format!("{}tmp#{}", head, id)
        } else {
            p
        }
    };
    let mut s = String::new();
    for e in &exec.trace {
        if e.kind == Kind::Clock {
            continue;
        }
        s.push_str(&format!("t{}#{} {}", e.tid, e.op, e.func));
        if let Some(p) = &e.path {
            s.push(' ');
            s.push_str(&canon_path(p));
        }
        if let Some(p) = &e.path2 {
            s.push_str(" > ");
            s.push_str(&canon_path(p));
        }
        if e.ret < 0 {
            s.push_str(&format!(" !{}", e.errno));
        }
        s.push('\n');
    }
    for r in &exec.history {
        s.push_str(&format!("t{} {} -> {}\n", r.tid, r.op.label(), r.outcome.res.label()));
    }
    s
}

/// Outcome class: the history (per-thread results) and the final contents, without the trace.
pub fn outcome_key(exec: &Execution) -> String {
    let root = exec.root.to_string_lossy().into_owned();
    let mut s = String::new();
    let mut h: Vec<&OpRecord> = exec.history.iter().collect();
    h.sort_by_key(|r| (r.tid, r.idx));
    for r in h {
        s.push_str(&format!("t{}.{}={};", r.tid, r.idx, r.outcome.res.label()));
    }
    for (k, n) in &exec.final_snapshot {
        if n.kind == 'f' && !k.contains(".kismet_temp") && !k.starts_with("app_tmp") {
            s.push_str(&format!("{}={};", k, world::describe_bytes(n.content.as_deref().unwrap_or(&[]))));
        }
    }
    let _ = root;
    s
}

pub struct ExploreStats {
    pub executions: u64,
    pub max_events: usize,
    pub max_points: usize,
    pub by_preemptions: BTreeMap<usize, u64>,
    pub sleep_blocked: u64,
    pub solo_suffixes: u64,
    pub hangs: u64,
}

/// A node of the exploration tree: the choice prefix to replay, and (sleep-set mode) the
/// sleep set in force at the first free choice point.
#[derive(Clone, Debug)]
pub struct Item {
    pub prefix: Vec<usize>,
    pub sleep: BTreeSet<usize>,
}

#[derive(Clone, Copy, Debug, PartialEq, Eq)]
pub enum Search {
    /// iterative preemption bounding (Musuvathi-Qadeer), no partial-order reduction
    Bounded(usize),
    /// unbounded depth-first search with sleep sets (sound for an over-approximated dependence
    /// relation: at least one execution per Mazurkiewicz trace)
    Sleep,
}

/// Children of an executed node.
fn children(search: Search, item: &Item, x: &Execution) -> Vec<Item> {
    let mut out = Vec::new();
    match search {
        Search::Bounded(bound) => {
            let mut cost_before = vec![0usize; x.points.len() + 1];
            for (i, p) in x.points.iter().enumerate() {
                let pre = match p.running_before {
                    Some(r) => p.enabled.contains(&r) && p.chosen != r,
                    None => false,
                };
                cost_before[i + 1] = cost_before[i] + pre as usize;
            }
            for i in item.prefix.len()..x.points.len() {
                let p = &x.points[i];
                for &alt in &p.enabled {
                    if alt == p.chosen {
                        continue;
                    }
                    let pre = match p.running_before {
                        Some(r) => p.enabled.contains(&r) && alt != r,
                        None => false,
                    };
                    if cost_before[i] + pre as usize > bound {
                        continue;
                    }
                    let mut np = x.choices[..i].to_vec();
                    np.push(alt);
                    out.push(Item { prefix: np, sleep: BTreeSet::new() });
                }
            }
        }
        Search::Sleep => {
            let mut sleep = item.sleep.clone();
            for i in item.prefix.len()..x.points.len() {
                let p = &x.points[i];
                let idx_of = |t: usize| p.enabled.iter().position(|&e| e == t);
                let chosen_ev = &p.pending[idx_of(p.chosen).unwrap()];
                // siblings in order; each later sibling sleeps on the earlier ones and on the chosen one
                let mut explored: Vec<usize> = vec![p.chosen];
                for &alt in &p.enabled {
                    if alt == p.chosen || sleep.contains(&alt) {
                        continue;
                    }
                    let alt_ev = &p.pending[idx_of(alt).unwrap()];
                    let mut s: BTreeSet<usize> = sleep.clone();
                    for &e in &explored {
                        s.insert(e);
                    }
                    let s: BTreeSet<usize> = s
                        .into_iter()
                        .filter(|&t| match idx_of(t) {
                            Some(j) => !dependent(&p.pending[j], alt_ev),
                            None => false,
                        })
                        .collect();
                    explored.push(alt);
                    let mut np = x.choices[..i].to_vec();
                    np.push(alt);
                    out.push(Item { prefix: np, sleep: s });
                }
                sleep = sleep
                    .into_iter()
                    .filter(|&t| match idx_of(t) {
                        Some(j) => !dependent(&p.pending[j], chosen_ev),
                        None => false,
                    })
                    .collect();
            }
        }
    }
    out
}

fn run_item(
    prog: &Program,
    search: Search,
    item: &Item,
    mk_opts: &dyn Fn() -> RunOpts,
    stats: &mut ExploreStats,
    check: &mut dyn FnMut(&Execution, &[usize]),
) -> Execution {
    let mut o = mk_opts();
    if search == Search::Sleep {
        o.sleep = Some(item.sleep.clone());
    }
    let x = run_schedule(prog, &item.prefix, o);
    if x.hang {
        stats.hangs += 1;
    }
    if x.sleep_blocked {
        stats.sleep_blocked += 1;
    } else {
        stats.executions += 1;
        stats.max_events = stats.max_events.max(x.trace.len());
        stats.max_points = stats.max_points.max(x.points.len());
        *stats.by_preemptions.entry(preemptions(&x.points)).or_insert(0) += 1;
        check(&x, &item.prefix);
    }
    x
}

/// Phase 1: breadth-first expansion from the root until `split` open nodes exist (or the
/// tree is exhausted).  The expanded nodes are executed, checked and counted here.
pub fn expand_frontier(
    prog: &Program,
    search: Search,
    mk_opts: &dyn Fn() -> RunOpts,
    split: usize,
    check: &mut dyn FnMut(&Execution, &[usize]),
    stats: &mut ExploreStats,
) -> Vec<Item> {
    let mut queue: std::collections::VecDeque<Item> = std::collections::VecDeque::new();
    queue.push_back(Item { prefix: vec![], sleep: BTreeSet::new() });
    while queue.len() < split && stats.hangs < 3 {
        let item = match queue.pop_front() {
            Some(i) => i,
            None => break,
        };
        let x = run_item(prog, search, &item, mk_opts, stats, check);
        for c in children(search, &item, &x) {
            queue.push_back(c);
        }
    }
    queue.into_iter().collect()
}

/// Phase 2: depth-first exploration of the subtrees rooted at `items`.
/// Returns false if `cap` executions were reached first.
pub fn explore_items(
    prog: &Program,
    search: Search,
    mk_opts: &dyn Fn() -> RunOpts,
    items: Vec<Item>,
    check: &mut dyn FnMut(&Execution, &[usize]),
    stats: &mut ExploreStats,
    cap: u64,
) -> bool {
    let mut stack = items;
    stack.reverse();
    while let Some(item) = stack.pop() {
        if stats.executions >= cap || stats.hangs >= 3 {
            // (a program that hangs is reported; there is no point in timing out on every schedule)
            return false;
        }
        let x = run_item(prog, search, &item, mk_opts, stats, check);
        let mut ch = children(search, &item, &x);
        ch.reverse();
        stack.extend(ch);
    }
    true
}

pub fn items_to_json(items: &[Item]) -> Value {
    json!(items.iter().map(|i| json!([i.prefix, i.sleep.iter().collect::<Vec<_>>()])).collect::<Vec<_>>())
}

pub fn items_from_json(v: &Value) -> Vec<Item> {
    v.as_array()
        .map(|a| {
            a.iter()
                .map(|i| Item {
                    prefix: i[0].as_array().unwrap().iter().map(|x| x.as_u64().unwrap() as usize).collect(),
                    sleep: i[1].as_array().unwrap().iter().map(|x| x.as_u64().unwrap() as usize).collect(),
                })
                .collect()
        })
        .unwrap_or_default()
}

pub fn new_stats() -> ExploreStats {
    ExploreStats { executions: 0, max_events: 0, max_points: 0, by_preemptions: BTreeMap::new(), sleep_blocked: 0, solo_suffixes: 0, hangs: 0 }
}

pub fn add_stats(rep: &mut Report, prog: &Program, stats: &ExploreStats, complete: bool, mode: &str) {
    rep.count("executions", stats.executions);
    rep.count(&format!("executions[{}]", prog.name), stats.executions);
    rep.count("sleep_blocked_partial_runs", stats.sleep_blocked);
    for (k, v) in &stats.by_preemptions {
        rep.count(&format!("executions_with_{}_preemptions", k), *v);
    }
    rep.fact(
        &format!("max_events_{}", prog.name),
        json!(stats.max_events),
    );
    if !complete {
        rep.exhaustive = false;
        rep.fact(&format!("capped_{}_{}", mode, prog.name), json!(true));
    }
}
