//! Scratch directories, values, snapshots.
use std::collections::BTreeMap;
use std::ffi::CString;
use std::os::unix::ffi::OsStrExt;
use std::path::{Path, PathBuf};
use std::sync::atomic::{AtomicU64, Ordering::SeqCst};

pub const SCRATCH_PREFIX: &str = "/dev/shm/kverif";

static CASE_NO: AtomicU64 = AtomicU64::new(0);

pub fn fs_root() -> String {
    std::env::var("VERIF_FS_ROOT").unwrap_or_else(|_| SCRATCH_PREFIX.to_string())
}

pub fn worker_root() -> PathBuf {
    PathBuf::from(format!("{}.{}", fs_root(), std::process::id()))
}

/// One scratch directory per case; removed on drop.
pub struct Scratch {
    pub root: PathBuf,
}

impl Scratch {
    pub fn new() -> Scratch {
        let n = CASE_NO.fetch_add(1, SeqCst);
        let root = worker_root().join(format!("c{}", n));
        crate::shim::passthrough(|| {
            let _ = std::fs::remove_dir_all(&root);
            std::fs::create_dir_all(&root).expect("create scratch");
        });
        Scratch { root }
    }
    pub fn path(&self, rel: &str) -> PathBuf {
        self.root.join(rel)
    }
}

impl Drop for Scratch {
    fn drop(&mut self) {
        crate::shim::passthrough(|| {
            let _ = remove_tree(&self.root);
        });
    }
}

/// remove_dir_all that also copes with read-only directories.
pub fn remove_tree(p: &Path) -> std::io::Result<()> {
    std::fs::remove_dir_all(p)
}

pub fn cleanup_worker_root() {
    let _ = std::fs::remove_dir_all(worker_root());
}

// ---------------------------------------------------------------------------
// Values

#[derive(Clone, Copy, Debug, PartialEq, Eq, Hash, PartialOrd, Ord)]
pub enum Size {
    Empty,
    One,
    Five,
    Chunks,
    /// 12 x 8 KiB = 96 KiB (past any "large value" threshold of 64 KiB), written by twelve write calls
    Large,
}

#[derive(Clone, Copy, Debug, PartialEq, Eq, Hash, PartialOrd, Ord)]
pub struct Val {
    pub id: u8,
    pub size: Size,
}

pub const CHUNK: usize = 8192;
pub const NCHUNKS: usize = 3;
pub const LARGE_CHUNKS: usize = 12;

impl Val {
    pub fn new(id: u8, size: Size) -> Val {
        Val { id, size }
    }
    pub fn one(id: u8) -> Val {
        Val {
            id,
            size: Size::One,
        }
    }
    /// The chunks this value is written in (one `write` call each).
    pub fn chunks(&self) -> Vec<Vec<u8>> {
        match self.size {
            Size::Empty => vec![],
            Size::One => vec![vec![b'A' + self.id]],
            Size::Five => vec![vec![b'a' + self.id; 5]],
            Size::Chunks | Size::Large => (0..if self.size == Size::Large { LARGE_CHUNKS } else { NCHUNKS })
                .map(|j| {
                    let mut c = Vec::with_capacity(CHUNK);
                    let mut k: u16 = 0;
                    while c.len() < CHUNK {
                        c.extend_from_slice(&[
                            b'0' + self.id,
                            b'0' + j as u8,
                            (k & 0xff) as u8,
                            (k >> 8) as u8,
                        ]);
                        k = k.wrapping_add(1);
                    }
                    c
                })
                .collect(),
        }
    }
    pub fn bytes(&self) -> Vec<u8> {
        self.chunks().concat()
    }
    pub fn label(&self) -> String {
        format!(
            "{}{}",
            (b'A' + self.id) as char,
            match self.size {
                Size::Empty => "0",
                Size::One => "1",
                Size::Five => "5",
                Size::Chunks => "c",
                Size::Large => "L",
            }
        )
    }
}

/// Which value these bytes are, exactly; `None` for anything else (empty,
/// truncated, mixed, foreign).
pub fn identify(bytes: &[u8]) -> Option<Val> {
    let cand = match bytes.len() {
        0 => return None,
        1 => {
            if bytes[0] < b'A' || bytes[0] > b'Z' {
                return None;
            }
            Val::new(bytes[0] - b'A', Size::One)
        }
        5 => {
            if bytes[0] < b'a' || bytes[0] > b'z' {
                return None;
            }
            Val::new(bytes[0] - b'a', Size::Five)
        }
        n if n == CHUNK * NCHUNKS => {
            if bytes[0] < b'0' {
                return None;
            }
            Val::new(bytes[0] - b'0', Size::Chunks)
        }
        n if n == CHUNK * LARGE_CHUNKS => {
            if bytes[0] < b'0' {
                return None;
            }
            Val::new(bytes[0] - b'0', Size::Large)
        }
        _ => return None,
    };
    if cand.bytes() == bytes {
        Some(cand)
    } else {
        None
    }
}

pub fn describe_bytes(bytes: &[u8]) -> String {
    match identify(bytes) {
        Some(v) => v.label(),
        None => {
            if bytes.is_empty() {
                "<empty>".to_string()
            } else {
                format!(
                    "<corrupt len={} head={:?}>",
                    bytes.len(),
                    String::from_utf8_lossy(&bytes[..bytes.len().min(8)])
                )
            }
        }
    }
}

// ---------------------------------------------------------------------------
// Raw metadata helpers (never intercepted as participant calls when wrapped
// in `passthrough`; safe from any thread)

#[derive(Clone, Debug, PartialEq, Eq)]
pub struct Meta {
    pub mode: u32,
    pub size: u64,
    pub mtime: i128,
    pub atime: i128,
    pub nlink: u64,
    pub ino: u64,
    pub dev: u64,
}

impl Meta {
    pub fn is_dir(&self) -> bool {
        (self.mode & libc::S_IFMT) == libc::S_IFDIR
    }
    pub fn is_file(&self) -> bool {
        (self.mode & libc::S_IFMT) == libc::S_IFREG
    }
    pub fn perm(&self) -> u32 {
        self.mode & 0o7777
    }
    pub fn accessed(&self) -> bool {
        self.atime >= self.mtime
    }
}

pub fn cpath(p: &Path) -> CString {
    CString::new(p.as_os_str().as_bytes()).expect("nul in path")
}

pub fn lstat(p: &Path) -> Option<Meta> {
    let c = cpath(p);
    let mut st: libc::stat = unsafe { std::mem::zeroed() };
    let r = unsafe {
        libc::syscall(
            libc::SYS_newfstatat,
            libc::AT_FDCWD,
            c.as_ptr(),
            &mut st,
            libc::AT_SYMLINK_NOFOLLOW,
        )
    };
    if r != 0 {
        return None;
    }
    Some(meta_of(&st))
}

pub fn fstat(fd: i32) -> Option<Meta> {
    let mut st: libc::stat = unsafe { std::mem::zeroed() };
    let r = unsafe { libc::syscall(libc::SYS_fstat, fd, &mut st) };
    if r != 0 {
        return None;
    }
    Some(meta_of(&st))
}

fn meta_of(st: &libc::stat) -> Meta {
    Meta {
        mode: st.st_mode,
        size: st.st_size as u64,
        mtime: st.st_mtime as i128 * 1_000_000_000 + st.st_mtime_nsec as i128,
        atime: st.st_atime as i128 * 1_000_000_000 + st.st_atime_nsec as i128,
        nlink: st.st_nlink as u64,
        ino: st.st_ino as u64,
        dev: st.st_dev as u64,
    }
}

/// Sets (atime, mtime) in nanoseconds since the epoch, raw.
pub fn set_times(p: &Path, atime_ns: i128, mtime_ns: i128) {
    let c = cpath(p);
    let ts = [
        libc::timespec {
            tv_sec: atime_ns.div_euclid(1_000_000_000) as i64,
            tv_nsec: atime_ns.rem_euclid(1_000_000_000) as i64,
        },
        libc::timespec {
            tv_sec: mtime_ns.div_euclid(1_000_000_000) as i64,
            tv_nsec: mtime_ns.rem_euclid(1_000_000_000) as i64,
        },
    ];
    let r = unsafe {
        libc::syscall(
            libc::SYS_utimensat,
            libc::AT_FDCWD,
            c.as_ptr(),
            ts.as_ptr(),
            libc::AT_SYMLINK_NOFOLLOW,
        )
    };
    assert!(r == 0, "utimensat {:?} failed", p);
}

pub fn raw_chmod(p: &Path, mode: u32) {
    let c = cpath(p);
    unsafe { libc::syscall(libc::SYS_fchmodat, libc::AT_FDCWD, c.as_ptr(), mode) };
}

/// Creates a file with the given content, mode and times (harness-side).
pub fn plant(p: &Path, content: &[u8], mode: u32, atime_ns: i128, mtime_ns: i128) {
    crate::shim::passthrough(|| {
        if let Some(parent) = p.parent() {
            std::fs::create_dir_all(parent).expect("mkdir parent");
        }
        std::fs::write(p, content).expect("plant write");
        raw_chmod(p, mode);
        set_times(p, atime_ns, mtime_ns);
    })
}

pub fn read_file(p: &Path) -> Option<Vec<u8>> {
    crate::shim::passthrough(|| std::fs::read(p).ok())
}

// ---------------------------------------------------------------------------
// Snapshots

#[derive(Clone, Debug, PartialEq, Eq)]
pub struct Node {
    pub kind: char,
    pub meta: Meta,
    pub content: Option<Vec<u8>>,
}

pub type Snapshot = BTreeMap<String, Node>;

/// Recursive snapshot of `root` (relative paths; root itself is "").
pub fn snapshot(root: &Path) -> Snapshot {
    let mut out = BTreeMap::new();
    crate::shim::passthrough(|| {
        if let Some(m) = lstat(root) {
            walk(root, "", &m, &mut out);
        }
    });
    out
}

fn walk(abs: &Path, rel: &str, m: &Meta, out: &mut Snapshot) {
    let kind = if m.is_dir() {
        'd'
    } else if m.is_file() {
        'f'
    } else {
        'o'
    };
    let content = if kind == 'f' {
        std::fs::read(abs).ok()
    } else {
        None
    };
    out.insert(
        rel.to_string(),
        Node {
            kind,
            meta: m.clone(),
            content,
        },
    );
    if kind == 'd' {
        let mut names: Vec<std::ffi::OsString> = match std::fs::read_dir(abs) {
            Ok(rd) => rd.filter_map(|e| e.ok().map(|e| e.file_name())).collect(),
            Err(_) => vec![],
        };
        names.sort();
        for n in names {
            let child = abs.join(&n);
            let crel = if rel.is_empty() {
                n.to_string_lossy().into_owned()
            } else {
                format!("{}/{}", rel, n.to_string_lossy())
            };
            if let Some(cm) = lstat(&child) {
                walk(&child, &crel, &cm, out);
            }
        }
    }
}

/// Differences between two snapshots as (kind, relative path), ignoring
/// directory times/sizes (the kernel owns those) and, optionally, file atimes.
/// kinds: "-", "+", "type", "content", "mode", "mtime", "atime", "inode".
pub fn diff(a: &Snapshot, b: &Snapshot, ignore_file_atime: bool) -> Vec<(String, String)> {
    let mut out = Vec::new();
    let mut push = |k: &str, rel: &str| out.push((k.to_string(), rel.to_string()));
    for (k, na) in a {
        match b.get(k) {
            None => push("-", k),
            Some(nb) => {
                if na.kind != nb.kind {
                    push("type", k);
                    continue;
                }
                if na.kind == 'd' {
                    if na.meta.perm() != nb.meta.perm() {
                        push("mode", k);
                    }
                    continue;
                }
                if na.content != nb.content {
                    push("content", k);
                }
                if na.meta.perm() != nb.meta.perm() {
                    push("mode", k);
                }
                if na.meta.mtime != nb.meta.mtime {
                    push("mtime", k);
                }
                if !ignore_file_atime && na.meta.atime != nb.meta.atime {
                    push("atime", k);
                }
                if na.meta.ino != nb.meta.ino {
                    push("inode", k);
                }
                if na.meta.nlink != nb.meta.nlink {
                    push("nlink", k);
                }
            }
        }
    }
    for k in b.keys() {
        if !a.contains_key(k) {
            push("+", k);
        }
    }
    out
}

/// FNV-1a, for cheap stable hashes of canonical strings.
pub fn fnv(s: &[u8]) -> u64 {
    let mut h: u64 = 0xcbf29ce484222325;
    for b in s {
        h ^= *b as u64;
        h = h.wrapping_mul(0x100000001b3);
    }
    h
}

// ---------------------------------------------------------------------------
// Panic bookkeeping (the process-wide hook stores the last message per thread)

thread_local! {
    static LAST_PANIC: std::cell::RefCell<Option<String>> = const { std::cell::RefCell::new(None) };
}

pub fn note_panic(msg: String) {
    let _ = LAST_PANIC.try_with(|p| *p.borrow_mut() = Some(msg));
}

pub fn take_panic() -> Option<String> {
    LAST_PANIC.try_with(|p| p.borrow_mut().take()).ok().flatten()
}
