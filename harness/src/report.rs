//! What a worker reports: counts, distinct-case hashes, samples, violations.
use serde_json::{json, Map, Value};
use std::collections::BTreeSet;

#[derive(Clone, Copy, Debug)]
pub struct Shard {
    pub index: u64,
    pub count: u64,
}

impl Shard {
    pub fn mine(&self, n: u64) -> bool {
        n % self.count == self.index
    }
}

#[derive(Clone, Copy, Debug, PartialEq, Eq)]
pub enum Tier {
    Quick,
    Thorough,
}

#[derive(Clone, Debug)]
pub struct Violation {
    /// Canonical identity of the failure (matched against known findings).
    pub signature: String,
    pub text: String,
    /// Everything needed to re-run exactly this case.
    pub case: Value,
}

pub struct Report {
    pub property: String,
    pub evaluations: u64,
    pub states: u64,
    pub transitions: u64,
    pub traces: u64,
    /// Hashes of distinct non-trivial cases (by the property's rule).
    pub nontrivial: BTreeSet<u64>,
    /// Hashes of distinct observed outcomes.
    pub outcomes: BTreeSet<u64>,
    pub samples: Vec<Value>,
    pub violations: Vec<Violation>,
    pub violation_count: u64,
    /// Additional numeric counters, summed across workers.
    pub counters: Map<String, Value>,
    /// Free-form facts (bounds completed, etc.); first worker wins.
    pub facts: Map<String, Value>,
    pub rule: String,
    pub assumptions: Vec<String>,
    pub exhaustive: bool,
    pub max_samples: usize,
}

impl Report {
    pub fn new(property: &str) -> Report {
        Report {
            property: property.to_string(),
            evaluations: 0,
            states: 0,
            transitions: 0,
            traces: 0,
            nontrivial: BTreeSet::new(),
            outcomes: BTreeSet::new(),
            samples: Vec::new(),
            violations: Vec::new(),
            violation_count: 0,
            counters: Map::new(),
            facts: Map::new(),
            rule: String::new(),
            assumptions: Vec::new(),
            exhaustive: true,
            max_samples: 4,
        }
    }

    pub fn sample(&mut self, v: Value) {
        if self.samples.len() < self.max_samples {
            self.samples.push(v);
        }
    }

    pub fn count(&mut self, key: &str, n: u64) {
        let cur = self.counters.get(key).and_then(|v| v.as_u64()).unwrap_or(0);
        self.counters.insert(key.to_string(), json!(cur + n));
    }

    pub fn fact(&mut self, key: &str, v: Value) {
        self.facts.insert(key.to_string(), v);
    }

    pub fn violation(&mut self, signature: impl Into<String>, text: impl Into<String>, case: Value) {
        self.violation_count += 1;
        let signature = signature.into();
        // keep at most a few per signature, 60 overall
        let same = self
            .violations
            .iter()
            .filter(|v| v.signature == signature)
            .count();
        if same < 3 && self.violations.len() < 60 {
            self.violations.push(Violation {
                signature,
                text: text.into(),
                case,
            });
        }
    }

    pub fn to_json(&self) -> Value {
        json!({
            "property": self.property,
            "evaluations": self.evaluations,
            "states": self.states,
            "transitions": self.transitions,
            "traces": self.traces,
            "nontrivial": self.nontrivial.iter().map(|h| format!("{:016x}", h)).collect::<Vec<_>>(),
            "outcomes": self.outcomes.iter().map(|h| format!("{:016x}", h)).collect::<Vec<_>>(),
            "samples": self.samples,
            "violations": self.violations.iter().map(|v| json!({
                "signature": v.signature, "text": v.text, "case": v.case})).collect::<Vec<_>>(),
            "violation_count": self.violation_count,
            "counters": self.counters,
            "facts": self.facts,
            "rule": self.rule,
            "assumptions": self.assumptions,
            "exhaustive": self.exhaustive,
        })
    }
}
