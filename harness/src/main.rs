mod ops;
mod props;
mod report;
mod run;
mod sched;
mod shim;
mod world;

use report::{Report, Shard, Tier};

/// The process's allocator, with one knob: on a thread that sets `ALLOC_LIMIT`, any single request above the limit is
/// refused (null), which is what an address-space limit, a cgroup or strict overcommit do to large requests.  Fallible
/// reservations see an error; infallible ones abort the process (so the knob is only ever turned in a forked child).
pub struct Gate;
thread_local! {
    pub static ALLOC_LIMIT: std::cell::Cell<usize> = const { std::cell::Cell::new(usize::MAX) };
}
fn alloc_limit() -> usize {
    ALLOC_LIMIT.try_with(|c| c.get()).unwrap_or(usize::MAX)
}
unsafe impl std::alloc::GlobalAlloc for Gate {
    unsafe fn alloc(&self, l: std::alloc::Layout) -> *mut u8 {
        if l.size() > alloc_limit() {
            return std::ptr::null_mut();
        }
        std::alloc::System.alloc(l)
    }
    unsafe fn dealloc(&self, p: *mut u8, l: std::alloc::Layout) {
        std::alloc::System.dealloc(p, l)
    }
    unsafe fn alloc_zeroed(&self, l: std::alloc::Layout) -> *mut u8 {
        if l.size() > alloc_limit() {
            return std::ptr::null_mut();
        }
        std::alloc::System.alloc_zeroed(l)
    }
    unsafe fn realloc(&self, p: *mut u8, l: std::alloc::Layout, new_size: usize) -> *mut u8 {
        if new_size > alloc_limit() {
            return std::ptr::null_mut();
        }
        std::alloc::System.realloc(p, l, new_size)
    }
}
#[global_allocator]
static GLOBAL: Gate = Gate;
use std::io::Write;

fn probe() {
    let root = format!("/dev/shm/kverif.probe.{}", std::process::id());
    std::fs::create_dir_all(&root).unwrap();
    shim::set_noatime_prefix("/dev/shm/kverif");
    shim::reset_case();
    shim::clock_virtual(shim::real_now_ns(), 1_000_000);
    let cache = kismet_cache::CacheBuilder::new()
        .plain_writer(format!("{}/cache", root), 2)
        .take()
        .build();
    shim::set_participant(0);
    for (i, k) in ["a", "b", "c"].iter().enumerate() {
        shim::set_op(i as u32);
        let f = cache
            .ensure(kismet_cache::Key::new(k, 1, 2), |f| f.write_all(b"hello"))
            .unwrap();
        drop(f);
    }
    shim::set_op(10);
    let _ = cache.get(kismet_cache::Key::new("a", 1, 2)).unwrap();
    shim::set_op(11);
    let _ = cache.touch(kismet_cache::Key::new("c", 1, 2)).unwrap();
    shim::set_participant(-1);
    for e in shim::take_trace() {
        println!("{:4} {}", e.seq, e.brief());
    }
    std::fs::remove_dir_all(&root).unwrap();
}

/// Shim-completeness audit: one scenario per operation kind, run as a participant between two marker
/// system calls; prints the shim's per-kind counts.  `tools/audit.py` runs this under strace and
/// compares them with what the kernel saw from the same thread.
fn audit() {
    use ops::{Act, Front, Op, Pop, StackCfg, K};
    use world::{Size, Val};
    run::reset_env();
    shim::set_atime_policy(shim::ATIME_NOATIME);
    shim::clock_real();
    let sc = world::Scratch::new();
    let dirs = ops::Dirs::under(&sc.root, 1);
    let old = run::base_time_ns() as i128 - 86_400_000_000_000;
    world::plant(&dirs.reads[0].join("promoted"), &Val::new(3, Size::Chunks).bytes(), 0o444, old - 120_000_000_000, old);
    for i in 0..4 {
        world::plant(&dirs.write.join(format!("e{}", i)), b"x", 0o444, old + 5, old);
    }
    let cfg = StackCfg { writer: Some((Front::Plain, 2)), readers: vec![Front::Plain], checker: ops::Checker::ByteEq, auto_sync: true };
    let cache = ops::build(&cfg, &dirs, None);
    let sharded = ops::build(
        &StackCfg { writer: Some((Front::Sharded(3), 3)), readers: vec![], checker: ops::Checker::None, auto_sync: true },
        &ops::Dirs { write: sc.path("ws"), reads: vec![], app_tmp: dirs.app_tmp.clone() },
        None,
    );
    let k = |n: &str| K::new(n, 1, 2);
    let opsv = vec![
        Op::Ensure(k("a"), Pop::Value(Val::new(1, Size::Chunks))),
        Op::Get(k("a")),
        Op::Touch(k("a")),
        Op::Set(k("b"), Val::one(2)),
        Op::Put(k("b"), Val::one(3)),
        Op::SetTemp(k("c"), Val::one(4)),
        Op::PutTemp(k("c"), Val::one(5)),
        Op::Ensure(k("promoted"), Pop::Value(Val::new(3, Size::Chunks))),
        Op::Gou(k("a"), Act::Replace, Pop::Value(Val::one(6))),
        Op::Get(k("missing")),
        Op::Touch(k("missing")),
    ];
    let marker = std::ffi::CString::new("/kverif-audit-marker").unwrap();
    unsafe { libc::syscall(libc::SYS_access, marker.as_ptr(), 0) };
    let (_r, trace) = run::as_participant(0, 0, || {
        for (i, op) in opsv.iter().enumerate() {
            run::trigger_fire_next(u64::MAX);
            let c = if i % 2 == 0 { &cache } else { &cache };
            let _ = ops::exec(c, &dirs, op, &Default::default());
            let _ = ops::exec(&sharded, &dirs, op, &Default::default());
        }
    });
    unsafe { libc::syscall(libc::SYS_access, marker.as_ptr(), 0) };
    let mut counts: std::collections::BTreeMap<String, u64> = Default::default();
    for e in &trace {
        let key = match e.kind {
            shim::Kind::Open => "open",
            shim::Kind::Stat => "stat",
            shim::Kind::Rename => "rename",
            shim::Kind::Link => "link",
            shim::Kind::Unlink => "unlink",
            shim::Kind::Mkdir => "mkdir",
            shim::Kind::Chmod => "chmod",
            shim::Kind::Fchmod => "fchmod",
            shim::Kind::Fsync => "fsync",
            shim::Kind::Utimens => "utimens",
            shim::Kind::CopyRange => "copy_file_range",
            shim::Kind::Write => "write",
            shim::Kind::Opendir => "opendir",
            shim::Kind::Close => "close",
            shim::Kind::Closedir => "closedir",
            _ => continue,
        };
        *counts.entry(key.to_string()).or_insert(0) += 1;
    }
    println!("SHIM-COUNTS {}", serde_json::to_string(&counts).unwrap());
}

fn arg_after<'a>(args: &'a [String], flag: &str) -> Option<&'a str> {
    args.iter()
        .position(|a| a == flag)
        .and_then(|i| args.get(i + 1))
        .map(|s| s.as_str())
}

fn dispatch_run(prop: &str, tier: Tier, shard: Shard, rep: &mut Report) {
    props::e1::THOROUGH.store(tier == Tier::Thorough, std::sync::atomic::Ordering::SeqCst);
    match prop {
        "C02" => props::c02::run(tier, shard, rep),
        "C03" => props::c03::run(tier, shard, rep),
        "C01" => props::c01::run(tier, shard, rep),
        "C04" => props::c04::run(tier, shard, rep),
        "C05" => props::c05::run(tier, shard, rep),
        "C06" => props::c06::run(tier, shard, rep),
        "C07" => props::c07::run(tier, shard, rep),
        "C08" => props::c08::run(tier, shard, rep),
        "C09" => props::c09::run(tier, shard, rep),
        "C10" => props::c10::run(tier, shard, rep),
        "C11" => props::c11::run(tier, shard, rep),
        "C12" => props::c12::run(tier, shard, rep),
        "C13" => props::c13::run(tier, shard, rep),
        "C14" => props::c14::run(tier, shard, rep),
        "C15" => props::c15::run(tier, shard, rep),
        "C18" => props::c18::run(tier, shard, rep),
        "C19" => props::c19::run(tier, shard, rep),
        "C20" => props::c20::run(tier, shard, rep),
        "C16" => props::c16::run(tier, shard, rep),
        "C17" => props::c17::run(tier, shard, rep),
        _ => {
            eprintln!("unknown property {}", prop);
            std::process::exit(2);
        }
    }
}

fn dispatch_replay(prop: &str, case: &serde_json::Value, rep: &mut Report) {
    match prop {
        "C02" => props::c02::replay(case, rep),
        "C03" => props::c03::replay(case, rep),
        "C01" => props::c01::replay(case, rep),
        "C04" => props::c04::replay(case, rep),
        "C05" => props::c05::replay(case, rep),
        "C06" => props::c06::replay(case, rep),
        "C07" => props::c07::replay(case, rep),
        "C08" => props::c08::replay(case, rep),
        "C09" => props::c09::replay(case, rep),
        "C10" => props::c10::replay(case, rep),
        "C11" => props::c11::replay(case, rep),
        "C12" => props::c12::replay(case, rep),
        "C13" => props::c13::replay(case, rep),
        "C14" => props::c14::replay(case, rep),
        "C15" => props::c15::replay(case, rep),
        "C18" => props::c18::replay(case, rep),
        "C19" => props::c19::replay(case, rep),
        "C20" => props::c20::replay(case, rep),
        "C16" => props::c16::replay(case, rep),
        "C17" => props::c17::replay(case, rep),
        _ => {
            eprintln!("unknown property {}", prop);
            std::process::exit(2);
        }
    }
}

fn main() {
    let args: Vec<String> = std::env::args().collect();
    shim::set_noatime_prefix(&world::fs_root());
    // Expected panics (catch_unwind in oracles) should not spam stderr.
    if std::env::var("KVERIF_PANIC_MSG").is_err() {
        std::panic::set_hook(Box::new(|info| {
            crate::world::note_panic(info.to_string());
        }));
    }
    match args.get(1).map(|s| s.as_str()) {
        Some("probe") => probe(),
        Some("audit") => audit(),
        Some("outcomes") => {
            // debug: kverif outcomes C06 <program-name> [bound]: distinct outcome classes of one program
            let prop = args.get(2).expect("property").clone();
            let name = args.get(3).expect("program").clone();
            let bound: usize = args.get(4).and_then(|s| s.parse().ok()).unwrap_or(2);
            sched::install_hooks();
            let progs: Vec<sched::Program> = match prop.as_str() {
                "C06" => props::c06::programs(Tier::Thorough).into_iter().map(|p| p.0).collect(),
                "C05" => props::c05::programs(Tier::Thorough).into_iter().map(|p| p.0).collect(),
                "C01" => props::c01::programs(Tier::Thorough).into_iter().map(|p| p.0).collect(),
                _ => props::c04::programs(Tier::Thorough).into_iter().map(|p| p.0).collect(),
            };
            let prog = progs.iter().find(|p| p.name == name).expect("no such program");
            let mut stats = sched::new_stats();
            let mut seen: std::collections::BTreeMap<String, (u64, Vec<usize>)> = Default::default();
            let mut chk = |x: &sched::Execution, _p: &[usize]| {
                let e = seen.entry(sched::outcome_key(x)).or_insert((0, x.choices.clone()));
                e.0 += 1;
            };
            let items = sched::expand_frontier(prog, sched::Search::Bounded(bound), &|| sched::RunOpts::default(), 1, &mut chk, &mut stats);
            sched::explore_items(prog, sched::Search::Bounded(bound), &|| sched::RunOpts::default(), items, &mut chk, &mut stats, 1_000_000);
            println!("{} executions", stats.executions);
            for (k, (n, c)) in seen {
                println!("{:6}  {}  e.g. {:?}", n, k, c);
            }
        }
        Some("run") => {
            let prop = args.get(2).expect("property").clone();
            let tier = match arg_after(&args, "--tier") {
                Some("thorough") => Tier::Thorough,
                _ => Tier::Quick,
            };
            let shard = match arg_after(&args, "--shard") {
                Some(s) => {
                    let mut it = s.split('/');
                    Shard {
                        index: it.next().unwrap().parse().unwrap(),
                        count: it.next().unwrap().parse().unwrap(),
                    }
                }
                None => Shard { index: 0, count: 1 },
            };
            let out = arg_after(&args, "--out").expect("--out");
            let mut rep = Report::new(&prop);
            let t0 = std::time::Instant::now();
            dispatch_run(&prop, tier, shard, &mut rep);
            rep.fact("worker_wall_s", serde_json::json!(t0.elapsed().as_secs_f64()));
            world::cleanup_worker_root();
            std::fs::write(out, serde_json::to_vec(&rep.to_json()).unwrap()).unwrap();
        }
        Some("replay") => {
            let prop = args.get(2).expect("property").clone();
            let path = args.get(3).expect("replay file");
            let out = arg_after(&args, "--out").expect("--out");
            let v: serde_json::Value =
                serde_json::from_slice(&std::fs::read(path).expect("read replay")).expect("json");
            let case = v.get("case").cloned().unwrap_or(v);
            // same case twice: identical verdicts required
            let mut rep1 = Report::new(&prop);
            dispatch_replay(&prop, &case, &mut rep1);
            let mut rep2 = Report::new(&prop);
            dispatch_replay(&prop, &case, &mut rep2);
            let s1: Vec<&str> = rep1.violations.iter().map(|v| v.signature.as_str()).collect();
            let s2: Vec<&str> = rep2.violations.iter().map(|v| v.signature.as_str()).collect();
            if s1 != s2 {
                eprintln!("replay is not deterministic: {:?} vs {:?}", s1, s2);
                std::process::exit(3);
            }
            world::cleanup_worker_root();
            std::fs::write(out, serde_json::to_vec(&rep1.to_json()).unwrap()).unwrap();
        }
        _ => {
            eprintln!("usage: kverif run <PROP> --tier quick|thorough --shard i/n --out FILE | replay <PROP> FILE --out FILE | probe");
            std::process::exit(2);
        }
    }
}
