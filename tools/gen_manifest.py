#!/usr/bin/env python3
"""Generates /verif/MANIFEST.json from the table below (keeps it valid and current)."""
import json, os, subprocess

HOOK_COMMITS = ["3713a50", "e1437ee"]

# id -> (technique, level text, level note, design ref)
CHECKS = {
 "C01": ("stateless model checking of the real code: every interleaving of 2-3 participants at filesystem-call granularity within a preemption bound (unbounded with sleep sets for selected pairs), with a content invariant evaluated after every mutating call",
         "33 (quick) curated programs over plain, sharded and stacked front-ends, multi-chunk values, own and shared handles, with and without maintenance on every write: all schedules with <= 2 preemptions (thorough: more programs, bound 3, unbounded sleep-set search for the classic pairs). Every handle returned is read to the end and must be exactly one value written for that key; after every rename/link/write/copy/truncate every key-named file visible in a cache directory must hold a complete value for its name.",
         "Threads stand in for processes; whole system calls are atomic steps (sequential consistency); bounds as stated. Trusted: fsx shim scheduler (determinism self-test and replay-before-report on every run).",
         "DESIGN.md §4 C01"),
 "C04": ("stateless model checking (sleep-set DFS unbounded for all operation pairs, iterative preemption bounding for larger programs) with a Wing-Gong linearizability check of every execution's call/return history against a register-with-put specification",
         "All pairs of {set, put, get, touch, ensure} x key absent/present without any bound (ensure||ensure bounded at 3 preemptions in quick, unbounded in thorough), curated 2-3 participant x 2-3 operation programs at bound 2 (thorough: every 2 x <=2-op program and 3 x 1-op triple at bound 2, curated at bound 3).",
         "ensure is checked as its documented sub-operations. Trusted: scheduler, dependence relation used by sleep sets (over-approximated from call footprints).",
         "DESIGN.md §4 C04"),
 "C05": ("stateless model checking with a deleting adversary: all interleavings within a preemption bound of programs where every write maintains and directories may be missing",
         "27 (quick) programs on plain, sharded (missing shard directories) and stacked front-ends: two maintainers over crowded directories, maintenance vs lookups/touches, an outsider unlinking published entries at any call boundary, everything starting from a non-existent cache directory; every operation must return Ok, no panic, no deadlock.",
         "Bound 2 (thorough 3). The adversary deletes published entries only.",
         "DESIGN.md §4 C05"),
 "C06": ("stateless model checking: all schedules within the preemption bound contain every solo run of a participant against frozen peers; step-bound, lock, lock-file, retry and deadlock monitors on each",
         "C05's programs plus C04's curated ones: own filesystem steps per operation <= 120 + 10 x entries listed, no flock/lockf/fcntl lock, no exclusive create inside a cache directory outside .kismet_temp, at most two publication attempts per write, no deadlock, no operation exceeding the 2000-step horizon.",
         "A frozen peer = a participant never scheduled again before the observed operation returns (covered for every prefix with <= bound-1 preemptions). Step constants frozen in the harness.",
         "DESIGN.md §4 C06"),
 "C02": ("exhaustive crash-point enumeration: a forked copy of the process _exits instead of executing call k, for every k of every scenario, followed by a fresh-handle recovery suite",
         "246 scenarios (operation x pre-state x front-end) x every intercepted call boundary (~6.7k crash states; thorough adds a second crash at every call of the recovering process): on the surviving tree every key-named file is a complete read-only value for its key, debris is confined to .kismet_temp, maintenance by a fresh handle keeps young temp files and reclaims old ones, and get/touch/put/set/ensure through a fresh handle obey register semantics.",
         "Process death, not power loss (kernel state intact). Trusted: shim (the death is injected in the interposed call), snapshot code.",
         "DESIGN.md §4 C02"),
 "C18": ("exhaustive single-fault enumeration: every intercepted call of every scenario x every errno plausible for that call kind (thorough: double faults for short operations, effect-then-fail)",
         "~21k (quick) fault cases over the C02 scenario table: no panic but the documented one, Err or Ok-with-effect-verified-on-disk, C02's validity predicate, no leaked temp file or descriptor, and the operation succeeds when re-issued without the fault.",
         "Absence errnos (ENOENT/ESTALE) on a probe of the key's own path are by documented classification 'not there'; only validity is checked for those. Trusted: shim fault injection, errno table of DESIGN.md §3.3.",
         "DESIGN.md §4 C18"),
 "C03": ("exhaustive enumeration of publishing paths x configurations with a per-inode event-order monitor on the intercepted call trace, plus every fsync failing in turn",
         "Every publishing API path x writer front-end x value size x maintenance on/off is executed on the real code; the call trace must show, for the inode that becomes visible, last content event < successful fsync < write-bits stripped <= rename/link, and nothing but reads/stat/atime/unlink afterwards. auto_sync(false) cells are the control that the monitor can tell the difference. Each fsync of each cell then fails with EIO/ENOSPC: error or documented panic, never a publication.",
         "Judges call order, not what a disk does after power loss. Trusted: shim trace (inode of every fd/path event).",
         "DESIGN.md §4 C03"),
 "C13": ("exhaustive configuration-matrix enumeration against a stack-resolution reference model",
         "All 9198 cells of write side x read-only list x per-level content (incl. primary/secondary shard placement) x operation x populate outcome are run on the real API; result, judge arguments, populate arguments, before/after snapshots of every level, which levels were opened, temp-file and source residue are compared with a 150-line reference model.",
         "Trusted: the reference model in harness/src/props/stackmx.rs, snapshot code.",
         "DESIGN.md §4 C13"),
 "C14": ("exhaustive configuration-matrix enumeration with an inode-logging checker against a reference model",
         "All 44608 cells of 1-3 level stacks x contents x {get, ensure, get_or_update x actions} x populate {A, B, NotFound, error} x checker {none, logging byte-equality, panicking, library byte-equality}: success iff all compared copies are identical, every redundant copy appears in the checker's invocation log, errors and panics reach the caller, without a checker nothing after the first hit is opened.",
         "Trusted: reference model, inode identity of checker arguments.",
         "DESIGN.md §4 C14"),
 "C15": ("exhaustive configuration-matrix enumeration with a mutating-call monitor and recursive snapshots of read-only roots",
         "Every C13/C14 cell with a read-only level, plus ReadOnlyCache alone over missing/empty/populated/shard-less roots and present, absent, reserved and malformed names: no creating/renaming/unlinking/chmod/truncating/writing/mtime-setting call may target a read-only root and snapshots must be equal up to atime of a found entry.",
         "Histories on stacked caches are monitored inside the C11 exploration as well. Trusted: shim trace, snapshot code.",
         "DESIGN.md §4 C15"),
 "C19": ("exhaustive configuration-matrix enumeration x umask with handle and mode inspection",
         "C13 and C14 matrices x umask {000,022,077} (127962 cells): F_GETFL, lseek(SEEK_CUR), read-to-end of every returned handle after judge and checker consumed the files, st_mode of everything visible under the key name.",
         "The O_RDWR throw-away file returned when no write cache exists is out of scope (not cached data).",
         "DESIGN.md §4 C19"),
 "C20": ("exhaustive enumeration of operation x front-end x depth x checker at four directory sizes, comparing intercepted call-count vectors and descriptor tables",
         "148 scenario cells x pre-population {0,10,100,2000}: identical per-kind call counts across sizes, no directory listing, at most two probes per cache directory per lookup, peak open files+streams <= 2 (3 with checker), nothing left open (shim table and /proc/self/fd), no lock call.",
         "For touch, the bound counts distinct files probed (filetime retries a failed open of the same path). Trusted: shim fd accounting.",
         "DESIGN.md §4 C20"),
 "C07": ("exhaustive small-scope enumeration of directory populations on a real filesystem against a clock-queue reference model",
         "Every population of key-named files over 3 ranks x 3 read-mark relations (all mark orders inside equal ranks, both listing orders, stray subdirectories) x every capacity is materialised on tmpfs, pruned by the real raw_cache::prune (and, for a fixed stride, by plain::Cache::set and sharded::Cache::put with the trigger scripted to fire), and the before/after delta is compared with the classical Second Chance queue under some tie order, with exact survivor metadata. Complete for the stated small scope (n<=5 sequences / n<=7 multisets quick; 8 / 12 thorough).",
         "Trusted: reference clock queue (shared with C08), snapshot code, shim's sorted readdir order; timestamps set explicitly; virtual clock.",
         "DESIGN.md §4 C07"),
 "C08": ("exhaustive small-scope enumeration of planner inputs against a step-by-step clock-queue reference model",
         "Every input sequence of up to 7 (quick) / 8 (thorough) identity-tagged entries over 4 ranks x 2 flags and every capacity 0..n+1 is run through the real Update::new and compared with the classical Second Chance queue under some tie order; identity, drop-count and no-panic are checked on each. Complete for the stated domain; larger n only through enumerated families.",
         "Trusted: the 20-line reference clock queue in harness/src/props/c08.rs; ranks limited to 4 values (ties abound) for the exhaustive part.",
         "DESIGN.md §4 C08"),
 "C09": ("explicit-state breadth-first search over operation sequences on the real code under every emulated atime policy and timestamp granularity, checked step by step against an abstract queue, with the real prune run on a clone after every marking step",
         "Alphabet {set, put, get+read, get unread, touch, maintenance at capacity 0/1/2} over 2-3 keys; states are canonical (name, value, mtime rank with ties, read mark, clock phase) and deduplicated; quick: 12 pairwise-covering configurations of front-end x {noatime, relatime, strict} x 6 (granularity, clock step) pairs to depth 4, thorough: all 54 (+3-key variants) to depth 8 or fixpoint. A marking operation must set the mark without touching mtime, content or any other entry; an insertion must be newest and unmarked; the next (real) maintenance must spare the marked entry.",
         "Kernel atime behaviour and timestamp granularity are emulated by the shim (O_NOATIME + explicit stamping, flooring); one virtual clock.",
         "DESIGN.md §4 C09"),
 "C11": ("explicit-state breadth-first search over sequential operation histories through 1-3 independent handles on the real code, deduplicated on a canonical state key, checked step by step against a map model with explainable evictions",
         "Front-ends plain, sharded (2, 3; thorough also 8 shards) and stacked; keys colliding on the same shard pair, on the swapped pair and through the distinctness fix-up; environment answers (trigger fires or not, which other shard is maintained) enumerated; capacities tight (2 per directory) and roomy. Every lookup must equal the map model; an entry may vanish only through an unlink that belongs to a maintenance of a listed, over-capacity directory and is a Second Chance outcome (brute force over tie orders); no key in two directories or outside its two candidates; sources consumed; read-only level untouched. Quick: depth 3-4 per configuration (about 6e5 replays); thorough: deeper, wall-capped, completed depth reported per configuration.",
         "Histories beyond the completed depth are covered only where a fixpoint is reported. State key includes each handle's load estimates (hook).",
         "DESIGN.md §4 C11"),
 "C10": ("explicit enumeration of the trigger's reachable states and of short write sequences through the real write path, with maintenance observed in the intercepted call trace",
         "Every capacity 0..40 (quick) / 0..200 (thorough) x every adversarial draw (boundaries of every multiple of the per-event decrement, minimum, maximum) from the uninitialised and the just-fired countdown: maintenance (an opendir of the cache directory) must be observed within max(1, k/3) writes and before the write's own publication; all write sequences of length <= 5 (7) over {set, put} x {fresh, oldest, newest key} for capacities 0..6 and worst-case families up to the largest capacity: file count <= k + max(1, k/3) after every write; huge capacities up to usize::MAX.",
         "The random source is scripted through the cfg(kismet_verif) hook in trigger::regenerate. Single writer.",
         "DESIGN.md §4 C10"),
 "C12": ("exhaustive enumeration of a boundary-hash grid x shard counts against an independent reimplementation of the placement function",
         "For every shard count 0..70 (0..400 thorough) and selected large ones, every primary hash whose mixed image sits on either side of a shard boundary and every secondary hash landing on the same/next/previous shard: the real library's probe paths (intercepted open calls), storage location after put through a fresh handle, cross-handle lookup, secondary-shard get/touch/set and the type-erased front-ends are compared with a reference written from the documentation (own SHA-256, u128 arithmetic).",
         "The 2^128 hash pairs are covered by a structured grid, not exhausted; trusted: harness SHA-256 (known-answer self-test).",
         "DESIGN.md §4 C12"),
 "C16": ("exhaustive small-scope enumeration of key names x operations x front-ends with whole-world snapshots and a path monitor on every mutating call",
         "Every name of length <=4 (quick) / <=6 (thorough) over {a . / \\\\ NUL e-acute} plus edge names, for each of 8 operations and 3 front-ends, is run against the real API inside a world of sentinel files; reserved names must give InvalidInput with a byte- and metadata-identical world, every other name either fails without effect or affects only its direct-child entry.",
         "Names longer than the enumerated length are covered by fixed edge cases only; trusted: snapshot/diff code and the shim's trace.",
         "DESIGN.md §4 C16"),
 "C17": ("exhaustive small-scope enumeration of directory populations (entries, foreign dot-files, directories, temp files around the age limit) with forced maintenance",
         "Every combination of <=3 (quick) / <=4 (thorough) key-named files, 32 subsets of foreign objects, temp-file age sets around the one-hour limit (virtual clock), every capacity and five ways of forcing maintenance is run on the real code; dot-files and directories must be bit-identical afterwards (atime included), young temp files must survive and old ones go.",
         "Trusted: virtual clock (ages exact to 1 ms), snapshot code. The file aged exactly the limit is don't-care.",
         "DESIGN.md §4 C17"),
}

PENDING = {}

ALL = ["C%02d" % i for i in range(1, 21)]

def main():
    here = os.path.dirname(os.path.dirname(os.path.abspath(__file__)))
    checks = []
    for pid in ALL:
        if pid not in CHECKS:
            continue
        tech, text, note, ref = CHECKS[pid]
        checks.append({
            "property_id": pid,
            "quick_cmd": "./check %s --tier quick" % pid,
            "thorough_cmd": "./check %s --tier thorough" % pid,
            "evidence_file": "evidence/%s.json" % pid,
            "replay_cmd_template": "./check %s --replay {path}" % pid,
            "engine": "kverif",
            "technique": tech,
            "level_claimed": {"category": "model_checking", "text": text, "design_ref": ref},
            "level_note": note,
        })
    na = [{"property_id": pid, "reason": PENDING.get(pid, "check not built yet in this session (work in progress; see DESIGN.md §4 for the planned decision procedure)")}
          for pid in ALL if pid not in CHECKS]
    m = {
        "version": 1,
        "setup_cmd": "./check --build",
        "hooks": {
            "guard": "--cfg kismet_verif",
            "enable": "RUSTFLAGS=\"--cfg kismet_verif\" CARGO_TARGET_DIR=/verif/target cargo build --release --offline in /verif/harness (run by ./check; the harness crate depends on /repo by path, so every check rebuilds from /repo's working tree)",
            "baseline_off_cmd": "cd /repo && cargo test --workspace --no-fail-fast --offline",
            "source_commits": HOOK_COMMITS,
            "add_only": True,
        },
        "engines": [{
            "name": "kverif", "path": "harness/",
            "serves_properties": [c["property_id"] for c in checks],
            "kind_free_text": "Rust binary that statically links the real kismet-cache, interposes the libc filesystem entry points (fsx shim: trace, virtual clock, atime policy, readdir order, fault/crash/schedule control) and exhaustively enumerates schedules / crash points / faults / histories / configurations / small inputs on a real tmpfs; driven by ./check with 16 worker processes",
        }],
        "checks": checks,
        "not_applicable": na,
        "notes": "All checks decide by exhaustive bounded enumeration on the real code (model checking family); see DESIGN.md. known_findings.json lists genuine defects (both found so far are fixed by 'fix:' commits in /repo).",
    }
    with open(os.path.join(here, "MANIFEST.json"), "w") as f:
        json.dump(m, f, indent=1)
        f.write("\n")

if __name__ == "__main__":
    main()
