#!/bin/bash
# usage: tools/try_seed.sh <ID> [check ids...]   — confirm a seeded change from /tmp/seed/<ID>/SEED and run our checks against it
# 1. existing suite passes with the change  2. demo fails with / passes without  3. our check(s) on /repo with the patch applied
set -u
REPO=${REPO:-/repo}; VERIF=${VERIF:-/verif}   # a scratch copy of both can be used while /verif is busy
ID=$1; shift
CHECKS=${*:-$ID}
W=${SEED_BASE:-/tmp/seed}/$ID
S=$W/SEED
export CARGO_TARGET_DIR=$W/target CARGO_NET_OFFLINE=true
cd $W || exit 2
echo "== $ID: patch"; git -C $W diff --stat -- src | tail -1
# the worktree must contain exactly the delivered patch
if ! git -C $W diff -- src | diff -q - $S/patch.diff >/dev/null; then
  echo "WORKTREE DIFFERS FROM patch.diff: resetting the worktree's src to HEAD + patch.diff"
  git -C $W checkout -- src && git -C $W apply $S/patch.diff || { echo "cannot re-apply"; exit 2; }
fi
git -C $REPO apply --check $S/patch.diff || { echo "PATCH DOES NOT APPLY TO $REPO"; exit 2; }
echo "== suite with change"
SUITE=$(cargo test --offline 2>&1 | grep -E "^test result" | tr '\n' ' ')
echo "$SUITE"
echo "== demo with change"
(sh $S/demo/run.sh >$W.with.log 2>&1); WITH=$?
echo "exit $WITH"
# (git stash is shared by all worktrees of a repository: never use it here)
git -C $W apply -R $S/patch.diff
echo "== demo without change"
(sh $S/demo/run.sh >$W.without.log 2>&1); WITHOUT=$?
echo "exit $WITHOUT"
git -C $W apply $S/patch.diff
echo "== our checks with the patch applied to /repo"
git -C $REPO apply $S/patch.diff
RES=""
for c in $CHECKS; do
  OUT=$(cd $VERIF && ./check $c 2>&1 | cut -c1-600 | head -6)
  echo "$OUT"
  if echo "$OUT" | grep -q "^VIOLATION property=$c"; then RES="$RES $c:caught"; else RES="$RES $c:missed"; fi
done
git -C $REPO checkout -- .
rm -rf $VERIF/replays
echo "== SUMMARY $ID suite=[$SUITE] demo_with=$WITH demo_without=$WITHOUT checks=[$RES]"
