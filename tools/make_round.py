#!/usr/bin/env python3
"""usage: tools/make_round.py <base dir, e.g. /tmp/seed5>  — one scratch worktree of /repo and one prompt per property,
the prompt listing every earlier seeded change for that property (from /verif/seeded/*/meta.json)."""
import json, os, subprocess, sys, glob
base = sys.argv[1]
os.makedirs(base, exist_ok=True)
tmpl = open('/verif/tools/seed_prompt.tmpl').read()
props = [json.loads(l) for l in open('/verif/properties.jsonl')]
prev = {}
for d in sorted(glob.glob('/verif/seeded/*/')):
    m = json.load(open(d + 'meta.json'))
    prev.setdefault(m['property'], []).append((os.path.basename(d.rstrip('/')), m['needs_to_manifest']))
for p in props:
    pid = p['id']
    w = os.path.join(base, pid)
    subprocess.run(['git', '-C', '/repo', 'worktree', 'add', '--detach', '-f', w, 'HEAD'], check=True, capture_output=True)
    lines = ["Earlier attempts on this property (already known and detected; yours must differ from ALL of them in mechanism, in the function/file it touches and in the kind of thing it needs to manifest):"]
    for name, needs in prev.get(pid, []):
        lines.append("- %s: needs %s" % (name, needs))
    lines.append("Aim for what those did not touch: another module (plain.rs, sharded.rs, readonly.rs, stack.rs, cache_dir.rs, raw_cache.rs, second_chance.rs, trigger.rs, multiplicative_hash.rs, benign_error.rs, lib.rs), another API entry point or builder option, boundary arithmetic, behaviour that depends on an environment answer (timestamps, umask, errno classes, directory listing order, hard links, symlinks, relative paths), or a combination of two triggers.")
    text = tmpl.replace('@DIR@', w).replace('@PROPERTY@', json.dumps(p, indent=1)).replace('@PREVIOUS@', "\n".join(lines))
    open(os.path.join(base, pid + '.prompt.txt'), 'w').write(text)
print("ok", len(props))
