#!/usr/bin/env python3
"""Shim-completeness audit: run `kverif audit` under strace and compare, for the participant
section (between two access("/kverif-audit-marker") calls of the main thread), the kernel's
count of each file-related system call with the shim's count of intercepted calls.
Exit 0: equal (or strace unavailable: reported as skipped); 2: mismatch (machinery failure)."""
import json, os, re, subprocess, sys, tempfile
BIN = "/verif/target/release/kverif"
def main():
    out = tempfile.mktemp(prefix="kverif-audit-", dir="/dev/shm")
    try:
        p = subprocess.run(["strace", "-f", "-o", out, "-e",
            "trace=access,open,openat,statx,rename,renameat,renameat2,link,linkat,unlink,unlinkat,mkdir,mkdirat,chmod,fchmodat,fchmod,fsync,fdatasync,utimensat,copy_file_range,write,close,sendfile,ftruncate,truncate,symlink,symlinkat,rmdir",
            BIN, "audit"], stdout=subprocess.PIPE, stderr=subprocess.PIPE, text=True, timeout=300)
    except (FileNotFoundError, subprocess.TimeoutExpired) as e:
        print("AUDIT skipped: strace unavailable (%s)" % e); return 0
    m = re.search(r"SHIM-COUNTS (\{.*\})", p.stdout)
    if p.returncode != 0 or not m or not os.path.exists(out):
        print("AUDIT skipped: could not run under strace (rc=%s): %s" % (p.returncode, p.stderr[-300:])); return 0
    shim = json.loads(m.group(1))
    lines = open(out).read().splitlines(); os.unlink(out)
    main_pid = lines[0].split()[0]
    inside = False; kern = {}
    def add(k): kern[k] = kern.get(k, 0) + 1
    for l in lines:
        parts = l.split(None, 1)
        if len(parts) < 2 or parts[0] != main_pid: continue
        call = parts[1]
        if call.startswith("access(") and "kverif-audit-marker" in call:
            inside = not inside; continue
        if not inside or "<unfinished" in call and False: continue
        name = call.split("(", 1)[0]
        if name in ("open", "openat"):
            add("opendir" if "O_DIRECTORY" in call else "open")
        elif name == "statx": add("stat")
        elif name in ("rename", "renameat", "renameat2"): add("rename")
        elif name in ("link", "linkat"): add("link")
        elif name in ("unlink", "unlinkat", "rmdir"): add("unlink")
        elif name in ("mkdir", "mkdirat"): add("mkdir")
        elif name in ("chmod", "fchmodat"): add("chmod")
        elif name == "fchmod": add("fchmod")
        elif name in ("fsync", "fdatasync"): add("fsync")
        elif name == "utimensat": add("utimens")
        elif name in ("copy_file_range", "sendfile"): add("copy_file_range")
        elif name == "write":
            fd = int(re.match(r"write\((\d+)", call).group(1))
            if fd > 2: add("write")
        elif name == "close": add("close_any")
    # closes: the shim separates close / closedir; the kernel sees both as close
    shim_close = shim.pop("close", 0) + shim.pop("closedir", 0)
    kern_close = kern.pop("close_any", 0)
    ok = True
    for k in sorted(set(shim) | set(kern)):
        a, b = shim.get(k, 0), kern.get(k, 0)
        flag = "" if a == b else "   <-- MISMATCH"
        if a != b: ok = False
        print("  %-16s shim=%-5d kernel=%-5d%s" % (k, a, b, flag))
    print("  %-16s shim=%-5d kernel=%-5d%s" % ("close(+dir)", shim_close, kern_close, "" if shim_close == kern_close else "   <-- MISMATCH"))
    if shim_close != kern_close: ok = False
    res = {"audit": "ok" if ok else "mismatch", "shim": shim, "kernel": kern}
    os.makedirs("/verif/evidence", exist_ok=True)
    json.dump(res, open("/verif/evidence/shim_audit.json", "w"), indent=1, sort_keys=True)
    print("AUDIT", "ok: every file system call of the participant section went through the shim" if ok else "MISMATCH: the shim is incomplete")
    return 0 if ok else 2
if __name__ == "__main__":
    sys.exit(main())
