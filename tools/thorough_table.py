#!/usr/bin/env python3
"""Prints the rows of DESIGN 9.8 from copies of the thorough-tier evidence files.
usage: tools/thorough_table.py <dir with thor-CXX.json>   (the 'what is deeper' column is kept from DESIGN.md)"""
import json, re, sys, os
src = sys.argv[1]
design = open(os.path.join(os.path.dirname(__file__), "..", "DESIGN.md")).read()
design = design[design.index("### 9.8 Thorough tier"):]
deeper, complete = {}, {}
for m in re.finditer(r"^\| (C\d\d) \| [^|]*\| [^|]*\| ([^|]*)\| ([^|]*)\| [^|]*\|$", design, re.M):
    deeper.setdefault(m.group(1), m.group(2).strip()); complete.setdefault(m.group(1), m.group(3).strip())
def fmt(n):
    if n >= 10_000_000: return "%.0f M" % (n / 1e6)
    if n >= 1_000_000: return "%.1f M" % (n / 1e6)
    return "{:,}".format(n).replace(",", " ")
for i in range(1, 21):
    cid = "C%02d" % i
    p = os.path.join(src, "thor-%s.json" % cid)
    if not os.path.exists(p):
        print("| %s | (not run) | | | | |" % cid); continue
    e = json.load(open(p)); c = e["coverage"]
    assert e["tier"] == "thorough" and not e["violations"], cid
    prof = " (two build profiles)" if "debug-assertions" in str(c.get("facts", {}).get("build_profiles", "")) else ""
    print("| %s | %s%s | %s | %s | %s | %d s |" % (cid, "{:,}".format(c["evaluations"]).replace(",", " "), prof, fmt(c["transitions"]), deeper.get(cid, ""), ("yes" if c["exhaustive"] else complete.get(cid, "capped")), round(e["wall_s"])))
