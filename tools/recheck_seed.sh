#!/bin/bash
# usage: tools/recheck_seed.sh <patch.diff> <check ids...>   — apply a (confirmed) seeded change to /repo, run checks, revert
P=$1; shift
git -C /repo apply $P || { echo "PATCH DOES NOT APPLY"; exit 2; }
RES=""
for c in "$@"; do
  OUT=$(cd /verif && ./check $c 2>&1 | cut -c1-500)
  echo "$OUT" | grep -E "^VIOLATION|^  [a-z]" | head -4
  if echo "$OUT" | grep -q "^VIOLATION property=$c"; then RES="$RES $c:caught"; else RES="$RES $c:missed"; fi
done
git -C /repo checkout -- .
rm -rf /verif/replays
echo "== RECHECK $P [$RES]"
