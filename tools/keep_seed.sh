#!/bin/bash
# usage: tools/keep_seed.sh <ID> <name> "<needs>" "<caught_by>" "<missed_by>" — copy a confirmed seeded change into /verif/seeded/<name>
ID=$1; NAME=$2; NEEDS=$3; CAUGHT=$4; MISSED=$5
D=/verif/seeded/$NAME
rm -rf $D; mkdir -p $D
cp ${SEED_BASE:-/tmp/seed}/$ID/SEED/patch.diff $D/patch.diff
cp -r ${SEED_BASE:-/tmp/seed}/$ID/SEED/demo $D/demo
rm -f $D/demo/*.log
cp ${SEED_BASE:-/tmp/seed}/$ID/SEED/NOTES.md $D/NOTES.md
python3 - "$ID" "$NAME" "$NEEDS" "$CAUGHT" "$MISSED" <<'PY'
import json,sys
pid,name,needs,caught,missed=sys.argv[1:6]
meta={
 "property": pid,
 "origin": "independent sub-agent given only the property record and a scratch worktree",
 "needs_to_manifest": needs,
 "confirmed": {
   "existing_suite_with_change": "79 unit tests + 2 doctests pass (cargo test --offline in the scratch worktree)",
   "demo_with_change": "demo/run.sh exits non-zero",
   "demo_without_change": "demo/run.sh exits 0 (source change reverted with git apply -R)",
   "how": "tools/try_seed.sh %s (suite, demo both ways, then git -C /repo apply patch.diff; ./check ...; git -C /repo checkout -- .)" % pid,
 },
 "caught_by": [c for c in caught.split() if c],
 "not_caught_by": [c for c in missed.split() if c],
}
json.dump(meta, open('/verif/seeded/%s/meta.json'%name,'w'), indent=1)
PY
ls $D
