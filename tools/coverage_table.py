#!/usr/bin/env python3
"""Prints the §9.3 coverage table of DESIGN.md from the evidence files (run after all quick checks)."""
import json
print("| id | executions / cases | intercepted calls | distinct non-trivial | complete? | wall |")
print("|----|-------------------:|------------------:|---------------------:|-----------|-----:|")
for i in range(1, 21):
    d = json.load(open('/verif/evidence/C%02d.json' % i)); c = d['coverage']
    print('| C%02d | %s | %s | %s | %s | %.0f s |' % (i, format(c['evaluations'], ','), format(c['transitions'], ','), format(c['distinct_nontrivial'], ','), 'yes' if c.get('exhaustive') else 'capped (see evidence facts)', d['wall_s']))
