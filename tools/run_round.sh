#!/bin/bash
# usage: SEED_BASE=/tmp/seedN tools/run_round.sh "<ID checks...>" ...   — try every seed of a round in turn (they share /repo, so never in parallel)
cd ${VERIF:-/verif}
for spec in "$@"; do
  set -- $spec
  tools/try_seed.sh "$@" > $SEED_BASE/$1.try.log 2>&1
  grep "== SUMMARY" $SEED_BASE/$1.try.log
done
echo ALLDONE
